#!/bin/bash
# MANIFEST.setup_cmd — offline build of the verification framework from files on disk.
set -e
here="$(cd "$(dirname "${BASH_SOURCE[0]}")" && pwd)"
cd "$here"
mkdir -p evidence replays
# 1. regenerate the translator's output from /repo's current sources (Kopf/Extracted/*.lean)
./check --extract-all || echo "setup: some extraction failed (will be reported by the corresponding check)" >&2
# 2. clean build of every Lean module that exists (models, theorems, ties, driver)
cd lean
python3 - <<'PY'
from pathlib import Path
mods = sorted(str(p.with_suffix("")).replace("/", ".") for p in Path("Kopf").rglob("*.lean")
              if "Audit" not in p.parts)
Path("Kopf.lean").write_text("".join(f"import {m}\n" for m in mods))
PY
lake build 2>&1 | tail -5
# 3. sanity: the driver answers
echo '["echo", {"a": [1, true, null]}]' | lake env lean --run Driver.lean | grep -q '"ok"' && echo "setup: driver ok"
