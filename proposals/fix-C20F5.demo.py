"""What aiotasks.stop / run_tasks / the orchestrator do with a task that, being cancelled, ends with RuntimeError
(raised from its `finally:`, replacing the in-flight CancelledError) — the situation proposals/fix-C20F5.diff creates."""
import asyncio, logging
from kopf._cogs.aiokits import aiotasks
from kopf._core.reactor import running
logging.basicConfig(level=logging.ERROR)

async def watcher_like(fail: bool):
    try:
        await asyncio.Event().wait()
    finally:
        await asyncio.sleep(0.01)               # depletion
        if fail:
            raise RuntimeError("Event processing has failed with an unrecoverable error.")

async def other():
    await asyncio.Event().wait()

async def main():
    # (1) aiotasks.stop(): returns normally, the task is DONE (not pending), nothing hangs, stop() itself does not raise
    t1 = asyncio.create_task(watcher_like(True)); t2 = asyncio.create_task(watcher_like(False)); await asyncio.sleep(0)
    done, pending = await asyncio.wait_for(aiotasks.stop([t1, t2], title="x", logger=None), timeout=1)
    print("(1) stop():", len(done), "done,", len(pending), "pending; t1:", repr(t1.exception()), "| t2 cancelled:", t2.cancelled())
    # (2) aiotasks.reraise(): the error is re-raised, the plain cancellation is passed over
    try:
        await aiotasks.reraise(done); print("(2) reraise(): nothing raised")
    except RuntimeError as e:
        print("(2) reraise(): raises", type(e).__name__)
    # (3) run_tasks(): a stop by another root task ending; the cancelled watcher-like root ends with RuntimeError
    async def ends_soon(): await asyncio.sleep(0.05)
    roots = [asyncio.create_task(ends_soon()), asyncio.create_task(watcher_like(True)), asyncio.create_task(other())]
    await asyncio.sleep(0)
    try:
        await asyncio.wait_for(running.run_tasks(roots, ignored=await aiotasks.all_tasks()), timeout=8)
        print("(3) run_tasks(): returned normally")
    except RuntimeError as e:
        print("(3) run_tasks(): all root tasks done:", all(t.done() for t in roots), "-> raises", type(e).__name__)
    # (4) the same when run_tasks itself is cancelled: the cancellation wins, nothing hangs
    roots = [asyncio.create_task(other()), asyncio.create_task(watcher_like(True))]
    await asyncio.sleep(0)
    rt = asyncio.create_task(running.run_tasks(roots, ignored=await aiotasks.all_tasks()))
    await asyncio.sleep(0.02); rt.cancel()
    try:
        await asyncio.wait_for(rt, timeout=8)
    except asyncio.CancelledError:
        print("(4) cancelled run_tasks(): CancelledError; all root tasks done:", all(t.done() for t in roots))
asyncio.run(main())
