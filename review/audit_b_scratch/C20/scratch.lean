import Kopf.Props.C20
open Kopf.C20
#print axioms no_api_before_startup
#print axioms failed_startup_no_api
#print axioms ready_after_startup
#print axioms root_failure_stops_all
#print axioms root_failure_no_lingering
#print axioms cleanup_last
#print axioms reraise
#print axioms daemons_stopped
#print axioms peering_withdrawn
#print axioms worker_failure_reaches_watcher
#print axioms worker_failure_stops_all_partial
#print axioms exit_bound
#print axioms stream_failure_stops_all
#print axioms gone_is_not_a_failure
#print axioms stream_failure_stops_all_partial
#print axioms historical_stream_failure_lingers_witness
