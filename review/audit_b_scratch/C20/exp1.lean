import Kopf.Props.C20
open Kopf.C20

def cfgHead : Cfg := { fixed := true, E := 128, W := 264, D := 0, C := 0, H := 320 }

def startAll : List Label :=
  [.scStartupBegin, .scStartupEnd .none, .setStarted, .ready,
   .enter .daemonKiller, .coreEnter, .enter .poster, .enter .admChain, .enter .admValidating, .enter .admMutating,
   .enter .admServer, .enter .resObserver, .enter .nsObserver, .enter .orchestrator]

def showRun (cfg : Cfg) (ls : List Label) : String :=
  match run cfg init ls with
  | none => "REJECTED"
  | some s => s!"now={s.now} rt={repr s.rt} res={repr s.result} t0={repr s.t0} exitAt={repr s.exitAt} core={repr s.core} orch={repr (s.st (.root .orchestrator))} creqOrch={s.creq (.root .orchestrator)} orchErr={s.orchErr} urgent={urgent cfg s} acts={s.acts} rootFailed={s.rootFailed}"

-- first index where rejected
def firstBad (cfg : Cfg) (ls : List Label) : Option (Nat × Label) := Id.run do
  let mut s := init
  let mut i := 0
  for l in ls do
    match step cfg s l with
    | some s' => s := s'; i := i + 1
    | none => return some (i, l)
  return none

-- E1: non-cooperative daemon: fullRun minus [daemonExit 0, rtExit]
#eval showRun cfgDemo (fullRun.take (fullRun.length - 2))
#eval (do let s ← run cfgDemo init (fullRun.take (fullRun.length - 2)); pure ((step cfgDemo s (.delay 1)).isSome, (step cfgDemo s (.rtExit .returned)).isSome, (step cfgDemo s (.daemonExit 0)).isSome) : Option _)

-- E3: core (authenticator) task fails; operator lingers for any time in the model of the current tree
#eval showRun cfgHead (startAll ++ [.coreEnd .failed, .delay 1000000])

-- E4: the orchestrator's own loop cannot fail in the model
#eval (do let s ← run cfgHead init startAll; pure (step cfgHead s (.rootEnd .orchestrator .failed)).isSome : Option _)
-- a simple root can
#eval (do let s ← run cfgHead init startAll; pure (step cfgHead s (.rootEnd .poster .failed)).isSome : Option _)

-- E5: worker failure lost through subGone (current-tree variant)
#eval showRun cfgHead (startAll ++ [.subSpawn .watcher, .workerStart (.sub 0), .workerEnd 0 .failed, .subGone 0, .subEnd 0 .failed, .delay 1000000])
#eval firstBad cfgHead (startAll ++ [.subSpawn .watcher, .workerStart (.sub 0), .workerEnd 0 .failed, .subGone 0, .subEnd 0 .failed, .delay 1000000])
-- worker failure during a redundancy stop: lost
#eval showRun cfgHead (startAll ++ [.subSpawn .watcher, .workerStart (.sub 0), .subCancel 0, .subStopping 0 false, .workerEnd 0 .failed, .subEnd 0 .cancelled, .delay 1000000])
#eval firstBad cfgHead (startAll ++ [.subSpawn .watcher, .workerStart (.sub 0), .subCancel 0, .subStopping 0 false, .workerEnd 0 .failed, .subEnd 0 .cancelled, .delay 1000000])

-- E2: from an ensemble stream failure to exit: 3E + H with W = D = C = 0, while t0-based bound is E+W+D+C+H
def cfg0 : Cfg := { fixed := true, E := 128, W := 0, D := 0, C := 0, H := 320 }
def slow : List Label := startAll ++
  [.subSpawn .watcher, .subSpawn .watcher, .workerStart (.sub 0), .workerStart (.sub 1), .workerStart (.root .resObserver), .daemonSpawn,
   .delay 1000,
   .subStopping 0 true, .delay 128, .workerEnd 0 .cancelled, .subEnd 0 .failed,
   .rootStopping .orchestrator true, .subStopping 1 false, .delay 128, .workerEnd 1 .cancelled, .subEnd 1 .cancelled,
   .rootEnd .orchestrator .failed, .rtStopRoots,
   .rootEnd .stopFlag .done, .rootEnd .ultimate .done, .scWake, .rootEnd .poster .cancelled, .rootEnd .admChain .cancelled,
   .rootEnd .admValidating .cancelled, .rootEnd .admMutating .cancelled, .rootEnd .admServer .cancelled,
   .rootEnd .nsObserver .cancelled, .rootEnd .daemonKiller .cancelled,
   .rootStopping .resObserver false, .delay 128, .workerEnd 2 .cancelled, .rootEnd .resObserver .cancelled,
   .scWaitRootsEnd, .scStopCore, .coreEnd .cancelled, .scCoreStopped, .scCleanupEnd .none, .vaultClosed, .rootEnd .startupCleanup .done,
   .rtHungWait, .delay 320, .rtStopHung, .daemonExit 0, .waiterEnd, .rtExit .raised]
#eval showRun cfg0 slow
#eval firstBad cfg0 slow
