import asyncio, logging, sys
sys.dont_write_bytecode = True
sys.path.insert(0, "/repo")
import kopf
logging.basicConfig(level=logging.INFO)

async def main():
    registry = kopf.OperatorRegistry()

    @kopf.on.login(registry=registry, errors=kopf.ErrorsMode.PERMANENT)
    def login(**_):
        raise kopf.PermanentError("no credentials today")

    @kopf.on.startup(registry=registry)
    def started(**_):
        print("STARTUP handler ran", flush=True)

    @kopf.on.cleanup(registry=registry)
    def cleanup(**_):
        print("CLEANUP handler ran", flush=True)

    ready = asyncio.Event()
    stop = asyncio.Event()
    t = asyncio.create_task(kopf.operator(registry=registry, clusterwide=True, ready_flag=ready, stop_flag=stop, standalone=True))
    await asyncio.wait([t], timeout=12)
    print("operator done after 12 s?", t.done(), flush=True)
    if t.done():
        print("result/exception:", repr(t.exception()), flush=True)
    else:
        live = [x.get_name() for x in asyncio.all_tasks() if not x.done()]
        print("live tasks:", sorted(live), flush=True)
        stop.set()
        await asyncio.wait([t], timeout=20)
        print("after stop flag: done?", t.done(), repr(t.exception()) if t.done() and not t.cancelled() else None, flush=True)

asyncio.run(main())
