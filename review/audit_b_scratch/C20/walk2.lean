import Kopf.Props.C20
open Kopf.C20

def pends : List Pend := [.none, .failed, .cancelled]
def ends : List TS := [.failed, .cancelled, .done]
def wss : List WS := [.done, .failed, .cancelled]
def idx : List Nat := [0,1,2,3,4,5,6,7,8,9,10,11,12,13,14,15,16,17,18,19,20,21,22,23,24,25,26,27,28,29,30,31,32,33,34,35,36,37,38,39,40]
def tasks : List Task := Root.all.map .root ++ idx.map .sub

def growing : List Label :=
  [.subSpawn .watcher, .subSpawn .peerWatcher, .subSpawn .pinger, .daemonSpawn, .orphan]
  ++ tasks.map .workerStart
  ++ [.act .orphan] ++ tasks.map (fun t => .act (.task t)) ++ idx.map (fun w => .act (.worker w))

def cands : List Label :=
  [.setStopFlag, .scStartupBegin, .setStarted, .ready, .scWake, .scWaitRootsEnd, .scStopCore, .scCoreStopped, .vaultClosed,
   .coreEnter, .coreEnd .cancelled, .coreEnd .failed, .waiterEnd, .orphanEnd,
   .rtStopRoots, .rtCancel, .rtHungWait, .rtStopHung, .rtCStopHung, .rtExit .returned, .rtExit .raised, .rtExit .cancelled]
  ++ pends.map .scStartupEnd ++ pends.map .scCleanupEnd
  ++ Root.all.map .enter
  ++ (Root.all.map (fun r => [Label.rootStopping r true, .rootStopping r false])).flatten
  ++ (Root.all.map (fun r => ends.map (fun h => Label.rootEnd r h))).flatten
  ++ (idx.map (fun i => [Label.subStopping i true, .subStopping i false, .subGone i, .subCancel i, .withdraw i] ++ ends.map (fun h => Label.subEnd i h))).flatten
  ++ (idx.map (fun w => wss.map (fun h => Label.workerEnd w h))).flatten
  ++ idx.map .daemonExit

def delays : List Label := [.delay 1, .delay 17, .delay 64, .delay 128, .delay 264, .delay 320]

def lcg (x : Nat) : Nat := (x * 6364136223846793005 + 1442695040888963407) % (2^64)

/-- returns (deadlocks found, exits, maxlen) -/
def walk (cfg : Cfg) (seed : Nat) (maxSteps : Nat) : (Option (List Label)) × Bool := Id.run do
  let mut s := init
  let mut rng := seed
  let mut trace : List Label := []
  for k in [0:maxSteps] do
    if s.rt == .exited then return (none, true)
    let pool := if k < 40 then cands ++ growing ++ delays else cands ++ delays
    let en := pool.filter (fun l => (step cfg s l).isSome)
    let enNoDelay := en.filter (fun l => match l with | .delay _ => false | _ => true)
    if en.isEmpty then return (some trace.reverse, false)
    rng := lcg rng
    -- prefer non-delay labels 3 out of 4 times after the growth phase
    let pick := if k ≥ 40 ∧ !enNoDelay.isEmpty ∧ (rng / 65536) % 4 ≠ 0 then enNoDelay else en
    rng := lcg rng
    let l := pick.getD ((rng / 65536) % pick.length) (.delay 0)
    match step cfg s l with
    | some s' => s := s'; trace := l :: trace
    | none => pure ()
  return (none, s.rt == .exited)

def cfgW : Cfg := { fixed := true, E := 128, W := 264, D := 64, C := 32, H := 320 }

def mainW (n : Nat) : (Nat × Nat × Nat × Option (List Label)) := Id.run do
  let mut dead := 0
  let mut exits := 0
  let mut noexit := 0
  let mut ex : Option (List Label) := none
  for i in [0:n] do
    let (d, e) := walk cfgW (i * 7919 + 13) 600
    match d with
    | some t => dead := dead + 1; if ex.isNone then ex := some t
    | none => if e then exits := exits + 1 else noexit := noexit + 1
  return (dead, exits, noexit, ex)

#eval mainW 400
