import Kopf.Props.C20
open Kopf.C20
-- fullRun under the current-tree variant
example : ∃ s, run { cfgDemo with fixed := true } init fullRun = some s ∧ s.rt = .exited ∧ s.result = some .returned := ⟨_, rfl, by decide, by decide⟩
#check @exit_bound
#check @stream_failure_stops_all
#check @historical_stream_failure_lingers_witness
#check @worker_failure_reaches_watcher
-- cancellation of operator() after stopping has begun is not a label: rtCancel needs rt = waiting
def pre : List Label := [.scStartupBegin, .scStartupEnd .none, .setStarted, .ready, .setStopFlag, .rootEnd .stopFlag .done, .rtStopRoots]
#eval (do let s ← run cfgDemo init pre; pure (step cfgDemo s .rtCancel).isSome : Option Bool)
-- after the stop flag (a root task has ended), unboundedly many activity labels are still accepted before rtStopRoots (no priority; only `delay` is blocked)
def busy : List Label := [.scStartupBegin, .scStartupEnd .none, .setStarted, .ready, .enter .poster, .setStopFlag, .rootEnd .stopFlag .done] ++ List.replicate 1000 (.act (.task (.root .poster)))
#eval (do let s ← run cfgDemo init busy; pure (s.acts, s.now, s.rt == .waiting) : Option _)
-- startup failure: stop flag set DURING startup, startup then still succeeds and sets started (accepted)
#eval (do let s ← run cfgDemo init [.scStartupBegin, .setStopFlag, .rootEnd .stopFlag .done, .rtStopRoots, .scStartupEnd .none, .setStarted, .ready, .enter .poster, .act (.task (.root .poster))]; pure (s.acts, s.started, s.ready) : Option _)
#eval (do let s ← run cfgDemo init [.scStartupBegin, .setStopFlag, .rootEnd .stopFlag .done, .rtStopRoots, .scStartupEnd .none, .setStarted, .ready]; pure ((step cfgDemo s (.enter .poster)).isSome) : Option _)
