import Kopf.Props.C12
open Kopf.C12 Kopf.C12.V

#print axioms Kopf.C12.attempts_bound
#print axioms Kopf.C12.gap_ge_backoff
#print axioms Kopf.C12.gap_ge_retry_after
#print axioms Kopf.C12.fatal_4xx_immediate
#print axioms Kopf.C12.transient_retried_then_escalates
#print axioms Kopf.C12.success_stops
#print axioms Kopf.C12.transient_http_iff
#print axioms Kopf.C12.retry_after_http_date
#print axioms Kopf.C12.http_date_delay_exact
#print axioms Kopf.C12.http_date_rounds_up
#print axioms Kopf.C12.retry_after_garbage_falls_back
#print axioms Kopf.C12.retry_after_overflow_falls_back
#print axioms Kopf.C12.delays_follow_config
#print axioms Kopf.C12.empty_config_never_throttles
#print axioms Kopf.C12.success_resets
#print axioms Kopf.C12.swallowed
#print axioms Kopf.C12.other_objects_unaffected
#print axioms Kopf.C12.recovers_after_errors_stop
#print axioms Kopf.C12.single_reauth
#print axioms Kopf.C12.stale_invalidation_is_noop
#print axioms Kopf.C12.all_proceed_fresh
#print axioms Kopf.C12.invalid_not_reused
#print axioms Kopf.C12.invalid_reused_beyond_history_witness
#print axioms Kopf.C12.no_impossible_state

-- (1) benign scenario satisfies the *statement* of the witness: requester 0 is in flight with an item
-- that requester 1 has just invalidated (no re-serving at all).
def benign : List Label := [.start 0, .start 1, .acquire 0 0, .acquire 1 0, .unauth 1, .inval 1]
example : (V.run (init [(0, 1, 0)]) benign).map (fun s => (s.reqs 0, s.invAll 0))
   = some (.using 0 ⟨0, 1, 0⟩, [⟨0, 1, 0⟩]) := by decide

-- (2) reuse across keys: credential value 1 invalidated under key 0, re-offered under key 1: accepted and served
def crossKey : List Label := [.start 0, .acquire 0 0, .unauth 0, .inval 0, .authStart, .populate [(1, 1, 0)],
   .invalWake 0, .post 0, .acquire 0 1]
#eval (V.run (init [(0, 1, 0)]) crossKey).map (fun s => (s.reqs 0, s.invAll 0, s.invAll 1, s.episodes))

-- (2b) same token with a different priority under the SAME key: accepted
def prioChange : List Label := [.start 0, .acquire 0 0, .unauth 0, .inval 0, .authStart, .populate [(0, 1, 5)],
   .invalWake 0, .post 0, .acquire 0 0]
#eval (V.run (init [(0, 1, 0)]) prioChange).map (fun s => (s.reqs 0, s.invAll 0))

-- (3) fractional delay-seconds: server asks 2.5 s, the next attempt comes after 2 s
#eval (request (ofList [0]) false [⟨.http ⟨429, .secs 2560, .empty, none⟩, 0⟩] 0).times
#eval (request (ofList [0]) true [⟨.http ⟨429, .secs 2560, .empty, none⟩, 0⟩] 0).times
-- (4) 503 with Retry-After 10 s and backoff 1 s: ignored
#eval (request (ofList [1024]) false [⟨.http ⟨503, .secs 10240, .empty, none⟩, 0⟩] 0).times
-- (5) fractional details.retryAfterSeconds 0.5 s with enforce: model says None -> backoff
#eval (request (ofList [1024]) true [⟨.http ⟨429, .absent, .statusJson, some 512⟩, 0⟩] 0).times

-- (6) N episodes for one 401'd credential when login delivers nothing: 3 requesters
def nothing : List Label := [.start 0, .start 1, .start 2, .acquire 0 0, .acquire 1 0, .acquire 2 0,
  .unauth 0, .unauth 1, .unauth 2, .inval 0, .authStart, .populate [], .inval 1, .authStart, .populate [], .inval 2, .authStart, .populate []]
#eval (V.run (init [(0, 1, 0)]) nothing).map (fun s => (s.episodes, s.flips, s.removed, s.emptyHits, s.reqs 0, s.reqs 1, s.reqs 2))

-- (7) ready-and-empty vault: new request → LoginError, no re-auth possible
def deadEnd : List Label := [.start 0, .acquire 0 0, .unauth 0, .inval 0, .authStart, .populate [], .invalWake 0, .start 1, .acquireFail 1]
#eval (V.run (init [(0, 1, 0)]) deadEnd).map (fun s => (s.ready, s.cur.length, s.reqs 0, s.reqs 1, s.auth, (step s .authStart).isSome))

-- (8) throttle: recovers when t ≥ u even when wake1 fires (not covered by the statement)
#eval (cycle (Delays.ofList [1024]) ⟨some 1, some 1024, some 50⟩ 100 ⟨.success, false, 0, some 0, none⟩).shouldRun
-- scalar
#eval (cycle (Delays.scalar 5) Throttler.fresh 0 ⟨.error true, false, 0, none, none⟩).escaped
#check @other_objects_unaffected
#print stepObject
