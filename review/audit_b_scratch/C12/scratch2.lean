import Kopf.Props.C12
open Kopf.C12 Kopf.C12.V

-- the witness STATEMENT is satisfied by a benign in-flight scenario (no re-serving)
theorem benign_satisfies_witness_statement :
    ∃ (src : List (Key × Nat × Int)) (ls : List Label) (s : St) (it j : Item),
      V.run (init src) ls = some s ∧ s.reqs 0 = .using 0 it ∧ j ∈ s.invAll 0 ∧ matches_ j it := by
  let ls : List Label := [.start 0, .start 1, .acquire 0 0, .acquire 1 0, .unauth 1, .inval 1]
  have hrun : ∃ s, V.run (init [(0, 1, 0)]) ls = some s := by
    cases hr : V.run (init [(0, 1, 0)]) ls with
    | some s => exact ⟨s, rfl⟩
    | none =>
      have : (V.run (init [(0, 1, 0)]) ls).isSome = true := by decide
      rw [hr] at this; cases this
  obtain ⟨s, hs⟩ := hrun
  have h1 : (V.run (init [(0, 1, 0)]) ls).map (fun s => s.reqs 0) = some (.using 0 ⟨0, 1, 0⟩) := by decide
  have h2 : (V.run (init [(0, 1, 0)]) ls).map (fun s => s.invAll 0) = some [⟨0, 1, 0⟩] := by decide
  rw [hs] at h1 h2
  simp only [Option.map_some, Option.some.injEq] at h1 h2
  exact ⟨[(0, 1, 0)], ls, s, ⟨0, 1, 0⟩, ⟨0, 1, 0⟩, hs, h1, by rw [h2]; simp, ⟨rfl, rfl⟩⟩

-- sleep2 / fin under quiet errors: the model does pause, but delays_follow_config does not say so
#eval (cycles (Delays.ofList [1024, 2048]) Throttler.fresh 0
    [(⟨.error true, false, 0, none, none⟩, 0), (⟨.error true, false, 0, none, none⟩, 0)]).map (fun o => (o.activated, o.sleep2, o.fin))
-- cross-key reuse is consistent with invalid_not_reused (per key):
#eval (V.run (init [(0, 1, 0)]) [.start 0, .acquire 0 0, .unauth 0, .inval 0, .authStart, .populate [(1, 1, 0)], .invalWake 0, .post 0]).map (fun s => (lastN historyBound (s.invAll 1), (step s (.acquire 0 1)).map (fun s' => s'.reqs 0)))
