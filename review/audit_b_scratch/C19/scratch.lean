import Kopf.Props.C19
open Kopf.C19

#print axioms no_skip_inv
#print axioms no_skip
#print axioms deliver_in_order
#print axioms resume_point
#print axioms relist_on_410
#print axioms relist_covers_everything
#print axioms respond_never_fails
#print axioms unknown_error_raises
#print axioms failed_is_final
#print axioms paused_silent
#print axioms pause_noticed_is_quiet
#print axioms fresh_list_on_resume
#print axioms outs_is_ghost
#print axioms adjust_keys
#print axioms watchers_nodup
#print axioms kept_tasks_kept
#print axioms served_pairs_have_live_watcher
#print axioms exactly_one_watch_partial
#print axioms exactly_one_watch_lingering_witness
#print axioms revise_wakes
#print axioms pass_progress
#print axioms no_lost_wakeup
#print axioms exactly_one_watch_async_partial
#print axioms unlocked_pass_loses_wakeup_witness

-- (1) object created and deleted between two listings: "Covered", but nothing reaches the consumer
-- list (empty), watch, EOF..., then 410 path: change add k=1, change delete k=1 while in backoff, relist
def w1 := run init [.wake, .respond, .respond, .change 1 .added true, .drop .eof, .compact 1, .respond, .change 1 .deleted true, .wake, .respond]
#eval w1.outs
#eval w1.log
#eval w1.listRv
-- no_skip precondition?
#eval (w1.phase, nextEntry w1.log w1.since)

-- (2) an object that was listed, then DELETED in a gap (410), re-list: consumer never sees a deletion
def w2 := run init [.change 1 .added true, .wake, .respond, .respond, .change 1 .deleted true, .drop .eof, .compact 2, .respond, .wake, .respond, .respond]
#eval w2.outs
#eval (w2.phase, nextEntry w2.log w2.since, w2.listRv)
