import Kopf.Props.C19
open Kopf.C19 Kopf.C19.Ens

-- real start-up of a cluster-wide operator: resource_observer revises first (namespaces still empty),
-- namespace_observer second ({None}).
def r0 : Insights := ⟨[⟨"kex", true⟩, ⟨"ct", false⟩], []⟩
def r1 : Insights := ⟨[⟨"kex", true⟩, ⟨"ct", false⟩], [none]⟩

example : ¬ Clusterwide [r0, r1] := by
  intro h; have := h r0 (by simp); simp [r0] at this
example : ¬ Namespaced [r0, r1] := by
  intro h; exact h r1 (by simp) (by simp [r1])
-- so neither disjunct of hmode holds for the real start-up history; yet the conclusion is true there:
#eval (runHist Ens.empty [r0, r1]).keys
-- Orch LTS on the same start-up
#eval (Orch.run (Orch.init true) [.revise r0, .revise r1, .acquire, .termDone, .spawnAll]).map (fun s => (s.pc, s.ens.keys, s.revs.length))
#eval (Orch.run (Orch.init true) [.revise r0, .acquire, .termDone, .spawnAll, .revise r1, .acquire, .termDone, .spawnAll]).map (fun s => (s.pc, s.ens.keys, s.revs.length))

-- a dead watcher under a served key between passes: key present, not Live
def e1 := runEvs Ens.empty [.pass r1, .die ("kex", none)]
#eval (e1.keys, e1.watchers, e1.dead)
example : ¬ Live e1 ("kex", none) := by
  rintro ⟨i, hi, hd⟩
  simp [e1, runEvs, adjust, terminate, spawn, pairs, spawnOne, dkey, kill, Ens.empty, Ensemble.keys, r1] at hi hd
  omega

-- scope change without an intermediate absence: two watchers for the same resource
#eval (runHist Ens.empty [⟨[⟨"kex", true⟩], [some "a"]⟩, ⟨[⟨"kex", false⟩], [some "a"]⟩]).keys

-- Watch model: item content is unconstrained by theorems? what does a listing yield for modified twice
#eval (run init [.change 1 .added true, .change 1 .modified true, .change 2 .added true, .change 2 .deleted true, .wake, .respond]).outs
-- stale / backward bookmark is refused silently
#eval (run init [.wake, .respond, .respond, .change 1 .added false, .bookmark 5]).outs
-- paused: in-flight list still yields items while paused & noticed
#eval (run init [.change 1 .added true, .wake, .pause, .notice, .respond]).outs
#eval (run init [.change 1 .added true, .wake, .pause, .notice, .respond]).phase
