import Kopf.Props.C13
open Kopf.C13
def view (s : State) (ids : List Identity) :=
  (s.now, s.ver, s.status.map (·.1), ids.map (fun i => (s.ops i).map (fun o => (o.alive, o.paused, o.seen, o.sleeping))))
-- equal priorities
#eval (run 64 init [.start "A" 10 10, .start "B" 10 10, .keepalive "A", .keepalive "B", .deliver "A", .deliver "B"]).map (view · ["A","B"])
-- failover_exit instance: exStable, exit A, deliver B
#eval (run 64 init [.start "A" 100 10, .start "B" 10 8, .keepalive "A", .keepalive "B", .deliver "A", .deliver "B", .exit "A", .deliver "B"]).map (view · ["A","B"])
-- failover_exit with an interleaved keepalive/tick is NOT covered by hdel (only deliver labels allowed)
-- three ops: 100, 10, 10 (tie among the lower ones): Good.distinct false, yet the top one is the only active
#eval (run 64 init [.start "A" 100 10, .start "B" 10 10, .start "C" 10 10, .keepalive "A", .keepalive "B", .keepalive "C", .deliver "A", .deliver "B", .deliver "C"]).map (view · ["A","B","C"])
-- a garbled record of a DEAD third party makes every call raise (toggle untouched)
#eval decideEv 64 [("A", .record { priority := some (.num 100), lifetime := some (.num 60), lastseen := .at 0, identityKey := false }),
                   ("Z", .record { priority := none, lifetime := some (.str "soon"), lastseen := .at 0, identityKey := false })]
          "B" 10 true (some false) 128 128
