import Kopf.Props.C13
open Kopf.C13

def view (s : State) (ids : List Identity) :=
  (s.now, s.ver, s.status, ids.map (fun i => (s.ops i).map (fun o => (o.alive, o.paused, o.seen, o.sleeping))))

-- (1) two ALIVE operators both ACTIVE in a reachable state (records expired because nobody forces keepalive before tick)
#eval (run 64 init [.start "A" 100 10, .start "B" 10 10, .keepalive "A", .keepalive "B", .deliver "A", .deliver "B",
                    .tick 10000, .deliver "A", .deliver "B"]).map (view · ["A","B"])

-- (2) exStable then ONE keepalive by A: nobody's `seen` version is current -> Stable.current fails for every alive op
#eval (run 64 init [.start "A" 100 10, .start "B" 10 8, .keepalive "A", .keepalive "B", .deliver "A", .deliver "B",
                    .keepalive "A"]).map (view · ["A","B"])

-- (3) the in-file "failover by kill" example: is it an instance of failover_kill?  kill; tick d; delivers only.
-- A(10 s) and B(8 s) both touched at 0: hfresh needs B's record of time 0 alive at 0+d while A's is dead at 0+d: impossible
example : ¬ ∃ d : Nat, exA.dead 64 (0 + d) = true ∧ exB.dead 64 (0 + d) = false := by
  rintro ⟨d, h1, h2⟩
  simp [exA, exB, Rec.dead, Rec.deadline] at h1 h2
  omega

-- (4) a genuine instance of failover_kill: A short lifetime 2, B long lifetime 10
#eval (run 64 init [.start "A" 100 2, .start "B" 10 10, .keepalive "A", .keepalive "B", .deliver "A", .deliver "B",
                    .kill "A", .tick 128, .deliver "B"]).map (view · ["A","B"])

-- (5) converse of turned_spec (not stated in Props): when the verdict differs from the toggle, it IS turned
example (u : Int) (ps : List Peer) (me : Identity) (p : Int) (ac t0 : Bool) (now now2 : Int) (b : Bool)
    (h : (decideCore u ps me p ac (some t0) now now2).paused = some b) (hne : b ≠ t0) :
    (decideCore u ps me p ac (some t0) now now2).turned = some b := by
  simp only [decideCore, Option.map_some] at h ⊢
  cases t0 <;> cases b <;> simp_all

-- (6) wake is not time-guarded: B wakes immediately (0 ticks after going to sleep) and touches
#eval (run 64 init [.start "A" 100 10, .start "B" 10 10, .keepalive "A", .keepalive "B", .deliver "B", .wake "B"]).map (view · ["A","B"])
