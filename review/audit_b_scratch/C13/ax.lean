import Kopf.Props.C13
open Kopf.C13
#print axioms paused_iff
#print axioms turned_spec
#print axioms paused_iff_step
#print axioms exactly_top
#print axioms at_most_one_active
#print axioms equal_priority_both_paused
#print axioms failover_exit
#print axioms failover_kill
#print axioms wake_at_deadline
#print axioms expire_then_dead
#print axioms keepalive_period
#print axioms renewal
#print axioms keepalive_period_one
#print axioms renewal_lifetime_one
#print axioms lifetime_zero_withdraws
#print axioms keepalive_writes
#print axioms withdraw_on_exit
#print axioms exit_interrupts_sleep
#print axioms withdrawn_stays_from
#print axioms withdrawn_stays
#print axioms dead_cleaned
#print axioms own_record_not_cleaned
#print axioms dead_cleaned_step
