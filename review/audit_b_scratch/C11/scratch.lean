import Kopf.Props.C11
open Kopf.C11

#print axioms temp_retried
#print axioms temp_retried_unlimited
#print axioms perm_final
#print axioms ignored_done
#print axioms arbitrary_by_mode
#print axioms children_retry
#print axioms limits_refuse
#print axioms final_finished
#print axioms finished_never_runs
#print axioms delay_respected
#print axioms delay_respected_succ
#print axioms final_is_last
#print axioms retries_bound
#print axioms retries_bound_scratch
#print axioms retries_bound_tight
#print axioms timeout_bound
#print axioms timeout_refuses
#print axioms timeout_failed_for_good_partial
#print axioms timeout_sleep_past_witness
#print axioms timer_failed_never_runs
#print axioms timer_failure_is_last
#print axioms timer_retry_lt
#print axioms timer_retry_steps
#print axioms timer_invocations_bound
#print axioms timer_series_is_loop
#print axioms restart_roundtrip
#print axioms restart_invariant
#print axioms loop_is_run
#print axioms loop_retries_bound
#print axioms loop_timeout_bound
#print axioms loop_delay_respected

def E : Env := ⟨.temporary, 60⟩

-- (d) the lag half of the guard: is lag>0 alone (no childrenRetry) a counterexample?
#eval run E ⟨none, some 10, none, none⟩ 0 (fromScratch 0) [.cycle 0 0 (.temporary (some 5)) 0 6, .cycle 4 0 .ok 0 0]
example : Ev.idle 10 false ∈ run E ⟨none, some 10, none, none⟩ 0 (fromScratch 0) [.cycle 0 0 (.temporary (some 5)) 0 6, .cycle 4 0 .ok 0 0] := by decide

-- partial theorem non-vacuity: an idle event at runtime >= T with plain steps
#eval run E ⟨none, some 50, none, some 10⟩ 0 (fromScratch 0) [.cycle 0 0 .arbitrary 0 0, .cycle 10 0 .arbitrary 0 0, .cycle 40 0 .ok 0 0, .cycle 10 0 .ok 0 0]

-- timeout_bound: time relative to r.started; negative timeout / zero
#eval (run E ⟨none, some 0, none, none⟩ 0 (fromScratch 0) [.cycle 0 0 .ok 0 0])
#eval (run E ⟨none, some (-5), some (-1), none⟩ 0 (fromScratch 0) [.cycle 0 0 .ok 0 0])

-- wait: gate read at t, precheck at t+wait; the handler sleeping at t but due at t+wait is idle
#eval run E ⟨none, none, none, none⟩ 0 (fromScratch 0) [.cycle 0 0 (.temporary (some 5)) 0 0, .cycle 4 3 .ok 0 0]

-- timers: does anything bound timer invocation TIMES? a timer series under timeout
#eval (timerRun E ⟨none, some 10, none, some 4⟩ 100 false 0 (fromScratch 0) [(.arbitrary,0),(.arbitrary,0),(.arbitrary,0),(.arbitrary,0)]).map (fun a => (a.time, a.retry, a.out.invoked, a.out.exc, a.recAfter.failure))
-- interval 0 / sharp with interval 0
#eval (timerRun E ⟨none, none, none, none⟩ 0 true 0 (fromScratch 0) [(.ok,3),(.ok,0)]).map (fun a => (a.time, a.retry))
