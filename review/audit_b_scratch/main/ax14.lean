import Kopf.Props.C14
open Kopf.C14
#print axioms invoked_gated
#print axioms resume_never_again_partial
#print axioms completed_never_again_partial
#print axioms eligible_selected
#print axioms flipflop_reruns_witness
#print axioms not_for_new
