import Kopf.Model.C09_Daemons
namespace Kopf.C09
/-- `tstep` with ONE change: the handler call + empty patch does not give control to the loop
    (an `async def` timer that raises `TemporaryError(delay=0)` without awaiting anything). -/
def tstepNS (c : TCfg) (e : TEnv) (outcome : Outcome) (l : TLoc) : TRes :=
  match l.pc with
  | .invoke =>
    if l.done && l.failed then .cont { l with pc := .post, started := e.now }
    else .cont { l with pc := .post, started := e.now, done := outcome.done, failed := outcome.failed,
                        errDelay := outcome.errDelay }
  | _ => tstep c e outcome l

def settlesNS (c : TCfg) (e : TEnv) (outcome : Outcome) : Nat → TLoc → Bool
  | 0, _ => false
  | k + 1, l =>
    match tstepNS c e outcome l with
    | .susp _ => true
    | .exit _ => true
    | .cont l' => settlesNS c e outcome k l'

def cW : TCfg := { initialDelay := none, idle := none, interval := some 64, sharp := false, guarded := true }
def eW : TEnv := { now := 100, stop := false, idleReset := 0 }
def oW : Outcome := { done := false, failed := false, errDelay := 0 }
def lW : TLoc := { pc := .head, started := 0, done := false, failed := false, errDelay := 0 }
example : settlesNS cW eW oW 60 lW = false := by decide
-- with a positive error delay it settles
example : settlesNS cW eW { oW with errDelay := 1 } 10 lW = true := by decide
end Kopf.C09
#eval Kopf.C09.settlesNS Kopf.C09.cW Kopf.C09.eW Kopf.C09.oW 100000 Kopf.C09.lW
