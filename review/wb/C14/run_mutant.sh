#!/bin/bash
# usage: run_mutant.sh <name> [tests... | notest]   (diff = review/wb/C14/<name>.diff)
# worktree of /repo HEAD + the diff, kopf's own relevant tests, then `KOPF_REPO=<wt> ./check C14 quick`.
set -u
name=$1; shift
wt=/tmp/wb-C14-$name
git -C /repo worktree remove --force $wt >/dev/null 2>&1
git -C /repo worktree add --detach $wt HEAD >/dev/null 2>&1 || exit 9
cp /repo/kopf/_cogs/helpers/versions.py $wt/kopf/_cogs/helpers/
( cd $wt && git apply /verif/review/wb/C14/$name.diff ) || { echo "APPLY FAILED"; git -C /repo worktree remove --force $wt; exit 8; }
if [ "${1:-}" != "notest" ]; then
  tests=${*:-tests/handling tests/reactor tests/causation tests/registries}
  ( cd $wt && timeout -s KILL 900 /venv/bin/python -m pytest -q -p no:cacheprovider -x $tests 2>&1 | tail -3 )
fi
( cd /verif && KOPF_REPO=$wt timeout -s KILL 900 ./check C14 ${TIER:-quick} ${SEEDARG:-} 2>&1 | grep -v "^KNOWN-FINDING" | tail -${TAIL:-6} ; echo "rc=${PIPESTATUS[0]}" )
( cd /verif && for f in replays/C14-0-0.json replays/C14-0-1.json; do [ -f $f ] && /venv/bin/python -c "import json,sys; d=json.load(open(sys.argv[1])); print(\"  \", sys.argv[1], d.get(\"kind\"), \"|\", (d.get(\"what\") or \"\")[:260], \"| gen:\", ((d.get(\"replay\") or {}).get(\"scenario\") or {}).get(\"gen\"))" $f; done )
git -C /repo worktree remove --force $wt
