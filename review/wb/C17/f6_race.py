"""A uid-less object is deleted and created again under the same name with a new creationTimestamp: two queue keys
(get_uid) / two memories (_build_key, since 8c8cff5), ONE index entry (make_key). The predecessor's worker is still busy
(slow index function on a MODIFIED event) when the successor is indexed."""
import sys, json, asyncio, functools
sys.path.insert(0, '/verif'); sys.path.insert(0, '/repo')
import logging; logging.disable(logging.CRITICAL)
from harness.sim import simloop
import kopf
from kopf._cogs.clients import watching
from kopf._cogs.configs import configuration
from kopf._cogs.structs import ephemera, references
from kopf._core.actions import lifecycles
from kopf._core.engines import indexing
from kopf._core.intents import registries
from kopf._core.reactor import inventory, processing, queueing

USE_UID = len(sys.argv) > 1 and sys.argv[1] == "uid"
async def main():
    loop = asyncio.get_running_loop()
    registry = registries.OperatorRegistry()
    log = []
    async def fn(body, **_):
        v = body["spec"]["v"]
        log.append((loop.time(), "index-fn start", v))
        await asyncio.sleep(body["spec"].get("slow", 0))
        log.append((loop.time(), "index-fn end", v))
        return {"k": v}
    kopf.index("kopf.dev", "v1", "kexa", id="i1", registry=registry)(fn)
    settings = configuration.OperatorSettings(); settings.posting.enabled = False
    indexers = indexing.OperatorIndexers(); indexers.ensure(registry._indexing.get_all_handlers())
    memories = inventory.ResourceMemories()
    resource = references.Resource("kopf.dev", "v1", "kexa", namespaced=True)
    def body(cts, v, slow=0, uid=None):
        meta = {"name": "a", "namespace": "ns", "creationTimestamp": cts}
        if USE_UID: meta["uid"] = uid
        return {"apiVersion": "kopf.dev/v1", "kind": "Kexa", "metadata": meta, "spec": {"v": v, "slow": slow}}
    T1, T2 = "2020-01-01T00:00:00Z", "2020-01-02T00:00:00Z"
    script = [(0, None, body(T1, 1, uid="u1")), (0, "LISTED", None),
              (1, "MODIFIED", body(T1, 2, slow=2, uid="u1")),      # the predecessor's index function takes 2 s
              (1.5, "DELETED", body(T1, 2, uid="u1")),              # deleted …
              (1.5 + 1/64, "ADDED", body(T2, 3, uid="u2"))]          # … and created again under the same name
    async def scripted_watch(**_):
        t = 0
        for at, typ, b in script:
            await asyncio.sleep(at - t); t = at
            if typ == "LISTED": yield watching.Bookmark.LISTED
            else: yield {"type": typ, "object": b}
        await asyncio.Event().wait()
    watching.infinite_watch = scripted_watch
    async def processor(**kw):
        return await processing.process_resource_event(lifecycle=lifecycles.all_at_once, registry=registry, settings=settings,
            indexers=indexers, memories=memories, memobase=ephemera.Memo(), event_queue=asyncio.Queue(), resource=resource, **kw)
    task = asyncio.create_task(queueing.watcher(namespace="ns", settings=settings, resource=resource, processor=processor))
    for t in [0.5, 1.4, 2.0, 2.9, 3.2, 4.0, 10.0]:
        await asyncio.sleep(t - loop.time())
        ix = indexers.indices["i1"]
        print(f"t={t}: index = { {k: list(ix[k]) for k in ix} }  memories={sorted(memories._items)}")
    print(log)
    task.cancel()
    try: await task
    except asyncio.CancelledError: pass
simloop.run_sim(main, wall_limit=60)
