#!/bin/bash
# usage: run_mutant.sh <name> [tests...]   (diff = review/wb/C17/<name>.diff; "notest" as 2nd arg skips kopf's tests)
set -u
name=$1; shift
wt=/tmp/wb-C17-$name
git -C /repo worktree remove --force $wt >/dev/null 2>&1
git -C /repo worktree add --detach $wt HEAD >/dev/null 2>&1 || exit 9
cp /repo/kopf/_cogs/helpers/versions.py $wt/kopf/_cogs/helpers/
( cd $wt && git apply /verif/review/wb/C17/$name.diff ) || { echo "APPLY FAILED"; git -C /repo worktree remove --force $wt; exit 8; }
if [ "${1:-}" != "notest" ]; then
  tests=${*:-tests/handling/indexing tests/reactor tests/orchestration tests/primitives}
  ( cd $wt && timeout -s KILL 900 /venv/bin/python -m pytest -q -p no:cacheprovider -x $tests 2>&1 | tail -3 )
fi
( cd /verif && KOPF_REPO=$wt timeout -s KILL 900 ./check C17 ${TIER:-quick} 2>&1 | grep -v "^KNOWN-FINDING" | tail -${TAIL:-6} ; echo "rc=${PIPESTATUS[0]}" )
git -C /repo worktree remove --force $wt
