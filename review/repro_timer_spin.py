import asyncio, dataclasses, logging, signal, sys, time
sys.path.insert(0, '/repo')
import kopf
from kopf._core.engines import daemons
from kopf._core.intents import causes, handlers, stoppers
from kopf._cogs.structs import bodies, patches, references
from kopf._cogs.configs import configuration
from kopf._core.actions import execution

print([f.name for f in dataclasses.fields(handlers.TimerHandler)])
print([f.name for f in dataclasses.fields(causes.DaemonCause)])
calls = 0
async def fn(**_):
    global calls
    calls += 1
    raise kopf.TemporaryError("again", delay=0)

def alarm(*_):
    print(f"WATCHDOG: event loop blocked; handler calls so far = {calls}")
    sys.exit(3)
signal.signal(signal.SIGALRM, alarm)

async def main():
    settings = configuration.OperatorSettings()
    kw = {f.name: None for f in dataclasses.fields(handlers.TimerHandler)}
    kw.update(fn=fn, id='t', interval=1.0, requires_finalizer=False)
    h = handlers.TimerHandler(**kw)
    resource = references.Resource('g', 'v1', 'things', namespaced=True) if hasattr(references.Resource, '__init__') else None
    body = bodies.Body({'metadata': {'name': 'x', 'namespace': 'ns', 'uid': 'u'}})
    stopper = stoppers.DaemonStopper()
    ckw = {f.name: None for f in dataclasses.fields(causes.DaemonCause)}
    ckw.update(resource=resource, logger=logging.getLogger('t'), patch=patches.Patch(), body=body, stopper=stopper,
               indices={}, memo=kopf.Memo())
    cause = causes.DaemonCause(**ckw)
    memory = daemons.DaemonsMemory()
    async def setter():
        await asyncio.sleep(0.2)
        print("setter ran: loop is alive; calls =", calls)
        stopper.set(reason=stoppers.DaemonStoppingReason.OPERATOR_EXITING)
    signal.alarm(3)
    t = asyncio.create_task(setter())
    await daemons._timer(settings=settings, handler=h, memory=memory, cause=cause)
    print("timer returned; calls =", calls)
logging.disable(logging.CRITICAL)
asyncio.run(main())
