/-
  Line-protocol driver: one JSON array request per line, one JSON response per line.
  Run with `lake env lean --run Driver.lean`. Unknown op / malformed line → ["bad-op"].
-/
import Kopf.Drv.All
open Lean Kopf.Drv

def respond (line : String) : Json :=
  match Json.parse line with
  | .error _ => .arr #[.str "bad-op"]
  | .ok (.arr xs) =>
    match xs.toList with
    | .str op :: args =>
      match allHandlers.findSome? (fun h => h op args) with
      | some r => r
      | none => .arr #[.str "bad-op"]
    | _ => .arr #[.str "bad-op"]
  | .ok _ => .arr #[.str "bad-op"]

partial def loop (h : IO.FS.Stream) (out : IO.FS.Stream) : IO Unit := do
  let line ← h.getLine
  if line.isEmpty then return ()
  let l := line.trimAscii.toString
  if l.isEmpty then loop h out else
  out.putStrLn (respond l).compress
  loop h out

def main : IO Unit := do
  let out ← IO.getStdout
  loop (← IO.getStdin) out
  out.flush
