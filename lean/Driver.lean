/-
  Line-protocol driver with every property's handlers (development convenience).
  The checks run per-property drivers generated under lean/drivers/ (see harness/leanio.py),
  so that one property's driver does not depend on another property's files.
-/
import Kopf.Drv.All
def main : IO Unit := Kopf.Drv.runDriver Kopf.Drv.allHandlers
