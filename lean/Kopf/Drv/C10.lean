import Kopf.Drv.Json
import Kopf.Model.C10_Timer
open Lean
namespace Kopf.Drv.C10
open Kopf.C10

def errorsOf? : String → Option ErrorsMode
  | "ignored" => some .ignored
  | "temporary" => some .temporary
  | "permanent" => some .permanent
  | _ => none

def cfgOf? (j : Json) : Option Cfg := do
  let interval ← jOpt? jInt? (← jField? j "interval")
  let sharp ← jBool? (← jField? j "sharp")
  let idle ← jOpt? jInt? (← jField? j "idle")
  let initialDelay ← jOpt? jInt? (← jField? j "initial_delay")
  let backoff ← jInt? (← jField? j "backoff")
  let errors ← jStr? (← jField? j "errors") >>= errorsOf?
  let retries ← jOpt? jNat? (← jField? j "retries")
  some { interval, sharp, idle, initialDelay, backoff, errors, retries }

def resultOf? (j : Json) : Option Result := do
  match ← jArr? j with
  | [.str "ok"] => some .ok
  | [.str "temporary", d] => do some (.temporary (← jOpt? jInt? d))
  | [.str "arbitrary"] => some .arbitrary
  | [.str "permanent"] => some .permanent
  | _ => none

def runOf? (j : Json) : Option Run := do
  let start ← jInt? (← jField? j "start")
  let ended ← jInt? (← jField? j "ended")
  let patched ← jInt? (← jField? j "patched")
  let attempt ← jNat? (← jField? j "attempt")
  let res ← resultOf? (← jField? j "res")
  some { start, ended, patched, attempt, res }

/-- observed reads of `idle_reset_time`: [[t, v], …]; two different values at one instant are refused -/
def obsOf? (j : Json) : Option (List (Int × Int)) := do
  let xs ← jArr? j
  let ps ← xs.mapM (fun x => do
    match ← jArr? x with
    | [t, v] => do pure (← jInt? t, ← jInt? v)
    | _ => none)
  if ps.all (fun p => ps.all (fun q => p.1 != q.1 || p.2 == q.2)) then some ps else none

def pviewOf (obs : List (Int × Int)) : PView := fun t => (obs.find? (·.1 == t)).map (·.2)

def jI (i : Int) : Json := .num (JsonNumber.fromInt i)

def resJson : Res → Json
  | .start t => .arr #[.str "start", jI t]
  | .ended => .arr #[.str "ended"]
  | .never => .arr #[.str "never"]
  | .noObs t => .arr #[.str "noobs", jI t]
  | .diverged => .arr #[.str "diverged"]

def wakeJson : Wake → Json
  | .at t => .arr #[.str "at", jI t]
  | .poll i => .arr #[.str "poll", jI i]
  | .stop => .arr #[.str "stop"]

def handle : DrvHandler := fun op args =>
  match op, args with
  | "C10.next", [cj, rj, oj, fj] => do
      let cfg ← cfgOf? cj
      let r ← runOf? rj
      let obs ← obsOf? oj
      let fuel ← jNat? fj
      let out := r.out cfg
      some (ok (Json.mkObj [
        ("res", resJson (nextStartN cfg (pviewOf obs) fuel r)),
        ("wake", wakeJson (wake cfg r)),
        ("done", .bool (match out with | .retry _ => false | _ => true)),
        ("failed", .bool (match out with | .failed => true | _ => false)),
        ("delay", match out with | .retry (some d) => jI d | _ => .null),
        ("attempt", .num (JsonNumber.fromNat (nextAttempt cfg r)))]))
  | "C10.first", [cj, sj, oj, fj] => do
      let cfg ← cfgOf? cj
      let spawn ← jInt? sj
      let obs ← obsOf? oj
      let fuel ← jNat? fj
      some (ok (Json.mkObj [
        ("res", resJson (firstStartN cfg (pviewOf obs) fuel spawn)),
        ("wake", wakeJson (.at (initialWake cfg spawn)))]))
  | "C10.reset", [.str lh] =>
      -- the event's essence is 0; the last-handled one is absent / the same / another one
      match lh with
      | "none" => some (ok (.bool (resetsIdle none 0)))
      | "same" => some (ok (.bool (resetsIdle (some 0) 0)))
      | "differs" => some (ok (.bool (resetsIdle (some 1) 0)))
      | _ => none
  | _, _ => none

end Kopf.Drv.C10
