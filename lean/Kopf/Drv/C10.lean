import Kopf.Drv.Json
import Kopf.Model.C10_Timer
open Lean
namespace Kopf.Drv.C10
open Kopf.C10

def errorsOf? : String → Option ErrorsMode
  | "ignored" => some .ignored
  | "temporary" => some .temporary
  | "permanent" => some .permanent
  | _ => none

def cfgOf? (j : Json) : Option Cfg := do
  let interval ← jOpt? jInt? (← jField? j "interval")
  let sharp ← jBool? (← jField? j "sharp")
  let idle ← jOpt? jInt? (← jField? j "idle")
  let initialDelay ← jOpt? jInt? (← jField? j "initial_delay")
  let backoff ← jInt? (← jField? j "backoff")
  let errors ← jStr? (← jField? j "errors") >>= errorsOf?
  let retries ← jOpt? jNat? (← jField? j "retries")
  let timeout ← jOpt? jInt? (← jField? j "timeout")
  some { interval, sharp, idle, initialDelay, backoff, errors, retries, timeout }

def resultOf? (j : Json) : Option Result := do
  match ← jArr? j with
  | [.str "ok"] => some .ok
  | [.str "temporary", d] => do some (.temporary (← jOpt? jInt? d))
  | [.str "arbitrary"] => some .arbitrary
  | [.str "permanent"] => some .permanent
  | _ => none

def iterOf? (j : Json) : Option Iter := do
  let top ← jInt? (← jField? j "top")
  let start ← jInt? (← jField? j "start")
  let ended ← jInt? (← jField? j "ended")
  let patched ← jInt? (← jField? j "patched")
  let res ← jOpt? resultOf? (← jField? j "res")
  some { top, start, ended, patched, res }

def stateOf? (j : Json) : Option HState := do
  let started ← jInt? (← jField? j "started")
  let retries ← jNat? (← jField? j "retries")
  let success ← jBool? (← jField? j "success")
  let failure ← jBool? (← jField? j "failure")
  let delayed ← jOpt? jInt? (← jField? j "delayed")
  some { started, retries, success, failure, delayed }

def evOf? (j : Json) : Option Ev := do
  match ← jArr? j with
  | [r, t, e, lh] => do pure { recv := ← jInt? r, t := ← jInt? t, ess := ← jNat? e, lastHandled := ← jOpt? jNat? lh }
  | _ => none

/-- observed reads of `idle_reset_time`: [[t, v], …]; two different values at one instant are refused -/
def obsOf? (j : Json) : Option (List (Int × Int)) := do
  let xs ← jArr? j
  let ps ← xs.mapM (fun x => do
    match ← jArr? x with
    | [t, v] => do pure (← jInt? t, ← jInt? v)
    | _ => none)
  if ps.all (fun p => ps.all (fun q => p.1 != q.1 || p.2 == q.2)) then some ps else none

def pviewOf (obs : List (Int × Int)) : PView := fun t => (obs.find? (·.1 == t)).map (·.2)

def jI (i : Int) : Json := .num (JsonNumber.fromInt i)

def resJson : Res → Json
  | .start top t => .arr #[.str "start", jI top, jI t]
  | .ended => .arr #[.str "ended"]
  | .noObs t => .arr #[.str "noobs", jI t]
  | .diverged => .arr #[.str "diverged"]

def wakeJson : Wake → Json
  | .at t => .arr #[.str "at", jI t]
  | .poll i => .arr #[.str "poll", jI i]
  | .stop => .arr #[.str "stop"]

def stateJson (h : HState) : Json :=
  Json.mkObj [("started", jI h.started), ("retries", .num (JsonNumber.fromNat h.retries)), ("success", .bool h.success), ("failure", .bool h.failure),
    ("delayed", match h.delayed with | some d => jI d | none => .null)]

def handle : DrvHandler := fun op args =>
  match op, args with
  | "C10.iter", [cj, hj, ij, oj, fj] => do
      -- one loop iteration entered with the carried state `h`: does it invoke, what state does it leave,
      -- where is the loop back at its top, when does the next iteration start
      let cfg ← cfgOf? cj
      let h ← stateOf? hj
      let it ← iterOf? ij
      let obs ← obsOf? oj
      let fuel ← jNat? fj
      let h' := step cfg h it
      let res := nextStartN cfg (pviewOf obs) fuel h' it
      some (ok (Json.mkObj [
        ("invokes", .bool ((h.entry it.top it.start).awakened it.start && !precheckFails cfg (h.entry it.top it.start) it.start)),
        ("expires", .bool ((h.entry it.top it.start).awakened it.start && precheckFails cfg (h.entry it.top it.start) it.start)),
        ("forever_stopped", .bool (marksForeverStopped { done := h'.finished, anyFailure := h'.failure })),
        ("attempt", .num (JsonNumber.fromNat (attemptOf h it))),
        ("state", stateJson h'),
        ("top", match res with | .start top t => stateJson (h'.entry top t) | _ => .null),
        ("wake", wakeJson (wake cfg h' it)),
        ("res", resJson res)]))
  | "C10.first", [cj, sj, oj, fj] => do
      let cfg ← cfgOf? cj
      let spawn ← jInt? sj
      let obs ← obsOf? oj
      let fuel ← jNat? fj
      some (ok (Json.mkObj [
        ("res", resJson (firstStartN cfg (pviewOf obs) fuel spawn)),
        ("wake", wakeJson (.at (initialWake cfg spawn))),
        ("top", match firstStartN cfg (pviewOf obs) fuel spawn with
                | .start top t => stateJson ((initState cfg spawn).entry top t) | _ => .null)]))
  | "C10.exit", [.str how, .bool already] => do
      -- how the task ended → may the timer be spawned again in this process
      let e ← (match how with | "stopped" => some Exit.stopped | "returned" => some Exit.returned | "raised" => some Exit.raised | _ => none)
      some (ok (.bool (respawnable (foreverAfter already e))))
  | "C10.carry", [.bool raised, pj, rj] => do
      -- what the next iteration's `cause.patch` starts with: items handed to the post-run patch / handed back by it
      let patch ← (← jArr? pj).mapM jNat?
      let remaining ← (← jArr? rj).mapM jNat?
      let ended := if raised then PatchEnd.raised else PatchEnd.delivered
      some (ok (Json.mkObj [
        ("carried", .arr ((carriedPatch onPatchError patch remaining ended).map (fun n => Json.num (JsonNumber.fromNat n))).toArray),
        ("goes_on", .bool (exitAfterPatch onPatchError ended).isNone)]))
  | "C10.reset", [lh, seen, e] => do
      let lh ← jOpt? jNat? lh
      let seen ← jOpt? jNat? seen
      let e ← jNat? e
      some (ok (.bool (resetsIdle lh seen e)))
  | "C10.view", [cj, ej, tj] => do
      -- `idle_reset_time` derived from the event history, read at the given instants
      let created ← jInt? cj
      let evs ← (← jArr? ej).mapM evOf?
      let ts ← (← jArr? tj).mapM jInt?
      some (ok (.arr (ts.map (fun t => jI (viewOf created evs t))).toArray))
  | _, _ => none

end Kopf.Drv.C10
