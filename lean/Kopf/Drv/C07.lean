import Kopf.Drv.Json
import Kopf.Model.C07_Barrier
open Lean
namespace Kopf.Drv.C07
open Kopf.C07

/-- `[n, never]` -/
def verOf? (j : Json) : Option Ver := do
  match ← jArr? j with
  | [n, nv] => some { n := ← jNat? n, never := ← jBool? nv }
  | _ => none

def verJson (v : Ver) : Json := .arr #[.num (JsonNumber.fromNat v.n), .bool v.never]

def optJson {α} (f : α → Json) : Option α → Json
  | some a => f a
  | none => .null

def intJson (i : Int) : Json := .num (JsonNumber.fromInt i)

def iterOf? (j : Json) : Option Iter := do
  let ver ← jOpt? verOf? (← jField? j "ver")
  let now ← jInt? (← jField? j "now")
  let dur ← jNat? (← jField? j "dur")
  let pressure ← jBool? (← jField? j "pressure")
  let wake ← jOpt? jNat? (← jField? j "wake")
  let lag ← jNat? (← jField? j "lag")
  let gone ← jBool? (← jField? j "gone")
  let required ← jBool? (← jField? j "required")
  let carried ← jBool? (← jField? j "carried")         -- required, like `paused`: never defaulted
  let patchMid ← jBool? (← jField? j "patchMid")
  let patched ← jOpt? verOf? (← jField? j "patched")
  let tp ← jInt? (← jField? j "tp")
  let tret ← jInt? (← jField? j "tret")
  let listed ← match jField? j "listed" with | some b => jBool? b | none => some false
  let paused ← jBool? (← jField? j "paused")     -- required: an iteration without it is rejected, not defaulted
  some { ver, now, dur, pressure, wake, lag, gone, required, carried, patchMid, patched, tp, tret, listed, paused }

/-- `{"event": {...}}`, `{"retire": t}` or `{"background": [ver, t]}` -/
def stepOf? (j : Json) : Option Step :=
  match jField? j "event", jField? j "retire", jField? j "background" with
  | some e, none, none => (iterOf? e).map Step.event
  | none, some t, none => (jInt? t).map Step.retire
  | none, none, some b => do
      match ← jArr? b with
      | [v, t] => some (Step.background (← verOf? v) (← jInt? t))
      | _ => none
  | _, _, _ => none

def stateJson (s : WState) : Json :=
  Json.mkObj [("expected", optJson verJson s.expected), ("deadline", optJson intJson s.deadline)]

def stageStr : Stage → String
  | .indexing => "indexing" | .watching => "watching" | .spawning => "spawning"
  | .barrier => "barrier" | .changing => "changing"

def outcomeJson (o : Outcome) : Json :=
  Json.mkObj [
    ("given", optJson intJson o.given),
    ("low", .arr (o.low.map (fun (s, t) => Json.arr #[.str (stageStr s), intJson t])).toArray),
    ("slept", optJson (fun (s : Slept) => Json.arr #[intJson s.tEnd, .bool s.timedOut]) o.slept),
    ("achieved", .bool o.achieved), ("held", .bool o.held),
    ("left", intJson o.left), ("wait", optJson intJson o.wait),
    ("entered", optJson intJson o.entered), ("handlers", optJson intJson o.handlers)]

/-- Replays a whole life of one object's stream; one record per step. -/
def replay (T idle : Int) : Cfg → List Step → List Json
  | _, [] => []
  | c, st :: rest =>
    let c' := next T c st
    let rec_ := match st with
      | .event it => Json.mkObj [("ok", .bool (okStep idle c st)), ("outcome", outcomeJson (outcomeAt T c it)),
                                 ("patchInit", .bool it.patchInit), ("after", stateJson c'.s)]
      | .retire _ => Json.mkObj [("ok", .bool (okStep idle c st)), ("retired", .bool true), ("after", stateJson c'.s)]
      | .background _ _ => Json.mkObj [("ok", .bool (okStep idle c st)), ("background", .bool true), ("after", stateJson c'.s)]
    rec_ :: replay T idle c' rest

def handle : DrvHandler := fun op args =>
  match op, args with
  | "C07.run", [j] => do
      let T ← jInt? (← jField? j "T")
      let idle ← jInt? (← jField? j "idle")
      let clock ← jInt? (← jField? j "clock")
      let steps ← (← jArr? (← jField? j "steps")).mapM stepOf?
      let c0 : Cfg := { s := WState.init, clock := clock }
      some (ok (Json.mkObj [("steps", .arr (replay T idle c0 steps).toArray),
                            ("wf", .bool (wf T idle c0 steps))]))
  | "C07.idle", [idle, dl, now] => do
      let idle ← jInt? idle
      let dl ← jOpt? jInt? dl
      let now ← jInt? now
      some (ok (intJson (idleTimeout idle dl now)))
  | _, _ => none

end Kopf.Drv.C07
