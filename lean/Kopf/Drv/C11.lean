import Kopf.Drv.Json
import Kopf.Model.C11_Errors
import Kopf.Model.C11_Storage
open Lean
namespace Kopf.Drv.C11
open Kopf.C11

def modeOf? : String → Option Mode
  | "ignored" => some .ignored | "temporary" => some .temporary | "permanent" => some .permanent
  | _ => none

def excStr : Exc → String
  | .none => "none" | .raised => "raised" | .timeout => "timeout" | .retries => "retries"

def limitsOf? (j : Json) : Option Limits := do
  let e ← jOpt? (fun x => jStr? x >>= modeOf?) (← jField? j "errors")
  let t ← jOpt? jInt? (← jField? j "timeout")
  let r ← jOpt? jInt? (← jField? j "retries")
  let b ← jOpt? jInt? (← jField? j "backoff")
  some ⟨e, t, r, b⟩

def envOf? (j : Json) : Option Env := do
  let e ← jStr? (← jField? j "default_errors") >>= modeOf?
  let b ← jInt? (← jField? j "default_backoff")
  some ⟨e, b⟩

def recOf? (j : Json) : Option Rec := do
  let st ← jInt? (← jField? j "started")
  let sp ← jOpt? jInt? (← jField? j "stopped")
  let dl ← jOpt? jInt? (← jField? j "delayed")
  let rt ← jInt? (← jField? j "retries")
  let su ← jBool? (← jField? j "success")
  let fa ← jBool? (← jField? j "failure")
  some ⟨st, sp, dl, rt, su, fa⟩

def raisedOf? (j : Json) : Option Raised := do
  match ← jArr? j with
  | [.str "ok"] => some .ok
  | [.str "permanent"] => some .permanent
  | [.str "arbitrary"] => some .arbitrary
  | [.str "temporary", d] => do let d ← jOpt? jInt? d; some (.temporary d)
  | [.str "children", d] => do let d ← jOpt? jInt? d; some (.childrenRetry d)
  | _ => none

def optInt : Option Int → Json
  | some i => .num (JsonNumber.fromInt i)
  | none => .null

def int (i : Int) : Json := .num (JsonNumber.fromInt i)

def outJ (o : Outcome) : Json :=
  Json.mkObj [("invoked", .bool o.invoked), ("final", .bool o.final), ("delay", optInt o.delay),
              ("exc", .str (excStr o.exc))]

def recJ (r : Rec) : Json :=
  Json.mkObj [("started", int r.started), ("stopped", optInt r.stopped), ("delayed", optInt r.delayed),
              ("retries", int r.retries), ("success", .bool r.success), ("failure", .bool r.failure)]

def attJ (a : Attempt) : Json :=
  Json.mkObj [("ev", .str "attempt"), ("time", int a.time), ("retry", int a.retry), ("out", outJ a.out),
              ("end", int a.endTime), ("merged", int a.merged), ("rec", recJ a.recAfter)]

def evJ : Ev → Json
  | .idle t d => Json.mkObj [("ev", .str "idle"), ("time", int t), ("done", .bool d)]
  | .att a => attJ a
  | .restarted t => Json.mkObj [("ev", .str "restarted"), ("time", int t)]
  | .skipped t => Json.mkObj [("ev", .str "skipped"), ("time", int t)]

def stepOf? (j : Json) : Option Step := do
  match ← jArr? j with
  | [.str "cycle", dt, wait, x, dur, lag] => do
      let dt ← jNat? dt
      let wait ← jNat? wait
      let x ← raisedOf? x
      let dur ← jNat? dur
      let lag ← jNat? lag
      some (.cycle dt wait x dur lag)
  | [.str "restart", dn] => do let dn ← jNat? dn; some (.restart dn)
  | _ => none

/-- Steps with absolute times, as the harness observes them:
    `["cycle_at", t, wait, x, dur, lag, view, stored]`, `["restart_at", t]`. Converted to the model's
    relative steps by following the model's own clock (after an attempt the clock is the merge
    time); a step in the past is an error. -/
inductive AbsStep where
  | cycleAt (t : Int) (wait : Nat) (x : Raised) (dur lag : Nat) (view : Nat) (stored : Bool)
  | restartAt (t : Int)
  | skippedAt (t : Int) (view : Nat) (stored : Bool)

def absStepOf? (j : Json) : Option AbsStep := do
  match ← jArr? j with
  | [.str "cycle_at", t, wait, x, dur, lag, view, stored] => do
      let t ← jInt? t; let wait ← jNat? wait; let x ← raisedOf? x; let dur ← jNat? dur; let lag ← jNat? lag
      let view ← jNat? view; let stored ← jBool? stored
      some (.cycleAt t wait x dur lag view stored)
  | [.str "restart_at", t] => do let t ← jInt? t; some (.restartAt t)
  | [.str "skipped_at", t, view, stored] => do
      let t ← jInt? t; let view ← jNat? view; let stored ← jBool? stored
      some (.skippedAt t view stored)
  | _ => none

def runAbs (env : Env) (l : Limits) : Int → List Rec → List AbsStep → Option (List Ev)
  | _, _, [] => some []
  | now, hist, .restartAt t :: rest =>
      if t < now then none else do
        let evs := runEnv env l now hist [.restart (t - now).toNat]
        let tl ← runAbs env l t hist rest
        some (evs ++ tl)
  | now, hist, .skippedAt t view stored :: rest =>
      if t < now then none else do
        let tl ← runAbs env l t (if stored && (hist[view]?).isNone then fromScratch t :: hist else hist) rest
        some (.skipped t :: tl)
  | now, hist, .cycleAt t wait x dur lag view stored :: rest =>
      if t < now then none else
        match runEnv env l now hist [.cycle view stored (t - now).toNat wait x dur lag] with
        | [.att a] => do
            let tl ← runAbs env l a.merged (if stored then a.recAfter :: hist else hist) rest
            some (.att a :: tl)
        | [ev] => do let tl ← runAbs env l t hist rest; some (ev :: tl)
        | _ => none

def raisedJ : Raised → Json
  | .ok => .arr #[.str "ok"]
  | .permanent => .arr #[.str "permanent"]
  | .arbitrary => .arr #[.str "arbitrary"]
  | .temporary d => .arr #[.str "temporary", optInt d]
  | .childrenRetry d => .arr #[.str "children", optInt d]

def scriptOf? (j : Json) : Option (List (Raised × Nat)) := do
  let xs ← jArr? j
  xs.mapM (fun e => do
    match ← jArr? e with
    | [x, dur] => do let x ← raisedOf? x; let dur ← jNat? dur; some (x, dur)
    | _ => none)

/-- one element per iteration of `_timer`'s loop: `[x, dur, idleUntil]` -/
def iterScriptOf? (j : Json) : Option (List (Raised × Nat × Int)) := do
  let xs ← jArr? j
  xs.mapM (fun e => do
    match ← jArr? e with
    | [x, dur, iu] => do let x ← raisedOf? x; let dur ← jNat? dur; let iu ← jInt? iu; some (x, dur, iu)
    | _ => none)

def handle : DrvHandler := fun op args =>
  match op, args with
  | "C11.classify", [env, lim, r, now, dur, x] => do
      let env ← envOf? env; let lim ← limitsOf? lim; let r ← recOf? r
      let now ← jInt? now; let dur ← jNat? dur; let x ← raisedOf? x
      some (ok (outJ (classify env lim r now dur x)))
  | "C11.step", [env, lim, r, now, dur, x] => do
      -- the gate + one execution + with_outcome
      let env ← envOf? env; let lim ← limitsOf? lim; let r ← recOf? r
      let now ← jInt? now; let dur ← jNat? dur; let x ← raisedOf? x
      if r.awakened now then
        let a := attemptAt env lim now r x dur 0
        some (ok (Json.mkObj [("awake", .bool true), ("out", outJ a.out), ("end", int a.endTime),
                              ("rec", recJ a.recAfter)]))
      else
        some (ok (Json.mkObj [("awake", .bool false), ("done", .bool r.finished)]))
  | "C11.run", [env, lim, now, r, steps] => do
      let env ← envOf? env; let lim ← limitsOf? lim; let now ← jInt? now
      let r ← jOpt? recOf? r
      let steps ← (← jArr? steps).mapM stepOf?
      let r0 := match r with | some r => r | none => fromScratch now
      some (ok (.arr ((run env lim now r0 steps).map evJ).toArray))
  | "C11.runAbs", [env, lim, now, steps] => do
      -- from an object without a record; steps carry absolute observed times, the view and
      -- whether the cycle's patch landed
      let env ← envOf? env; let lim ← limitsOf? lim; let now ← jInt? now
      let steps ← (← jArr? steps).mapM absStepOf?
      match runAbs env lim now [] steps with
      | some evs => some (ok (.arr (evs.map evJ).toArray))
      | none => some (err "time-went-back")
  | "C11.loop", [env, lim, now, script] => do
      -- the self-driven in-memory loop from scratch (activities, daemons, one timer series)
      let env ← envOf? env; let lim ← limitsOf? lim; let now ← jInt? now
      let script ← scriptOf? script
      some (ok (.arr ((loopRun env lim now (fromScratch now) script).map attJ).toArray))
  | "C11.timer", [env, lim, interval, sharp, t0, initialDelay, script] => do
      -- the whole life of one `_timer` task (interval > 0) spawned at `t0` with `initial_delay`; one script
      -- element per iteration: [x, dur, idleUntil as that iteration's idle wait found it]
      let env ← envOf? env; let lim ← limitsOf? lim; let t0 ← jInt? t0; let d ← jNat? initialDelay
      let interval ← jNat? interval; let sharp ← jBool? sharp
      let script ← iterScriptOf? script
      if interval == 0 then some (err "zero-interval") else
      some (ok (.arr ((timerRun env lim interval sharp (spawnedAt t0 d) (fromScratch (spawnedAt t0 d)) script).map evJ).toArray))
  | "C11.daemon", [env, lim, t0, initialDelay, script] => do
      -- `_daemon` spawned at `t0` with `initial_delay`
      let env ← envOf? env; let lim ← limitsOf? lim; let t0 ← jInt? t0; let d ← jNat? initialDelay
      let script ← scriptOf? script
      some (ok (.arr ((daemonRun env lim t0 d script).map attJ).toArray))
  | "C11.daemonRespawn", [env, lim, tasks] => do
      -- a daemon across re-spawns: tasks = [[spawn time, script], …]
      let env ← envOf? env; let lim ← limitsOf? lim
      let tasks ← (← jArr? tasks).mapM (fun t => do
        match ← jArr? t with
        | [t0, sc] => do let t0 ← jInt? t0; let sc ← scriptOf? sc; some (t0, sc)
        | _ => none)
      some (ok (.arr ((daemonRespawnRun env lim tasks).map attJ).toArray))
  | "C11.respawn", [env, lim, interval, sharp, tasks] => do
      -- a timer across re-spawns: tasks = [[spawn time, script], …]
      let env ← envOf? env; let lim ← limitsOf? lim
      let interval ← jNat? interval; let sharp ← jBool? sharp
      let tasks ← (← jArr? tasks).mapM (fun t => do
        match ← jArr? t with
        | [t0, sc] => do let t0 ← jInt? t0; let sc ← iterScriptOf? sc; some (t0, sc)
        | _ => none)
      if interval == 0 then some (err "zero-interval") else
      some (ok (.arr ((respawnRun env lim interval sharp tasks).map evJ).toArray))
  | "C11.children", [subs, now] => do
      -- what kopf.execute() raises in the parent, given the sub-handlers' records after their batch
      let subs ← (← jArr? subs).mapM recOf?
      let now ← jInt? now
      some (ok (raisedJ (childrenRaised subs now)))
  | "C11.stepStored", [env, lim, r, startedNaive, delayedNaive, now, dur, x] => do
      -- the gate + one execution on a record re-read from the storage with the given spelling of its timestamps
      let env ← envOf? env; let lim ← limitsOf? lim; let r ← recOf? r
      let sn ← jBool? startedNaive; let dn ← jBool? delayedNaive
      let now ← jInt? now; let dur ← jNat? dur; let x ← raisedOf? x
      match stepStored env lim ⟨sn, dn⟩ r now x dur with
      | .raised => some (ok (Json.mkObj [("awake", .str "raised")]))
      | .idle d => some (ok (Json.mkObj [("awake", .bool false), ("done", .bool d)]))
      | .att a => some (ok (Json.mkObj [("awake", .bool true), ("out", outJ a.out), ("end", int a.endTime),
                                        ("rec", recJ a.recAfter)]))
  | "C11.stepStoredIn", [zone, env, lim, r, offs, now, dur, x] => do
      -- the same in a process whose local time is `zone` ticks ahead of UTC; offs = the UTC offsets (null: none)
      -- with which [started, stopped, delayed] stand in the storage
      let zone ← jInt? zone
      let env ← envOf? env; let lim ← limitsOf? lim; let r ← recOf? r
      let os ← (match ← jArr? offs with
                | [a, b, c] => do let a ← jOpt? jInt? a; let b ← jOpt? jInt? b; let c ← jOpt? jInt? c; some (Offsets.mk a b c)
                | _ => none)
      let now ← jInt? now; let dur ← jNat? dur; let x ← raisedOf? x
      match stepStoredIn zone env lim os r now x dur with
      | .raised => some (ok (Json.mkObj [("awake", .str "raised")]))
      | .idle d => some (ok (Json.mkObj [("awake", .bool false), ("done", .bool d)]))
      | .att a => some (ok (Json.mkObj [("awake", .bool true), ("out", outJ a.out), ("end", int a.endTime),
                                        ("rec", recJ a.recAfter)]))
  | "C11.fetch", [places, now] => do
      -- the record a cycle starts from when the handler's record stands in several places of the object
      -- (in the configured storages' order; null = that place has none): null = none anywhere
      let ps ← (← jArr? places).mapM (jOpt? recOf?)
      let now ← jInt? now
      match multiFetch (ps.map (fun p => p.map toStorage)) with
      | some s => some (ok (recJ (fromStorage s now)))
      | none => some (ok .null)
  | "C11.roundtrip", [r, now] => do
      let r ← recOf? r; let now ← jInt? now
      some (ok (recJ (fromStorage (toStorage r) now)))
  | _, _ => none

end Kopf.Drv.C11
