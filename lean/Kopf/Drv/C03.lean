import Kopf.Drv.Json
import Kopf.Drv.C02
import Kopf.Drv.C05
import Kopf.Drv.C14
import Kopf.Model.C03_Loop
open Lean
namespace Kopf.Drv.C03
open Kopf.C03 Kopf

/-- outcomes observed per handler and `retry` number: {"id": {"0": outcome, "1": outcome}} -/
def outcomeTable? (j : Json) : Option (List (String × List (Nat × Kopf.C02.Outcome))) := do
  (← C02.objPairs? j).mapM (fun (k, v) => do
    let rows ← (← C02.objPairs? v).mapM (fun (n, o) => do
      let n' ← n.toNat?
      pure (n', ← C02.outcomeOf? o))
    pure (k, rows))

def baseOf? : String → Option (Option Nat)
  | "none" => some none
  | "same" => some (some 0)
  | "diff" => some (some 1)
  | _ => none

def baseJson (s : State Nat) : Json :=
  match s.base with
  | none => .str "none"
  | some b => if b = s.ess then .str "same" else .str "diff"

def recsJson (univ : List String) (P : Kopf.C02.Store) : Json :=
  Json.mkObj (univ.map (fun i => (i, match P i with | some rc => C02.recJson rc | none => .null)))

/-- the passes of the closed loop until no event is pending (or `fuel` turns) -/
def runLoop (env : Env) (univ : List String) : Nat → State Nat → List Json → List Json × State Nat
  | 0, s, acc => (acc.reverse, s)
  | fuel + 1, s, acc =>
      if !s.pending then (acc.reverse, s)
      else
        let c := causeOf s
        let r := pass env s
        let s' := loopStep env s
        let row := Json.mkObj [
          ("reason", .str (if (decisionOf env s).add then "add-finalizer"
                           else if (decisionOf env s).removeUnneeded then "remove-finalizer"
                           else if env.prematch then C14.reasonStr c.reason else "blind")),
          ("selected", if (decisionOf env s).handlersRun then .arr ((selOf env s).map Json.str).toArray else .null),
          ("invoked", if (decisionOf env s).handlersRun
            then .arr (r.invoked.map (fun (i, n) => Json.arr #[.str i, .num (JsonNumber.fromNat n)])).toArray
            else .arr #[]),
          ("now", .num (JsonNumber.fromInt s.now)),
          ("P", recsJson univ s'.P),
          ("base", baseJson s'),
          ("blocked", .bool s'.blocked),
          ("gone", .bool s'.gone),
          ("fullyHandled", .bool s'.fullyHandled),
          ("writes", .num (JsonNumber.fromNat (s'.writes - s.writes))),
          ("pending", .bool s'.pending)]
        runLoop env univ fuel s' (row :: acc)

def handle : DrvHandler := fun op args =>
  match op, args with
  | "C03.run", [j] => do
      let decls ← (← jArr? (← jField? j "decls")).mapM C14.declOf?
      let matched ← jStrList? (← jField? j "matched")
      let subs ← jStrList? (← jField? j "subs")
      let lifecycle ← jStr? (← jField? j "lifecycle") >>= C02.lifecycleOf?
      let limitsL ← (← C02.objPairs? (← jField? j "limits")).mapM (fun (k, v) => do pure (k, ← C02.limitsOf? v))
      let pL ← (← C02.objPairs? (← jField? j "P")).filterMapM (fun (k, v) =>
        match v with
        | .null => some none
        | v => do let r ← C02.recOf? v; pure (some (k, r)))
      let oT ← outcomeTable? (← jField? j "outcomes")
      let base ← jStr? (← jField? j "base") >>= baseOf?
      let noticed ← jBool? (← jField? j "noticed")
      let fullyHandled ← jBool? (← jField? j "fullyHandled")
      let prematch ← jBool? (← jField? j "prematch")
      let changeReq ← jBool? (← jField? j "changeReq")
      let foreignFins ← jBool? (← jField? j "foreignFins")
      let constPatch ← jBool? (← jField? j "constPatch")
      let resumed ← jStrList? (← jField? j "resumed")
      let marked ← jBool? (← jField? j "marked")
      let blocked ← jBool? (← jField? j "blocked")
      let now ← jInt? (← jField? j "now")
      let lat ← jInt? (← jField? j "lat")
      let cap ← jInt? (← jField? j "cap")
      let rtt ← jInt? (← jField? j "rtt")
      let fuel ← jNat? (← jField? j "fuel")
      let univ ← jStrList? (← jField? j "universe")
      -- an invocation the implementation never made has no observed outcome: a marked non-final one
      let missing : Kopf.C02.Outcome := { final := false, delay := some (-1), error := true, subrefs := ["<no-outcome>"] }
      let env : Env := {
        owned := decls.map (·.id), subs,
        sel := fun c => (decls.filter (fun d => Kopf.C05.gate d.gate c && matched.contains d.id)).map (·.id),
        limits := fun i => (C02.lookupD limitsL i).getD { timeout := none, retries := none },
        lifecycle,
        exec := fun i n => ((C02.lookupD oT i).bind (fun rows => (rows.find? (·.1 == n)).map (·.2))).getD missing,
        prematch, changeReq, foreignFins, constPatch, lat, rtt, cap,
        initialH := fun i => (decls.find? (·.id == i)).any (·.gate.initial) }
      let s0 : State Nat := { P := C02.lookupD pL, base, ess := 0, marked, blocked, gone := false, noticed, fullyHandled, resumed, now,
                              pending := true, writes := 0 }
      let (rows, s) := runLoop env univ fuel s0 []
      some (ok (Json.mkObj [
        ("passes", .arr rows.toArray),
        ("quiescent", .bool (!s.pending)),
        ("writes", .num (JsonNumber.fromNat s.writes)),
        ("base", baseJson s),
        ("P", recsJson univ s.P)]))
  | _, _ => none

end Kopf.Drv.C03
