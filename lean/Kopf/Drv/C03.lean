import Kopf.Drv.Json
import Kopf.Drv.C02
import Kopf.Drv.C05
import Kopf.Drv.C14
import Kopf.Model.C03_Loop
import Kopf.Model.C03_Relist
import Kopf.Model.C03_Change
open Lean
namespace Kopf.Drv.C03
open Kopf.C03 Kopf

/-- outcomes observed per handler and `retry` number: {"id": {"0": outcome, "1": outcome}} -/
def outcomeTable? (j : Json) : Option (List (String × List (Nat × Kopf.C02.Outcome))) := do
  (← C02.objPairs? j).mapM (fun (k, v) => do
    let rows ← (← C02.objPairs? v).mapM (fun (n, o) => do
      let n' ← n.toNat?
      pure (n', ← C02.outcomeOf? o))
    pure (k, rows))

def baseOf? : String → Option (Option Nat)
  | "none" => some none
  | "same" => some (some 0)
  | "diff" => some (some 1)
  | _ => none

def baseJson (s : State Nat) : Json :=
  match s.base with
  | none => .str "none"
  | some b => if b = s.ess then .str "same" else .str "diff"

def recsJson (univ : List String) (P : Kopf.C02.Store) : Json :=
  Json.mkObj (univ.map (fun i => (i, match P i with | some rc => C02.recJson rc | none => .null)))

/-- the passes of the closed loop until no event is pending (or `fuel` turns); the FIRST turn may start with a
    carried patch (`loopStepC`) or be held back by the consistency barrier (`loopStepI`) -/
def runLoop (env : Env) (univ : List String) (rl : List Int) : Nat → Carried → Option (Bool × Int) → State Nat → List Json → List Json × State Nat
  | 0, _, _, s, acc => (acc.reverse, s)
  | fuel + 1, cr, inc, s, acc =>
      if !s.pending then (acc.reverse, s)
      else
        -- an inconsistent turn with an empty patch is the turn taken at the deadline
        let s := match inc with
          | some (false, dl) => if !s.gone && !adjusting env s && env.prematch then { s with now := if s.now < dl then dl else s.now } else s
          | _ => s
        let c := causeOf s
        let r := pass env s
        let held := (match inc with | some (true, _) => true | _ => false) && !s.gone && !adjusting env s && env.prematch
        -- a re-listing of the object as it is that falls into this turn's sleep (`loopStepR`): ordinary first turns only
        let hit := if cr == .none && inc.isNone then rl.find? (fun t => inSleep env s t) else none
        let s' := match hit with
          | some t => loopStepR env t s
          | none => match inc with
            | some (ne, dl) => if held then loopStepI env ne dl s else loopStepC env cr s
            | none => loopStepC env cr s
        -- does the carried patch / the barrier make this turn skip the handlers?
        let skip := held || (cr != .none && !s.gone && !adjusting env s && env.prematch)
        let row := Json.mkObj [
          ("reason", .str (if held then "inconsistent-nonempty"
                           else if skip then (if cr == .ops then "carried-ops" else "carried-noop")
                           else if (decisionOf env s).add then "add-finalizer"
                           else if (decisionOf env s).removeUnneeded then "remove-finalizer"
                           else if env.prematch then C14.reasonStr c.reason else "blind")),
          ("selected", if (decisionOf env s).handlersRun && !skip then .arr ((selOf env s).map Json.str).toArray else .null),
          ("invoked", if (decisionOf env s).handlersRun && !skip
            then .arr (r.invoked.map (fun (i, n) => Json.arr #[.str i, .num (JsonNumber.fromNat n)])).toArray
            else .arr #[]),
          ("now", .num (JsonNumber.fromInt s.now)),
          ("P", recsJson univ s'.P),
          ("base", baseJson s'),
          ("blocked", .bool s'.blocked),
          ("gone", .bool s'.gone),
          ("fullyHandled", .bool s'.fullyHandled),
          ("writes", .num (JsonNumber.fromNat (s'.writes - s.writes))),
          ("pending", .bool s'.pending)]
        -- cut the closure chain: the store of the next turn is a finite table over the universe (otherwise every
        -- lookup re-evaluates all earlier passes, exponentially in the number of turns)
        let tbl := univ.filterMap (fun i => (s'.P i).map (fun rc => (i, rc)))
        let s'' : State Nat := { s' with P := C02.lookupD tbl }
        -- a re-listing is one event: consumed by the turn it interrupted
        let rl' := match hit with | some t => rl.filter (fun x => x != t) | none => rl
        runLoop env univ rl' fuel .none none s'' (row :: acc)

/-- turns of the loop whose environment is recomputed from the state (`loopStepG envOfU`) -/
def runG : Nat → State Nat → List Json → List Json
  | 0, _, acc => acc.reverse
  | fuel + 1, s, acc =>
      let s' := loopStepG envOfU s
      let row := Json.mkObj [
        ("reason", .str (if (decisionOf (envOfU s) s).add then "add-finalizer"
                         else if (decisionOf (envOfU s) s).removeUnneeded then "remove-finalizer" else "other")),
        ("blocked", .bool s'.blocked),
        ("invoked", .num (JsonNumber.fromNat (pass (envOfU s) s).invoked.length)),
        ("writes", .num (JsonNumber.fromNat (s'.writes - s.writes))),
        ("pending", .bool s'.pending)]
      runG fuel s' (row :: acc)

def handle : DrvHandler := fun op args =>
  match op, args with
  | "C03.run", [j] => do
      let decls ← (← jArr? (← jField? j "decls")).mapM C14.declOf?
      let matched ← jStrList? (← jField? j "matched")
      let subs ← jStrList? (← jField? j "subs")
      let lifecycle ← jStr? (← jField? j "lifecycle") >>= C02.lifecycleOf?
      let limitsL ← (← C02.objPairs? (← jField? j "limits")).mapM (fun (k, v) => do pure (k, ← C02.limitsOf? v))
      let pL ← (← C02.objPairs? (← jField? j "P")).filterMapM (fun (k, v) =>
        match v with
        | .null => some none
        | v => do let r ← C02.recOf? v; pure (some (k, r)))
      let oT ← outcomeTable? (← jField? j "outcomes")
      let base ← jStr? (← jField? j "base") >>= baseOf?
      let noticed ← jBool? (← jField? j "noticed")
      let fullyHandled ← jBool? (← jField? j "fullyHandled")
      let prematch ← jBool? (← jField? j "prematch")
      let changeReq ← jBool? (← jField? j "changeReq")
      let foreignFins ← jBool? (← jField? j "foreignFins")
      let constPatch ← jBool? (← jField? j "constPatch")
      let resumed ← jStrList? (← jField? j "resumed")
      let marked ← jBool? (← jField? j "marked")
      let blocked ← jBool? (← jField? j "blocked")
      let now ← jInt? (← jField? j "now")
      let lat ← jInt? (← jField? j "lat")
      let cap ← jInt? (← jField? j "cap")
      let rtt ← jInt? (← jField? j "rtt")
      let fuel ← jNat? (← jField? j "fuel")
      let univ ← jStrList? (← jField? j "universe")
      -- an invocation the implementation never made has no observed outcome: a marked non-final one
      let missing : Kopf.C02.Outcome := { final := false, delay := some (-1), error := true, subrefs := ["<no-outcome>"] }
      let env : Env := {
        owned := decls.map (·.id), subs,
        sel := fun c => (decls.filter (fun d => Kopf.C05.gate d.gate c && matched.contains d.id)).map (·.id),
        limits := fun i => (C02.lookupD limitsL i).getD { timeout := none, retries := none },
        lifecycle,
        exec := fun i n => ((C02.lookupD oT i).bind (fun rows => (rows.find? (·.1 == n)).map (·.2))).getD missing,
        prematch, changeReq, foreignFins, constPatch, lat, rtt, cap,
        initialH := fun i => (decls.find? (·.id == i)).any (·.gate.initial),
        -- `handler.reason is not None` of a handler selected under this id for the cause (f7d6401)
        boundH := fun c i => (decls.filter (fun d => d.id == i && Kopf.C05.gate d.gate c && matched.contains d.id)).any
          (·.gate.reason.isSome) }
      let s0 : State Nat := { P := C02.lookupD pL, base, ess := 0, marked, blocked, gone := false, noticed, fullyHandled, resumed, now,
                              pending := true, writes := 0 }
      let carried ← match j.getObjVal? "carried" with
        | .ok (.str "ops") => some Carried.ops
        | .ok (.str "noop") => some Carried.noop
        | .ok (.str "none") => some Carried.none
        | .ok _ => none
        | .error _ => some Carried.none
      let inconsistent ← match j.getObjVal? "inconsistent" with
        | .ok .null => some none
        | .ok v => do
            let ne ← jBool? (← jField? v "nonEmpty")
            let dl ← jInt? (← jField? v "deadline")
            pure (some (ne, dl))
        | .error _ => some none
      -- moments at which the object was re-listed as it is (ticks); absent = none
      let relists ← match j.getObjVal? "relists" with
        | .ok (.arr a) => a.toList.mapM jInt?
        | .ok _ => none
        | .error _ => some []
      let (rows, s) := runLoop env univ relists fuel carried inconsistent s0 []
      some (ok (Json.mkObj [
        ("passes", .arr rows.toArray),
        ("quiescent", .bool (!s.pending)),
        ("writes", .num (JsonNumber.fromNat s.writes)),
        ("base", baseJson s),
        ("P", recsJson univ s.P)]))
  | "C03.change", [old, new] => do
      -- the class of (last-handled, essence) that `_detect_causes` hands to the cause detection, from the JSON values
      -- themselves (`old` = null: no last-handled state on the object); with the variant comparison of seed C03h besides
      let n ← toJ new
      let o ← match old with
        | .null => some none
        | v => (toJ v).map some
      let name : BaseClass → String := fun c => match c with | .none => "none" | .same => "same" | .diff => "diff"
      some (ok (Json.mkObj [("base", .str (name (baseClass o n))), ("variantPfx", .str (name (baseClassBy samePfx o n)))]))
  | "C03.unstable", [j] => do
      -- the first `turns` turns of the loop of `envOfU` (a filter that reads the framework's own finalizer) from a
      -- fresh object: the instance of `Kopf.C03.unstable_filters_witness`
      let turns ← jNat? (← jField? j "turns")
      some (ok (Json.mkObj [
        ("turns", .arr ((runG turns stateN []).toArray))]))
  | _, _ => none

end Kopf.Drv.C03
