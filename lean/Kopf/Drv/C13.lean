import Kopf.Drv.Json
import Kopf.Model.C13_Peering
import Kopf.Model.C13_KaFlight
open Lean
namespace Kopf.Drv.C13
open Kopf.C13

def errTag : Err → String
  | .typeError => "type-error"
  | .valueError => "value-error"
  | .attrError => "attribute-error"
  | .overflowError => "overflow-error"

def jInt (n : Int) : Json := .num (JsonNumber.fromInt n)
def jOptInt : Option Int → Json | some n => jInt n | none => .null
def jOptBool : Option Bool → Json | some b => .bool b | none => .null

def lastSeenOf? (r : Json) : Option LastSeen :=
  match jField? r "lastseen" with
  | none => some .absent
  | some v =>
    match jField? v "t" with
    | some .null => some .absent
    | some (.str "bad") => some .bad
    | some t => (jInt? t).map LastSeen.at
    | none => none

def entryOf? (j : Json) : Option RawEntry :=
  match j with
  | .obj _ => do
    let pr ← match jField? j "priority" with | none => some none | some v => (toJ v).map some
    let lt ← match jField? j "lifetime" with | none => some none | some v => (toJ v).map some
    let ls ← lastSeenOf? j
    some (.record { priority := pr, lifetime := lt, lastseen := ls, identityKey := (jField? j "identity").isSome })
  | _ => some .notMapping

def statusOf? (j : Json) : Option (Option (List (Identity × RawEntry))) :=
  match j with
  | .arr xs => do
    let es ← xs.toList.mapM (fun x => do
      match ← jArr? x with
      | [i, e] => pure (← jStr? i, ← entryOf? e)
      | _ => none)
    pure (some es)
  | .obj _ => if (jField? j "notdict").isSome then some none else none
  | _ => none

def decisionJson (d : Decision) : Json :=
  Json.mkObj [("cleaned", .arr (d.cleaned.map Json.str).toArray), ("turned", jOptBool d.turned),
    ("paused", jOptBool d.paused), ("delays", .arr (d.delays.map jInt).toArray), ("sleep", jOptInt d.sleep),
    ("touch", .bool d.touch)]

def recOf? (j : Json) : Option Rec := do
  some { priority := ← jInt? (← jField? j "priority"), lifetime := ← jInt? (← jField? j "lifetime"),
         lastseen := ← jInt? (← jField? j "lastseen") }

def recJson (r : Rec) : Json :=
  Json.mkObj [("priority", jInt r.priority), ("lifetime", jInt r.lifetime), ("lastseen", jInt r.lastseen)]

/-- a well-formed status: `[[identity, {priority, lifetime, lastseen}], …]` in document order -/
def statusOfRecs? (j : Json) : Option Status := do
  (← jArr? j).mapM (fun x => do
    match ← jArr? x with
    | [i, r] => pure (← jStr? i, ← recOf? r)
    | _ => none)

def statusJson (st : Status) : Json := .arr (st.map (fun e => Json.arr #[.str e.1, recJson e.2])).toArray

def labelOf? (j : Json) : Option Label := do
  match ← jArr? j with
  | [.str "start", i, p, l] => some (.start (← jStr? i) (← jInt? p) (← jInt? l))
  | [.str "keepalive", i, lag] => some (.keepalive (← jStr? i) (← jNat? lag))
  | [.str "exitLost", i] => some (.exitLost (← jStr? i))
  | [.str "deliverStale", i, v, vv] => some (.deliverStale (← jStr? i) (← statusOfRecs? v) (← jNat? vv))
  | [.str "exit", i] => some (.exit (← jStr? i))
  | [.str "exitBegin", i] => some (.exitBegin (← jStr? i))
  | [.str "keepaliveFail", i, .bool w] => some (.keepaliveFail (← jStr? i) w)
  | [.str "exitEnd", i] => some (.exitEnd (← jStr? i))
  | [.str "kill", i] => some (.kill (← jStr? i))
  | [.str "deliver", i] => some (.deliver (← jStr? i))
  | [.str "tick", d] => some (.tick (← jNat? d))
  | [.str "expire", i] => some (.expire (← jStr? i))
  | [.str "foreign", i, r] => some (.foreign (← jStr? i) (← jOpt? recOf? r))
  | [.str "wake", i, lag] => some (.wake (← jStr? i) (← jNat? lag))
  | [.str "wakeIssue", i] => some (.wakeIssue (← jStr? i))
  | [.str "land", i] => some (.land (← jStr? i))
  | _ => none

def snapshot (s : State) (ids : List Identity) : Json :=
  Json.mkObj [("now", jInt s.now),
    ("status", statusJson s.status),
    ("ops", Json.mkObj (ids.filterMap (fun i => (s.ops i).map (fun o => (i,
      Json.mkObj [("alive", .bool o.alive), ("paused", .bool o.paused), ("prio", jInt o.prio),
                  ("sleeping", .bool o.sleeping), ("exiting", .bool o.exiting), ("inflight", jOptInt o.inflight)])))))]

/-- a label of the in-flight layer: `["kaIssue", i]`, `["kaLand", i]`, or a label of `step` -/
def klabelOf? (j : Json) : Option KLabel := do
  match ← jArr? j with
  | [.str "kaIssue", i] => some (.kaIssue (← jStr? i))
  | [.str "kaLand", i] => some (.kaLand (← jStr? i))
  | _ => (labelOf? j).map KLabel.base

/-- what the tie compares after every label: per identity the record on the server (`null` = absent) and the stamp of the
    regular keep-alive in flight (`null` = none) -/
def ksnapshot (ks : KState) (ids : List Identity) : Json :=
  Json.mkObj [("now", jInt ks.s.now),
    ("recs", Json.mkObj (ids.map (fun i => (i, match ks.s.status.find? (fun e => e.1 == i) with
                                               | some e => recJson e.2 | none => .null)))),
    ("flight", Json.mkObj (ids.map (fun i => (i, jOptInt (ks.flight i)))))]

def handle : DrvHandler := fun op args =>
  match op, args with
  | "C13.decide", [j] => do
      let u ← jInt? (← jField? j "u")
      let status ← statusOf? (← jField? j "status")
      let me ← jStr? (← jField? j "me")
      let prio ← jInt? (← jField? j "prio")
      let ac ← jBool? (← jField? j "autoclean")
      let nameOk ← jBool? (← jField? j "name_ok")
      let toggle ← jOpt? jBool? (← jField? j "toggle")
      let now ← jInt? (← jField? j "now")
      let now2 ← jInt? (← jField? j "now2")
      match processEvent u nameOk status me prio ac toggle now now2 with
      | .error e => some (err (errTag e))
      | .ok .ignored => some (ok (.str "ignored"))
      | .ok (.done d) => some (ok (decisionJson d))
  | "C13.kasleep", [u, l, jt] => do
      some (ok (jInt (kaSleepT (← jInt? u) (← jInt? l) (← jInt? jt))))
  | "C13.touch", [u, p, l, now] => do
      match touchVal (← jInt? u) (← jInt? p) (← jInt? l) (← jInt? now) with
      | none => some (ok .null)
      | some r => some (ok (recJson r))
  | "C13.write", [st, patch] => do
      -- one merge-patch `{status: {id: null | record, …}}` applied to a well-formed status (the LTS's write semantics)
      let st ← statusOfRecs? st
      let ps ← (← jArr? patch).mapM (fun x => do
        match ← jArr? x with
        | [i, r] => pure (← jStr? i, ← jOpt? recOf? r)
        | _ => none)
      some (ok (statusJson (ps.foldl (fun acc p => acc.patch p.1 p.2) st)))
  | "C13.stale", [j] => do
      -- `deliverStale` as one step: verdict from the view (taken at version `vv`) at `now`; the clean names `vv` and is
      -- applied only if the object (`current`, at version `ver`) is still at `vv`
      let u ← jInt? (← jField? j "u")
      let cur ← statusOfRecs? (← jField? j "current")
      let view ← statusOfRecs? (← jField? j "view")
      let ver ← jNat? (← jField? j "ver")
      let vv ← jNat? (← jField? j "vv")
      let me ← jStr? (← jField? j "me")
      let prio ← jInt? (← jField? j "prio")
      let paused ← jBool? (← jField? j "paused")
      let now ← jInt? (← jField? j "now")
      let s0 : State := { now := now, ver := ver, status := cur,
                          ops := updOp (fun _ => none) me { prio := prio, lifetime := 60, alive := true, paused := paused, seen := none } }
      match step u s0 (.deliverStale me view vv) with
      | none => some (err "not-enabled")      -- the view claims the current version but is not the current status
      | some s1 => some (ok (Json.mkObj [("status", statusJson s1.status),
          ("refused", .bool (vv != ver)),
          ("changed", .bool (s1.ver != s0.ver)),
          ("sameVerdict", .bool (sameVerdict u s0 me prio view)),
          ("paused", match s1.ops me with | some o => .bool o.paused | none => .null),
          ("sleeping", match s1.ops me with | some o => .bool o.sleeping | none => .null)]))
  | "C13.run", [u, ids, labels] => do
      -- a label list run from `init`: the Lean witnesses of the open findings, compared with their replays on the real code
      let u ← jInt? u
      let ids ← jStrList? ids
      let ls ← (← jArr? labels).mapM labelOf?
      let rec go (s : State) (k : Nat) (acc : List Json) : List Label → Json
        | [] => ok (.arr acc.reverse.toArray)
        | l :: rest =>
          match step u s l with
          | none => .arr #[.str "rejected", .num (JsonNumber.fromNat k)]
          | some s' => go s' (k + 1) (snapshot s' ids :: acc) rest
      some (go init 0 [] ls)
  | "C13.kaflight", [u, ids, labels] => do
      -- a label list of the in-flight layer run by `kstep` (what the code does) from `kinit`: after every label the records
      -- and the requests in flight; a label that is not enabled ends the run (`rejected` + its index)
      let u ← jInt? u
      let ids ← jStrList? ids
      let ls ← (← jArr? labels).mapM klabelOf?
      let rec goK (ks : KState) (k : Nat) (acc : List Json) : List KLabel → Json
        | [] => ok (.arr acc.reverse.toArray)
        | l :: rest =>
          match kstep u ks l with
          | none => ok (.arr ((Json.arr #[.str "rejected", .num (JsonNumber.fromNat k)] :: acc).reverse.toArray))
          | some ks' => goK ks' (k + 1) (ksnapshot ks' ids :: acc) rest
      some (goK kinit 0 [] ls)
  | _, _ => none

end Kopf.Drv.C13
