/-
  Driver ops of C20 (trace acceptance, tie A).

  `["C20.trace", {"fixed": b, "coreWatched": b, "orchShielded": b, "spawnSwept": b, "stopSwept": b, "deplEscalates": b, "orchSwept": b, "E": n, "W": n, "D": n, "C": n, "H": n}, [[tick, name, args…], …]]`
     tick  = virtual time of the segment in 1/64 s; the driver inserts `delay (tick - now)` before it
     label = ["setStopFlag"] | ["scStartupBegin"] | ["scStartupEnd", o] | ["setStarted"] | ["ready"]
           | ["scWake"] | ["scWaitRootsEnd"] | ["scCut"] | ["scStopCore"] | ["scCoreStopped"] | ["scCleanupEnd", o]
           | ["vaultClosed"] | ["enter", root] | ["coreEnter"] | ["coreEnd", how]
           | ["rootStopping", root, fail] | ["rootEnd", root, how]
           | ["subSpawn", i, kind] | ["subStopping", i, fail] | ["subGone", i] | ["subCancel", i] | ["withdraw", i, ok] | ["subEnd", i, how]
           | ["orchStopPingers"] (the second of the orchestrator's two exit stops, since /repo 26a293c)
           | ["workerStart", w, owner] | ["workerEnd", w, how] | ["daemonSpawn", d] | ["daemonExit", d]
           | ["waiterEnd"] | ["orphan"] | ["orphanEnd"] | ["act", actor] | ["rtStopRoots"] | ["rtCancel"] | ["rtHungWait"]
           | ["rtStopHung"] | ["rtCStopHung"] | ["rtExit", res] | ["hungFail"]
           | ["orchAbandon"] | ["spawnCancel"] | ["stopCancel"] (HISTORICAL variants only — a tree before ab6fb15 / d6da86b / 883284c: the
             run leaves the model, the comparison is truncated there; not enabled in the model of the current tree)
           | ["end"] (only advances the clock)
     o = "ok"|"failed"|"cancelled"; how = "done"|"failed"|"cancelled"; owner/actor = ["root", name] | ["sub", i] | ["worker", w]
  → ["ok", {"accepted": true, "n": N, "final": {...}}]
  | ["ok", {"accepted": false, "index": i, "reason": r, "label": l, "state": {...}}]
  Anything unparsable → bad-op (never a default).
-/
import Kopf.Drv.Json
import Kopf.Model.C20_Lifecycle
open Lean
namespace Kopf.Drv.C20
open Kopf.C20

def rootOf? : String → Option Root
  | "stopFlag" => some .stopFlag | "ultimate" => some .ultimate | "startupCleanup" => some .startupCleanup
  | "coreWatcher" => some .coreWatcher
  | "daemonKiller" => some .daemonKiller | "poster" => some .poster | "admChain" => some .admChain
  | "admValidating" => some .admValidating | "admMutating" => some .admMutating | "admServer" => some .admServer
  | "resObserver" => some .resObserver | "nsObserver" => some .nsObserver | "orchestrator" => some .orchestrator
  | _ => none

def rootName : Root → String
  | .stopFlag => "stopFlag" | .ultimate => "ultimate" | .startupCleanup => "startupCleanup"
  | .coreWatcher => "coreWatcher"
  | .daemonKiller => "daemonKiller" | .poster => "poster" | .admChain => "admChain"
  | .admValidating => "admValidating" | .admMutating => "admMutating" | .admServer => "admServer"
  | .resObserver => "resObserver" | .nsObserver => "nsObserver" | .orchestrator => "orchestrator"

def pendOf? : String → Option Pend
  | "ok" => some .none | "failed" => some .failed | "cancelled" => some .cancelled | _ => none

def howOf? : String → Option TS
  | "done" => some .done | "failed" => some .failed | "cancelled" => some .cancelled | _ => none

def wsOf? : String → Option WS
  | "done" => some .done | "failed" => some .failed | "cancelled" => some .cancelled | _ => none

def kindOf? : String → Option SubKind
  | "watcher" => some .watcher | "peerWatcher" => some .peerWatcher | "pinger" => some .pinger | _ => none

def resOf? : String → Option Res
  | "returned" => some .returned | "raised" => some .raised | "cancelled" => some .cancelled | _ => none

def taskOf? (j : Json) : Option Task := do
  match ← jArr? j with
  | [.str "root", .str n] => pure (.root (← rootOf? n))
  | [.str "sub", i] => pure (.sub (← jNat? i))
  | _ => none

def actorOf? (j : Json) : Option Actor := do
  match ← jArr? j with
  | [.str "worker", w] => pure (.worker (← jNat? w))
  | [.str "orphan"] => pure .orphan
  | _ => (taskOf? j).map .task

/-- A parsed entry: the model label plus the index the harness claims for a freshly created entity. -/
inductive Obs where
  | lab (l : Label)
  | subSpawnAs (i : Nat) (k : SubKind)
  | workerStartAs (w : Nat) (o : Task)
  | daemonSpawnAs (d : Nat) (coop : Bool)
  | «end»

def obsOf? (xs : List Json) : Option Obs :=
  match xs with
  | [.str "setStopFlag"] => some (.lab .setStopFlag)
  | [.str "scStartupBegin"] => some (.lab .scStartupBegin)
  | [.str "scStartupEnd", .str o] => (pendOf? o).map (fun p => .lab (.scStartupEnd p))
  | [.str "setStarted"] => some (.lab .setStarted)
  | [.str "ready"] => some (.lab .ready)
  | [.str "scWake"] => some (.lab .scWake)
  | [.str "scWaitRootsEnd"] => some (.lab .scWaitRootsEnd)
  | [.str "scCut"] => some (.lab .scCut)
  | [.str "scStopCore"] => some (.lab .scStopCore)
  | [.str "scCoreStopped"] => some (.lab .scCoreStopped)
  | [.str "scCleanupEnd", .str o] => (pendOf? o).map (fun p => .lab (.scCleanupEnd p))
  | [.str "vaultClosed"] => some (.lab .vaultClosed)
  | [.str "enter", .str r] => (rootOf? r).map (fun r => .lab (.enter r))
  | [.str "coreEnter"] => some (.lab .coreEnter)
  | [.str "coreEnd", .str h] => (howOf? h).map (fun h => .lab (.coreEnd h))
  | [.str "rootStopping", .str r, .bool f] => (rootOf? r).map (fun r => .lab (.rootStopping r f))
  | [.str "rootEnd", .str r, .str h] => do
      let r ← rootOf? r
      let h ← howOf? h
      pure (.lab (.rootEnd r h))
  | [.str "subSpawn", i, .str k] => do pure (.subSpawnAs (← jNat? i) (← kindOf? k))
  | [.str "subStopping", i, .bool f] => do pure (.lab (.subStopping (← jNat? i) f))
  | [.str "subGone", i] => do pure (.lab (.subGone (← jNat? i)))
  | [.str "subCancel", i] => do pure (.lab (.subCancel (← jNat? i)))
  | [.str "withdraw", i, .bool ok] => do pure (.lab (.withdraw (← jNat? i) ok))
  | [.str "subEnd", i, .str h] => do pure (.lab (.subEnd (← jNat? i) (← howOf? h)))
  | [.str "orchStopPingers"] => some (.lab .orchStopPingers)
  | [.str "workerStart", w, o] => do pure (.workerStartAs (← jNat? w) (← taskOf? o))
  | [.str "workerEnd", w, .str h] => do pure (.lab (.workerEnd (← jNat? w) (← wsOf? h)))
  | [.str "daemonSpawn", d, .bool c] => do pure (.daemonSpawnAs (← jNat? d) c)
  | [.str "daemonExit", d] => do pure (.lab (.daemonExit (← jNat? d)))
  | [.str "waiterEnd"] => some (.lab .waiterEnd)
  | [.str "orphan"] => some (.lab .orphan)
  | [.str "orphanEnd"] => some (.lab .orphanEnd)
  | [.str "act", a] => (actorOf? a).map (fun a => .lab (.act a))
  | [.str "orchAbandon"] => some (.lab .orchAbandon)
  | [.str "orchCrash"] => some (.lab .orchCrash)
  | [.str "spawnCancel"] => some (.lab .spawnCancel)
  | [.str "stopCancel"] => some (.lab .stopCancel)
  | [.str "hungFail"] => some (.lab .hungFail)
  | [.str "rtStopRoots"] => some (.lab .rtStopRoots)
  | [.str "rtCancel"] => some (.lab .rtCancel)
  | [.str "rtHungWait"] => some (.lab .rtHungWait)
  | [.str "rtStopHung"] => some (.lab .rtStopHung)
  | [.str "rtCStopHung"] => some (.lab .rtCStopHung)
  | [.str "rtExit", .str r] => (resOf? r).map (fun r => .lab (.rtExit r))
  | [.str "end"] => some .end
  | _ => none

def tsName : TS → String
  | .absent => "absent" | .waitingFlag => "waitingFlag" | .running => "running"
  | .stopping f _ => if f then "stopping-fail" else "stopping"
  | .failed => "failed" | .cancelled => "cancelled" | .done => "done"

def scName : Sc → String
  | .init => "init" | .startup => "startup" | .startupOk => "startupOk" | .flagged => "flagged"
  | .sleeping => "sleeping" | .waitRoots => "waitRoots" | .stopCore _ => "stopCore"
  | .coreStopping _ => "coreStopping" | .cleanup _ => "cleanup" | .closing => "closing" | .over _ => "over"

def rtName : Rt → String
  | .waiting => "waiting" | .stoppingRoots => "stoppingRoots" | .hungWait _ => "hungWait"
  | .stoppingHung => "stoppingHung" | .cStoppingRoots => "cStoppingRoots" | .cStoppingHung => "cStoppingHung"
  | .exited => "exited"

def resName : Res → String
  | .returned => "returned" | .raised => "raised" | .cancelled => "cancelled"

def optNat : Option Nat → Json
  | some n => .num n
  | none => .null

def stateJson (cfg : Cfg) (s : State) : Json :=
  Json.mkObj [
    ("now", .num s.now), ("rt", .str (rtName s.rt)), ("sc", .str (scName s.sc)),
    ("started", .bool s.started), ("ready", .bool s.ready), ("acts", .num s.acts),
    ("startupDone", .bool s.startupDone), ("startupFailed", .bool s.startupFailed), ("startupRaised", .bool s.startupRaised),
    ("cleanupBegun", .bool s.cleanupBegun), ("rootFailed", .bool s.rootFailed),
    ("t0", optNat s.t0), ("exitAt", optNat s.exitAt),
    ("result", match s.result with | some r => .str (resName r) | none => .null),
    ("urgent", .bool (urgent cfg s)), ("core", .str (tsName s.core)),
    ("roots", Json.mkObj (Root.all.map (fun r => (rootName r, Json.str (tsName (s.st (.root r))))))),
    ("creq", .arr ((Root.all.filter (fun r => s.creq (.root r))).map (fun r => Json.str (rootName r))).toArray),
    ("subs", .arr ((List.range s.nSubs).map (fun i => Json.str (tsName (s.st (.sub i))))).toArray),
    ("liveWorkers", .arr (((List.range s.nWorkers).filter (workerLive s)).map (fun (w : Nat) => Json.num w)).toArray),
    ("runningDaemons", .arr (((List.range s.nDaemons).filter (fun d => s.dm d == .running)).map (fun (d : Nat) => Json.num d)).toArray),
    ("waiter", .bool s.waiter), ("orphans", .num s.orphans), ("killed", .bool s.killed), ("killerCut", .bool s.killerCut),
    ("orchPing", .bool s.orchPing), ("orchErr", .bool s.orchErr),
    ("subKinds", .arr ((List.range s.nSubs).map (fun i => Json.str (match s.kind i with
        | .watcher => "watcher" | .peerWatcher => "peerWatcher" | .pinger => "pinger"))).toArray),
    ("subCreq", .arr (((List.range s.nSubs).filter (fun i => s.creq (.sub i))).map (fun (i : Nat) => Json.num i)).toArray)]

def reject (cfg : Cfg) (i : Nat) (reason : String) (lab : Json) (s : State) : Json :=
  ok (Json.mkObj [("accepted", .bool false), ("index", .num i), ("reason", .str reason),
                  ("label", lab), ("state", stateJson cfg s)])

def applyObs (cfg : Cfg) (s : State) : Obs → Except String State
  | .end => .ok s
  | .lab l => match step cfg s l with
    | some s' => .ok s'
    | none => .error "label-not-enabled"
  | .subSpawnAs i k =>
    if s.nSubs ≠ i then .error "sub-index-differs"
    else match step cfg s (.subSpawn k) with
      | some s' => .ok s'
      | none => .error "label-not-enabled"
  | .workerStartAs w o =>
    if s.nWorkers ≠ w then .error "worker-index-differs"
    else match step cfg s (.workerStart o) with
      | some s' => .ok s'
      | none => .error "label-not-enabled"
  | .daemonSpawnAs d c =>
    if s.nDaemons ≠ d then .error "daemon-index-differs"
    else match step cfg s (.daemonSpawn c) with
      | some s' => .ok s'
      | none => .error "label-not-enabled"

def replay (cfg : Cfg) (s : State) (i : Nat) : List Json → Option Json
  | [] => some (ok (Json.mkObj [("accepted", .bool true), ("n", .num i), ("truncated", .bool s.abandoned), ("final", stateJson cfg s)]))
  | entry :: rest => do
    -- the run has left the model (historical variants: `orchAbandon` C20-F8, `spawnCancel` C20-F10, `stopCancel` C20-F11; the current
    -- tree: `orchCrash`, the orchestrator's own failure, open finding C20-F12): the
    -- model does not describe the code any further; the comparison stops here and says so
    if s.abandoned then
      some (ok (Json.mkObj [("accepted", .bool true), ("n", .num i), ("truncated", .bool true), ("final", stateJson cfg s)]))
    else
    match ← jArr? entry with
    | tj :: lab =>
      let t ← jNat? tj
      let o ← obsOf? lab
      if t < s.now then some (reject cfg i "time-goes-back" entry s)
      else
        let s1? : Except String State :=
          if t = s.now then .ok s
          else match stepC cfg s (.delay (t - s.now)) with    -- the real code must be cooperative (`coopDelay`)
            | some s1 => .ok s1
            | none => .error "time-passes-while-an-instantaneous-step-is-pending-or-a-deadline-is-overrun"
        match s1? with
        | .error r => some (reject cfg i r entry s)
        | .ok s1 =>
          match applyObs cfg s1 o with
          | .error r => some (reject cfg i r entry s1)
          | .ok s2 => replay cfg s2 (i + 1) rest
    | _ => none

def cfgOf? (j : Json) : Option Cfg := do
  let fixed ← jBool? (← jField? j "fixed")
  let cw ← jBool? (← jField? j "coreWatched")
  let sh ← jBool? (← jField? j "orchShielded")
  let sp ← jBool? (← jField? j "spawnSwept")
  let ss ← jBool? (← jField? j "stopSwept")
  let de ← jBool? (← jField? j "deplEscalates")
  let os ← jBool? (← jField? j "orchSwept")
  let e ← jNat? (← jField? j "E")
  let w ← jNat? (← jField? j "W")
  let d ← jNat? (← jField? j "D")
  let c ← jNat? (← jField? j "C")
  let h ← jNat? (← jField? j "H")
  pure { fixed := fixed, coreWatched := cw, orchShielded := sh, spawnSwept := sp, stopSwept := ss, deplEscalates := de, orchSwept := os, E := e, W := w, D := d, C := c, H := h }

def handle : DrvHandler := fun op args =>
  match op, args with
  | "C20.trace", [cfg, labels] => do
      let cfg ← cfgOf? cfg
      replay cfg init 0 (← jArr? labels)
  | _, _ => none

end Kopf.Drv.C20
