import Kopf.Drv.Json
import Kopf.Model.C19_Watch
import Kopf.Model.C19_Ensemble
import Kopf.Model.C19_Insights
import Kopf.Model.C19_Orchestrator
import Kopf.Model.C19_Resources
import Kopf.Model.C19_Discovery
open Lean
namespace Kopf.Drv.C19
open Kopf.C19

def kindOf? : String → Option Kind
  | "ADDED" => some .added | "MODIFIED" => some .modified | "DELETED" => some .deleted | _ => none

def kindStr : Kind → String
  | .added => "ADDED" | .modified => "MODIFIED" | .deleted => "DELETED"

def reqFailOf? : String → Option ReqFail
  | "conn" => some .conn | "timeout" => some .timeout | "tooMany" => some .tooMany | "fatal" => some .fatal
  | _ => none

def dropOf? : String → Option Drop
  | "eof" => some .eof | "conn" => some .conn | "serverTimeout" => some .serverTimeout
  | "clientTimeout" => some .clientTimeout | "inactive" => some .inactive | _ => none

/-- An act is a JSON array `[name, args…]`. -/
def actOf? (j : Json) : Option Act := do
  let xs ← jArr? j
  match xs with
  | [.str "change", k, kind, vis] => some (.change (← jNat? k) (← jStr? kind >>= kindOf?) (← jBool? vis))
  | [.str "compact", u] => some (.compact (← jNat? u))
  | [.str "setHttp410", b] => some (.setHttp410 (← jBool? b))
  | [.str "pause"] => some .pause
  | [.str "resume"] => some .resume
  | [.str "notice"] => some .notice
  | [.str "unblock"] => some .unblock
  | [.str "wake"] => some .wake
  | [.str "respond"] => some .respond
  | [.str "failReq", k] => some (.failReq (← jStr? k >>= reqFailOf?))
  | [.str "retry"] => some .retry
  | [.str "deliver"] => some .deliver
  | [.str "bookmark", b] => some (.bookmark (← jNat? b))
  | [.str "drop", d] => some (.drop (← jStr? d >>= dropOf?))
  | [.str "err410"] => some .err410
  | [.str "errUnknown"] => some .errUnknown
  | [.str "unknownType"] => some .unknownType
  | [.str "garbage"] => some .garbage
  | _ => none

def raiseStr : RaiseKind → String
  | .unknownError => "unknownError" | .fatal => "fatal" | .garbage => "garbage"

def outJ : Out → Json
  | .item k rv => .arr #[.str "item", .num (k : Int), .num (rv : Int)]
  | .listed rv => .arr #[.str "listed", .num (rv : Int)]
  | .event kind k rv => .arr #[.str "event", .str (kindStr kind), .num (k : Int), .num (rv : Int)]
  | .bookmark rv => .arr #[.str "bookmark", .num (rv : Int)]
  | .reqList => .arr #[.str "reqList"]
  | .reqWatch v => .arr #[.str "reqWatch", .num (v : Int)]
  | .retryList => .arr #[.str "retryList"]
  | .retryWatch v => .arr #[.str "retryWatch", .num (v : Int)]
  | .raised k => .arr #[.str "raised", .str (raiseStr k)]

def phaseStr : Phase → String
  | .listing => "listing" | .connecting => "connecting" | .streaming => "streaming"
  | .backoff => "backoff" | .blocked => "blocked" | .failed => "failed"

/-- Run a script act by act; per act: the observations it added (oldest first). -/
def runSteps (w : World) : List Act → World × List (List Out)
  | [] => (w, [])
  | a :: as =>
      let w' := step w a
      let new := (w'.outs.take (w'.outs.length - w.outs.length)).reverse
      let (wf, rest) := runSteps w' as
      (wf, new :: rest)

open Kopf.C19.Ens in
def resOf? (j : Json) : Option Res := do
  some ⟨← jStr? (← jField? j "name"), ← jBool? (← jField? j "namespaced")⟩

open Kopf.C19.Ens in
def insightsOf? (j : Json) : Option Insights := do
  let ws ← (← jArr? (← jField? j "watched")).mapM resOf?
  let ns ← (← jArr? (← jField? j "namespaces")).mapM (jOpt? jStr?)
  some ⟨ws, ns⟩

open Kopf.C19.Ens in
def keyJ (k : Key) : Json :=
  .arr #[.str k.1, match k.2 with | some n => .str n | none => .null]

open Kopf.C19.Ens in
def keyOf? (j : Json) : Option Key := do
  match ← jArr? j with
  | [n, ns] => some (← jStr? n, ← jOpt? jStr? ns)
  | _ => none

open Kopf.C19.Ens in
/-- a step is an insights object, or `{"die": [[name, ns], …]}`: those tasks exit on their own -/
def stepOf? (j : Json) : Option (List Ev) :=
  match jField? j "die" with
  | some ks => do
      let keys ← (← jArr? ks).mapM keyOf?
      some (keys.map Ev.die)
  | none => do
      let ins ← insightsOf? j
      some [Ev.pass ins]

open Kopf.C19.Ens in
/-- After every `adjust_tasks`: the watcher keys, each with "is this task new in this step". -/
def histSteps (e : Ensemble) : List Ev → List Json
  | [] => []
  | .die k :: rest => histSteps (kill e k) rest
  | .pass ins :: rest =>
      let e' := adjust e ins
      let row := e'.watchers.map (fun t => Json.arr #[keyJ t.1, .bool (decide (e.next ≤ t.2))])
      Json.arr row.toArray :: histSteps e' rest

/-- what the namespace observer's consumer was fed: `[type | null, key]`; null = a listed item -/
def feedOf? (j : Json) (i : Nat) : Option Out := do
  match ← jArr? j with
  | [.null, k] => some (.item (← jNat? k) i)
  | [.str t, k] => some (.event (← kindOf? t) (← jNat? k) i)
  | _ => none

/-- after every fed item: the keys of the universe that `evView` serves -/
def nsFold (base : List Nat) (univ : List Nat) : List Out → List Out → List (List Nat)
  | _, [] => []
  | past, o :: rest =>
      let outs := o :: past
      univ.filter (fun k => (evView (fun k => if base.contains k then some 0 else none) outs k).isSome)
        :: nsFold base univ outs rest

def markOf? : String → Option NsMark
  | "live" => some .live | "blocked" => some .blocked | "finishing" => some .finishing | "odd" => some .odd | _ => none

/-- a fed item with the reading of its body and the patterns' verdict on its name: `[type | null, key, mark, matched]`;
    null = a listed item of the stream (ignored by `process_discovered_namespace_event`) -/
def nsEvOf? (j : Json) : Option (Option NsEv) := do
  match ← jArr? j with
  | [.null, _, _, _] => some none
  | [.str t, k, m, ok] => some (some ⟨t == "DELETED", ← (jStr? m >>= markOf?), ← jNat? k, ← jBool? ok⟩)
  | _ => none

/-- the observer's own listing: `[key, mark, matched]` per body, through `revise_namespaces(raw_bodies=…)` -/
def nsBaseOf? (j : Json) : Option NsEv := do
  match ← jArr? j with
  | [k, m, ok] => some ⟨false, ← (jStr? m >>= markOf?), ← jNat? k, ← jBool? ok⟩
  | _ => none

/-- after every fed item: the served keys (sorted) -/
def nsRevise (served : List Nat) : List (Option NsEv) → List (List Nat)
  | [] => []
  | none :: rest => served :: nsRevise served rest
  | some e :: rest => let s' := reviseNs served e; s' :: nsRevise s' rest

def sortNat (xs : List Nat) : List Nat := (xs.toArray.qsort (· < ·)).toList

/-- a watched resource: `[id, core, list, watch, patch]` -/
def rscOf? (j : Json) : Option Kopf.C19.Rsc.Res := do
  match ← jArr? j with
  | [i, c, l, w, p] => some ⟨← jNat? i, ← jBool? c, ← jBool? l, ← jBool? w, ← jBool? p⟩
  | _ => none

def hkindOf? : String → Option Kopf.C19.Rsc.HKind
  | "indexing" => some .indexing | "watching" => some .watching | "spawning" => some .spawning
  | "changing" => some .changing | _ => none

/-- a handler: `[kind, is_specific, [ids of the resources its selector's check accepts]]` -/
def handlerOf? (j : Json) : Option Kopf.C19.Rsc.Handler := do
  match ← jArr? j with
  | [k, sp, ids] =>
      let ids ← (← jArr? ids).mapM jNat?
      some ⟨← (jStr? k >>= hkindOf?), ⟨← jBool? sp, fun r => ids.contains r.id⟩⟩
  | _ => none

open Kopf.C19.Ens in
/-- an orchestrator label: ["revise", insights] | ["acquire"] | ["termDone"] | ["spawnAll"] | ["die", [name, ns]] -/
def labelOf? (j : Json) : Option Kopf.C19.Orch.Label := do
  match ← jArr? j with
  | [.str "revise", ins] => some (.revise (← insightsOf? ins))
  | [.str "acquire"] => some .acquire
  | [.str "termDone"] => some .termDone
  | [.str "spawnAll"] => some .spawnAll
  | [.str "die", k] => some (.die (← keyOf? k))
  | _ => none

open Kopf.C19.Ens in
/-- replay a trace of the real orchestrator; after every label: is it enabled, and the ensemble's keys -/
def orchReplay (s : Kopf.C19.Orch.State) : List Kopf.C19.Orch.Label → List Json
  | [] => []
  | l :: rest =>
      match Kopf.C19.Orch.step s l with
      | none => [Json.str "disabled"]
      | some s' => Json.arr (s'.ens.keys.map keyJ).toArray :: orchReplay s' rest

/-- where the model's orchestrator is after a whole trace: "waiting" | "notified" | "stopping" | "spawning" | "disabled" -/
def orchEnd (s : Kopf.C19.Orch.State) : List Kopf.C19.Orch.Label → String
  | [] => match s.pc with
      | .waiting => "waiting" | .notified => "notified" | .stopping => "stopping" | .spawning => "spawning"
  | l :: rest =>
      match Kopf.C19.Orch.step s l with
      | none => "disabled"
      | some s' => orchEnd s' rest

def crdItemOf? (j : Json) : Option Kopf.C19.Disc.Item := do
  match ← jArr? j with
  | [.str t, n, g, grp, found] =>
      let ty ← (match t with
        | "LISTED" => some Kopf.C19.Disc.Ty.listed | "ADDED" => some .added
        | "MODIFIED" => some .modified | "DELETED" => some .deleted | _ => none)
      some ⟨ty, ← jNat? n, ← jNat? g, ← jNat? grp, ← (← jArr? found).mapM jNat?⟩
  | _ => none

def pairOf? (j : Json) : Option (Nat × Nat) := do
  match ← jArr? j with
  | [a, b] => some (← jNat? a, ← jNat? b)
  | _ => none

def crdFold (w : Kopf.C19.Disc.Watched) : List Kopf.C19.Disc.Item → List Kopf.C19.Disc.Watched
  | [] => []
  | it :: its => let w' := Kopf.C19.Disc.step w it; w' :: crdFold w' its


def handle : DrvHandler := fun op args =>
  match op, args with
  | "C19.orchEnd", [labels] => do
      let ls ← (← jArr? labels).mapM labelOf?
      some (ok (.str (orchEnd (Kopf.C19.Orch.init true) ls)))
  | "C19.orch", [labels] => do
      let ls ← (← jArr? labels).mapM labelOf?
      some (ok (.arr (orchReplay (Kopf.C19.Orch.init true) ls).toArray))
  | "C19.crdfold", [watched0, items] => do
      let w0 ← (← jArr? watched0).mapM pairOf?
      let its ← (← jArr? items).mapM crdItemOf?
      some (ok (.arr ((crdFold w0 its).map (fun w => Json.arr (w.map (fun (p : Nat × Nat) =>
        Json.arr #[Json.num ((p.1 : Nat) : Int), Json.num ((p.2 : Nat) : Int)])).toArray)).toArray))
  | "C19.nsfold", [base, feed, univ] => do
      let b ← (← jArr? base).mapM jNat?
      let u ← (← jArr? univ).mapM jNat?
      let fs ← jArr? feed
      let outs ← (fs.zipIdx).mapM (fun (j, i) => feedOf? j (i + 1))
      some (ok (.arr ((nsFold b u [] outs).map (fun ks => Json.arr (ks.map (fun (k : Nat) => Json.num ((k : Nat) : Int))).toArray)).toArray))
  | "C19.nsrevise", [served0, base, feed] => do
      let s0 ← (← jArr? served0).mapM jNat?
      let b ← (← jArr? base).mapM nsBaseOf?
      let fs ← (← jArr? feed).mapM nsEvOf?
      let first := reviseAll s0 b
      let rows := first :: nsRevise first fs
      some (ok (.arr (rows.map (fun ks => Json.arr ((sortNat ks).map (fun (k : Nat) => Json.num ((k : Nat) : Int))).toArray)).toArray))
  | "C19.served", [resources, handlers] => do
      let rs ← (← jArr? resources).mapM rscOf?
      let hs ← (← jArr? handlers).mapM handlerOf?
      let out := Kopf.C19.Rsc.servedOf Kopf.C19.Rsc.patchKinds rs hs
      some (ok (.arr ((sortNat (out.map (·.id))).map (fun (k : Nat) => Json.num ((k : Nat) : Int))).toArray))
  | "C19.run", [srv0, acts] => do
      let s0 ← jNat? srv0
      let as ← (← jArr? acts).mapM actOf?
      let w0 : World := { init with srv := s0 }
      let (w, per) := runSteps w0 as
      some (ok (Json.mkObj [
        ("outs", .arr (per.map (fun os => Json.arr (os.map outJ).toArray)).toArray),
        ("phase", .str (phaseStr w.phase)),
        ("since", .num (w.since : Int)),
        ("srv", .num (w.srv : Int)),
        ("horizon", .num (w.horizon : Int)),
        ("paused", .bool w.paused),
        ("pauseSeen", .bool w.pauseSeen)]))
  | "C19.adjust", [hist] => do
      let h ← (← jArr? hist).mapM stepOf?
      some (ok (.arr (histSteps Ens.empty h.flatten).toArray))
  | _, _ => none

end Kopf.Drv.C19
