import Kopf.Drv.Json
import Kopf.Model.C02_Cycle
import Kopf.Model.C02_Nested
open Lean
namespace Kopf.Drv.C02
open Kopf.C02

def recOf? (j : Json) : Option Rec := do
  let started ← jInt? (← jField? j "started")
  let delayed ← jOpt? jInt? (← jField? j "delayed")
  let purpose ← jOpt? jStr? (← jField? j "purpose")
  let retries ← jNat? (← jField? j "retries")
  let success ← jBool? (← jField? j "success")
  let failure ← jBool? (← jField? j "failure")
  let subrefs ← jStrList? (← jField? j "subrefs")
  some { started, delayed, purpose, retries, success, failure, subrefs }

def recJson (r : Rec) : Json :=
  Json.mkObj [("started", .num (JsonNumber.fromInt r.started)),
    ("delayed", match r.delayed with | some d => .num (JsonNumber.fromInt d) | none => .null),
    ("purpose", match r.purpose with | some p => .str p | none => .null),
    ("retries", .num (JsonNumber.fromNat r.retries)),
    ("success", .bool r.success), ("failure", .bool r.failure),
    ("subrefs", .arr (r.subrefs.map Json.str).toArray)]

def outcomeOf? (j : Json) : Option Outcome := do
  let final ← jBool? (← jField? j "final")
  let delay ← jOpt? jInt? (← jField? j "delay")
  let error ← jBool? (← jField? j "error")
  let subrefs ← jStrList? (← jField? j "subrefs")
  some { final, delay, error, subrefs }

def objPairs? (j : Json) : Option (List (String × Json)) :=
  match j with
  | .obj kvs => some kvs.toList
  | _ => none

def lifecycleOf? : String → Option Lifecycle
  | "all_at_once" => some .allAtOnce
  | "one_by_one" => some .oneByOne
  | "asap" => some .asap
  | _ => none

def limitsOf? (j : Json) : Option Limits := do
  match ← jArr? j with
  | [t, r] => some { timeout := ← jOpt? jInt? t, retries := ← jOpt? jNat? r }
  | _ => none

def lookupD {α} (l : List (String × α)) (k : String) : Option α :=
  (l.find? (·.1 == k)).map (·.2)

def handle : DrvHandler := fun op args =>
  match op, args with
  | "C02.cycle", [j] => do
      let owned ← jStrList? (← jField? j "owned")
      let selected ← jStrList? (← jField? j "selected")
      let reason ← jStr? (← jField? j "reason")
      let lifecycle ← jStr? (← jField? j "lifecycle") >>= lifecycleOf?
      let limitsL ← (← objPairs? (← jField? j "limits")).mapM (fun (k, v) => do pure (k, ← limitsOf? v))
      let pL ← (← objPairs? (← jField? j "P")).filterMapM (fun (k, v) =>
        match v with
        | .null => some none
        | v => do let r ← recOf? v; pure (some (k, r)))
      let oL ← (← objPairs? (← jField? j "outcomes")).mapM (fun (k, v) => do pure (k, ← outcomeOf? v))
      let now ← jInt? (← jField? j "now")
      let now1 ← jInt? (← jField? j "now1")
      let univ ← jStrList? (← jField? j "universe")
      let cfg : Cfg := { owned, selected, reason, lifecycle,
                         limits := fun i => (lookupD limitsL i).getD { timeout := none, retries := none } }
      let P : Store := lookupD pL
      -- an invoked handler without a recorded outcome is a protocol error, reported as such
      let missing : Outcome := { final := false, delay := some (-1), error := true, subrefs := ["<no-outcome>"] }
      let exec : Id → Nat → Outcome := fun i _ => (lookupD oL i).getD missing
      -- the selected handlers that have a reason of their own (`handler.reason is not None`); absent = none of them
      let boundL ← match j.getObjVal? "bound" with
        | .ok v => jStrList? v
        | .error _ => some []
      let c := cycleB cfg (fun i => boundL.contains i) P now now1 exec
      -- the resumed filter (optional: `raw` = the registry's selection, `initial` = its resuming handlers,
      -- `resumed` = memory.resumed_handlers before the pass)
      let optList (k : String) : Option (List String) := match j.getObjVal? k with
        | .ok v => jStrList? v
        | .error _ => some []
      let rawL ← optList "raw"
      let initialL ← optList "initial"
      let resumedL ← optList "resumed"
      let initial : Id → Bool := fun i => initialL.contains i
      let selR := selectResumed rawL initial resumedL
      let resA := resumedAfter initial resumedL (cycleFinalsB cfg (fun i => boundL.contains i) P now exec) c.closed
      some (ok (Json.mkObj [
        ("invoked", .arr (c.invoked.map (fun (i, n) => Json.arr #[.str i, .num (JsonNumber.fromNat n)])).toArray),
        ("P", Json.mkObj (univ.map (fun i => (i, match c.P' i with | some r => recJson r | none => .null)))),
        ("closed", .bool c.closed),
        ("delays", .arr (c.delays.map (fun d => Json.num (JsonNumber.fromInt d))).toArray),
        ("selectedR", .arr (selR.map Json.str).toArray),
        ("resumedAfter", .arr (resA.map Json.str).toArray)]))
  | "C02.subpass", [j] => do
      let owned ← jStrList? (← jField? j "owned")
      let selected ← jStrList? (← jField? j "selected")
      let reason ← jStr? (← jField? j "reason")
      let lifecycle ← jStr? (← jField? j "lifecycle") >>= lifecycleOf?
      let limitsL ← (← objPairs? (← jField? j "limits")).mapM (fun (k, v) => do pure (k, ← limitsOf? v))
      let pL ← (← objPairs? (← jField? j "P")).filterMapM (fun (k, v) =>
        match v with
        | .null => some none
        | v => do let r ← recOf? v; pure (some (k, r)))
      let oL ← (← objPairs? (← jField? j "outcomes")).mapM (fun (k, v) => do pure (k, ← outcomeOf? v))
      let now ← jInt? (← jField? j "now")
      let now1 ← jInt? (← jField? j "now1")
      let univ ← jStrList? (← jField? j "universe")
      let cfg : Cfg := { owned, selected, reason, lifecycle,
                         limits := fun i => (lookupD limitsL i).getD { timeout := none, retries := none } }
      let P : Store := lookupD pL
      let missing : Outcome := { final := false, delay := some (-1), error := true, subrefs := ["<no-outcome>"] }
      let exec : Id → Nat → Outcome := fun i _ => (lookupD oL i).getD missing
      let c := subPassN cfg P now now1 exec
      some (ok (Json.mkObj [
        ("invoked", .arr (c.invoked.map (fun (i, n) => Json.arr #[.str i, .num (JsonNumber.fromNat n)])).toArray),
        ("P", Json.mkObj (univ.map (fun i => (i, match c.P' i with | some r => recJson r | none => .null)))),
        ("final", .bool c.outcome.final),
        ("error", .bool c.outcome.error),
        ("delay", match c.outcome.delay with | some d => Json.num (JsonNumber.fromInt d) | none => .null),
        ("subrefs", .arr (c.outcome.subrefs.map Json.str).toArray)]))
  | "C02.cycle2", [j] => do
      let owned ← jStrList? (← jField? j "owned")
      let selected ← jStrList? (← jField? j "selected")
      let reason ← jStr? (← jField? j "reason")
      let lifecycle ← jStr? (← jField? j "lifecycle") >>= lifecycleOf?
      let limitsL ← (← objPairs? (← jField? j "limits")).mapM (fun (k, v) => do pure (k, ← limitsOf? v))
      let childrenL ← (← objPairs? (← jField? j "children")).mapM (fun (k, v) => do pure (k, ← jStrList? v))
      let pL ← (← objPairs? (← jField? j "P")).filterMapM (fun (k, v) =>
        match v with
        | .null => some none
        | v => do let r ← recOf? v; pure (some (k, r)))
      let oL ← (← objPairs? (← jField? j "outcomes")).mapM (fun (k, v) => do pure (k, ← outcomeOf? v))
      let now ← jInt? (← jField? j "now")
      let univ ← jStrList? (← jField? j "universe")
      let cfg : Cfg := { owned, selected, reason, lifecycle,
                         limits := fun i => (lookupD limitsL i).getD { timeout := none, retries := none } }
      let sub : SubReg := { children := fun i => (lookupD childrenL i).getD [],
                            limits := fun _ => { timeout := none, retries := none } }
      let P : Store := lookupD pL
      let missing : Outcome := { final := false, delay := some (-1), error := true, subrefs := ["<no-outcome>"] }
      let exec : Id → Nat → Outcome := fun i _ => (lookupD oL i).getD missing
      let boundL ← match j.getObjVal? "bound" with
        | .ok v => jStrList? v
        | .error _ => some []
      let c := cycle2B cfg (fun i => boundL.contains i) sub P now exec
      some (ok (Json.mkObj [
        ("invoked", .arr (c.invoked.map (fun (i, n) => Json.arr #[.str i, .num (JsonNumber.fromNat n)])).toArray),
        ("subInvoked", .arr (c.subInvoked.map (fun (i, n) => Json.arr #[.str i, .num (JsonNumber.fromNat n)])).toArray),
        ("P", Json.mkObj (univ.map (fun i => (i, match c.P' i with | some r => recJson r | none => .null)))),
        ("closed", .bool c.closed)]))
  | "C02.subcfg", [j] => do
      -- the selection side of a sub-registry as the model has it: `subCfgOf` of the parent's cause
      let parent ← jStr? (← jField? j "parent")
      let reason ← jStr? (← jField? j "reason")
      let lifecycle ← jStr? (← jField? j "lifecycle") >>= lifecycleOf?
      let childrenL ← (← objPairs? (← jField? j "children")).mapM (fun (k, v) => do pure (k, ← jStrList? v))
      let cfg : Cfg := { owned := [parent], selected := [parent], reason, lifecycle,
                         limits := fun _ => { timeout := none, retries := none } }
      let sub : SubReg := { children := fun i => (lookupD childrenL i).getD [],
                            limits := fun _ => { timeout := none, retries := none } }
      let c := subCfgOf cfg sub parent
      some (ok (Json.mkObj [
        ("selected", .arr (c.selected.map Json.str).toArray),
        ("owned", .arr (c.owned.map Json.str).toArray),
        ("reason", .str c.reason)]))
  | _, _ => none

end Kopf.Drv.C02
