import Kopf.Drv.Json
import Kopf.Model.C15_Match
import Kopf.Model.C15_Selector
open Lean
namespace Kopf.Drv.C15
open Kopf.C15

/-- cause reasons by name (own copy: this driver depends on no other property's driver file) -/
def reasonOf? : String → Option Kopf.C05.Reason
  | "create" => some .create | "update" => some .update | "delete" => some .delete
  | "resume" => some .resume | "noop" => some .noop | "free" => some .free | "gone" => some .gone
  | _ => none

abbrev H := Handler J
abbrev C := Cause J

/-- label/annotation callbacks by name (the harness has the same table in Python) -/
def metaCb? : String → Option (Option String → Bool)
  | "is_x" => some (fun o => o == some "x")
  | "is_y" => some (fun o => o == some "y")
  | "is_none" => some (fun o => o.isNone)
  | "not_none" => some (fun o => o.isSome)
  | "nonempty" => some (fun o => match o with | some s => s != "" | none => false)
  | "true" => some (fun _ => true)
  | "false" => some (fun _ => false)
  | _ => none

/-- field callbacks by name; the argument `none` is the private absent token -/
def fieldCb? : String → Option (Option J → Bool)
  | "is_x" => some (fun o => match o with | some v => J.pyEq v (.str "x") | none => false)
  | "is_y" => some (fun o => match o with | some v => J.pyEq v (.str "y") | none => false)
  | "is_none" => some (fun o => match o with | some .null => true | _ => false)
  | "not_none" => some (fun o => match o with | some .null => false | _ => true)
  | "truthy" => some (fun o => match o with | some v => J.truthy v | none => true)
  | "true" => some (fun _ => true)
  | "false" => some (fun _ => false)
  | _ => none

def mcrit? : Json → Option MCrit
  | .str "P" => some .present
  | .str "A" => some .absent
  | j => match jField? j "v", jField? j "cb" with
    | some (.str v), none => some (.value v)
    | none, some (.str n) => (metaCb? n).map .callback
    | _, _ => none

def vcrit? : Json → Option (VCrit J)
  | .null => some .unset
  | .str "P" => some .present
  | .str "A" => some .absent
  | .str "T" => some (.lit none)
  | j => match jField? j "v", jField? j "cb" with
    | some v, none => do
        let v ← toJ v
        if v.isNull then none else some (.lit (some v))    -- None is `unset`, one representation only
    | none, some (.str n) => (fieldCb? n).map .callback
    | _, _ => none

def pattern? (j : Json) : Option (Option (List (String × MCrit))) :=
  jOpt? (fun j => do
    let xs ← jArr? j
    xs.mapM (fun e => do
      match ← jArr? e with
      | [k, c] => do pure (← jStr? k, ← mcrit? c)
      | _ => none)) j

def handler? (j : Json) : Option H := do
  let fn ← jNat? (← jField? j "fn")
  let func ← jNat? (← jField? j "func")
  let id ← jStr? (← jField? j "id")
  let ch ← jBool? (← jField? j "ch")
  let sel ← jOpt? jBool? (← jField? j "sel")
  let sub ← jBool? (← jField? j "sub")
  let l ← pattern? (← jField? j "l")
  let a ← pattern? (← jField? j "a")
  let w ← jOpt? jBool? (← jField? j "w")
  let f ← jOpt? jStrList? (← jField? j "f")
  let v ← vcrit? (← jField? j "v")
  let o ← vcrit? (← jField? j "o")
  let n ← vcrit? (← jField? j "n")
  let fnc ← jBool? (← jField? j "fnc")
  let rf ← jBool? (← jField? j "rf")
  let r ← jOpt? (fun x => jStr? x >>= reasonOf?) (← jField? j "r")
  let i ← jBool? (← jField? j "i")
  let d ← jBool? (← jField? j "d")
  some { fn := fn, func := func, id := id, changing := ch, selector := sel, subresourceOk := sub, labels := l,
         annotations := a, «when» := w, field := f, value := v, old := o, new := n,
         fieldNeedsChange := fnc, requiresFinalizer := rf,
         kind := { reason := r, initial := i, deletedOptIn := d } }

def strMap? (j : Json) : Option (String → Option String) := do
  match j with
  | .obj kvs =>
      let xs ← kvs.toList.mapM (fun (k, v) => do pure (k, ← jStr? v))
      some (fun k => (xs.find? (·.1 == k)).map (·.2))
  | _ => none

def cause? (j : Json) : Option C := do
  let ch ← jBool? (← jField? j "ch")
  let l ← strMap? (← jField? j "l")
  let a ← strMap? (← jField? j "a")
  let b ← toJ (← jField? j "b")
  let o ← toJ (← jField? j "o")
  let n ← toJ (← jField? j "n")
  let r ← jStr? (← jField? j "r") >>= reasonOf?
  let i ← jBool? (← jField? j "i")
  let m ← jBool? (← jField? j "m")
  -- `dicts.resolve(d, path, absent)`: a missing key or a non-mapping parent gives the token;
  -- `cause.old is None` (JSON null) is `noOld` (and resolves to the token everywhere)
  some { changing := ch, noOld := o.isNull, labels := l, annotations := a, body := b.resolve?, old := o.resolve?,
         new := n.resolve?, kind := { reason := r, initial := i, marked := m } }

def handlers? (j : Json) : Option (List H) := do (← jArr? j).mapM handler?

def idx {α} (xs : List α) : List (Nat × α) := (List.range xs.length).zip xs

/-- positions of the selected handlers: the model's own `dedupBy` and selection test, run on
    position-tagged handlers -/
def selectIdx (changing : Bool) (hs : List H) (c : C) (ex : List String) : List Nat :=
  let test := if changing then selChanging c ex else selPlain c ex
  (dedupBy (fun p => p.2.key) ((idx hs).filter (fun p => test p.2))).map (·.1)

def digit (h : H) (c : C) : Char :=
  match matchHandler h c, prematchHandler h c with
  | false, false => '0' | true, false => '1' | false, true => '2' | true, true => '3'

def strs (xs : List String) : Json := .arr (xs.map Json.str).toArray

def effectJson : Effect → Json
  | .carried => .arr #[.str "carried"]
  | .invokeWatching ids => .arr #[.str "watch", strs ids]
  | .spawn ids => .arr #[.str "spawn", strs ids]
  | .purge ids => .arr #[.str "purge", strs ids]
  | .addFinalizer => .arr #[.str "fin+"]
  | .removeFinalizer => .arr #[.str "fin-"]
  | .handle ids => .arr #[.str "handle", strs ids]
  | .touch => .arr #[.str "touch"]

def record? (j : Json) : Option (String × List String) := do
  match ← jArr? j with
  | [i, subs] => do pure (← jStr? i, ← jStrList? subs)
  | _ => none

def obj? (j : Json) : Option Obj := do
  some { deletedEvent := ← jBool? (← jField? j "deleted"), ongoing := ← jBool? (← jField? j "ongoing"),
         blocked := ← jBool? (← jField? j "blocked"), carried := ← jBool? (← jField? j "carried"),
         carriedOps := ← jBool? (← jField? j "carriedOps"),
         lingering := ← jBool? (← jField? j "lingering"), handlerDelays := ← jBool? (← jField? j "hdelays"),
         resumed := ← jStrList? (← jField? j "resumed"),
         records := ← (← jArr? (← jField? j "records")).mapM record?,
         timed := ← jBool? (← jField? j "timed") }

def resource? (j : Json) : Option Resource := do
  some { group := ← jStr? (← jField? j "group"), version := ← jStr? (← jField? j "version"),
         plural := ← jStr? (← jField? j "plural"), kind := ← jOpt? jStr? (← jField? j "kind"),
         singular := ← jOpt? jStr? (← jField? j "singular"), shortcuts := ← jStrList? (← jField? j "shortcuts"),
         categories := ← jStrList? (← jField? j "categories"), preferred := ← jBool? (← jField? j "preferred") }

def selector? (j : Json) : Option Selector := do
  let any ← match ← jField? j "any" with
    | .null => some none
    | .str "*" => some (some AnyName.everything)
    | x => do pure (some (AnyName.name (← jStr? (← jField? x "n"))))
  let fn ← jOpt? jBool? (← jField? j "fn")
  some { group := ← jOpt? jStr? (← jField? j "group"), version := ← jOpt? jStr? (← jField? j "version"),
         kind := ← jOpt? jStr? (← jField? j "kind"), plural := ← jOpt? jStr? (← jField? j "plural"),
         singular := ← jOpt? jStr? (← jField? j "singular"), shortcut := ← jOpt? jStr? (← jField? j "shortcut"),
         category := ← jOpt? jStr? (← jField? j "category"), anyName := any, fn := fn.map (fun b _ => b) }

def handle : DrvHandler := fun op args =>
  match op, args with
  | "C15.selcheck", [sels, ress] => do
      let sels ← (← jArr? sels).mapM selector?
      let ress ← (← jArr? ress).mapM resource?
      some (ok (.arr (sels.map (fun s =>
        Json.str (String.ofList (ress.map (fun r => if s.check r then '1' else '0'))))).toArray))
  | "C15.route", [sels, hist] => do
      -- one selector instance over a history of discoveries: the outcome at every step
      let sels ← (← jArr? sels).mapM selector?
      let hist ← (← jArr? hist).mapM resource?
      some (ok (.arr (sels.map (fun s =>
        Json.str (String.ofList ((s.route hist).map (fun b => if b then '1' else '0'))))).toArray))
  | "C15.grid", [hs, cs] => do
      let hs ← handlers? hs
      let cs ← (← jArr? cs).mapM cause?
      some (ok (.arr (hs.map (fun h => Json.str (String.ofList (cs.map (digit h))))).toArray))
  | "C15.parts", [h, c] => do
      let h ← handler? h
      let c ← cause? c
      let a := matchAtoms h c
      some (ok (Json.mkObj [("resource", .bool a.resource), ("subresource", .bool a.subresource),
        ("labels", .bool a.labels), ("annotations", .bool a.annotations),
        ("fieldValues", .bool a.fieldValues), ("fieldChanges", .bool a.fieldChanges),
        ("when", .bool a.filterCallback)]))
  | "C15.select", [kind, hs, c, ex] => do
      let changing ← match kind with | .str "changing" => some true | .str "plain" => some false | _ => none
      let hs ← handlers? hs
      let c ← cause? c
      let ex ← jStrList? ex
      some (ok (.arr ((selectIdx changing hs c ex).map (fun (n : Nat) => Json.num n)).toArray))
  | "C15.dedup", [ks] => do
      let ks ← (← jArr? ks).mapM (fun e => do
        match ← jArr? e with
        | [f, i] => do pure ((← jNat? f), (← jStr? i))
        | _ => none)
      some (ok (.arr ((dedupBy (fun p => p.2) (idx ks)).map (fun p => Json.num p.1)).toArray))
  | "C15.reqfin", [kind, hs, c, ex] => do
      let hs ← handlers? hs
      let c ← cause? c
      let ex ← jStrList? ex
      match kind with
      | .str "changing" => some (ok (.bool (requiresFinalizerChanging hs c ex)))
      | .str "spawning" => some (ok (.bool (requiresFinalizerSpawning hs c ex)))
      | _ => none
  | "C15.prematchAny", [hs, c] => do
      let hs ← handlers? hs
      let c ← cause? c
      some (ok (.bool (prematchAny hs c)))
  | "C15.cycle", [w, s, ch, cw, cs, cc, o, stopped, v] => do
      let r : Registry J := { watching := ← handlers? w, spawning := ← handlers? s, changing := ← handlers? ch }
      let cs : Causes J := { watching := ← cause? cw, spawning := ← cause? cs, changing := ← cause? cc }
      let o ← obj? o
      let stopped ← jStrList? stopped
      -- which variant of processing.py the harness found in the code under test (checked by Kopf.Tie.C15)
      let v : Repairs ← match ← jArr? v with
        | [a, b, c, d] => do pure ⟨← jBool? a, ← jBool? b, ← jBool? c, ← jBool? d⟩
        | _ => none
      -- the effects, and last whether `delays` (what `application.apply` is given) is non-empty
      some (ok (.arr (((cycleAt v r cs o stopped).map effectJson) ++
        [Json.arr #[.str "delays", .bool (cycleDelaysAt v r cs o stopped)]]).toArray))
  | _, _ => none

end Kopf.Drv.C15
