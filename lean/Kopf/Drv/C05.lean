import Kopf.Drv.Json
import Kopf.Model.C05_Cause
open Lean
namespace Kopf.Drv.C05
open Kopf.C05

def reasonStr : Reason → String
  | .create => "create" | .update => "update" | .delete => "delete" | .resume => "resume"
  | .noop => "noop" | .free => "free" | .gone => "gone"

def reasonOf? : String → Option Reason
  | "create" => some .create | "update" => some .update | "delete" => some .delete
  | "resume" => some .resume | "noop" => some .noop | "free" => some .free | "gone" => some .gone
  | _ => none

def inOf? (j : Json) : Option In := do
  let xs ← jArr? j
  match ← xs.mapM jBool? with
  | [d, m, b, o, df, ini] => some ⟨d, m, b, o, df, ini⟩
  | _ => none

def handlerOf? (j : Json) : Option Handler := do
  let r ← jOpt? (fun x => jStr? x >>= reasonOf?) (← jField? j "reason")
  let i ← jBool? (← jField? j "initial")
  let d ← jBool? (← jField? j "deleted")
  some ⟨r, i, d⟩

/-- the general shape (sub-handlers included): all four keys are required -/
def shapeOf? (j : Json) : Option Shape := do
  let r ← jOpt? (fun x => jStr? x >>= reasonOf?) (← jField? j "reason")
  let i ← jBool? (← jField? j "initial")
  let d ← jBool? (← jField? j "deleted")
  let n ← jBool? (← jField? j "needs_change")
  some ⟨r, i, d, n⟩

def causeOf? (j : Json) : Option Cause := do
  let r ← jStr? (← jField? j "reason") >>= reasonOf?
  let i ← jBool? (← jField? j "initial")
  let m ← jBool? (← jField? j "marked")
  some ⟨r, i, m⟩

def handle : DrvHandler := fun op args =>
  match op, args with
  | "C05.detect", [i] => do
      let i ← inOf? i
      let c := detect i
      some (ok (Json.mkObj [("reason", .str (reasonStr c.reason)), ("initial", .bool c.initial)]))
  | "C05.gate", [h, c] => do
      let h ← shapeOf? h
      let c ← causeOf? c
      some (ok (.bool (gateS h c)))
  -- the top-level view (three keys; what C14/C03 use) next to the shape it stands for
  | "C05.gateTop", [h, c] => do
      let h ← handlerOf? h
      let c ← causeOf? c
      some (ok (Json.mkObj [("gate", .bool (gate h c)), ("needs_change", .bool h.shape.needsChange)]))
  | "C05.invocable", [h, i] => do
      let h ← shapeOf? h
      let i ← inOf? i
      some (ok (.bool (invocableS h i)))
  | "C05.gateOld", [h, c] => do
      let h ← shapeOf? h
      let c ← causeOf? c
      some (ok (.bool (gateOld h c)))
  | "C05.decorated", [h] => do
      let h ← shapeOf? h
      some (ok (.bool (decorated h)))
  -- ["C05.sub", parent, "inherit"|"plain", In] → the sub-handler's shape and whether it is invocable
  | "C05.sub", [p, how, i] => do
      let p ← shapeOf? p
      let i ← inOf? i
      let s ← match ← jStr? how with
        | "inherit" => some (subOf p)
        | "plain" => some plainSub
        | _ => none
      some (ok (Json.mkObj [("needs_change", .bool s.needsChange), ("parent", .bool (invocableS p i)),
                            ("sub_gate", .bool (gateS s (detect i))), ("sub", .bool (subInvocable p s i))]))
  -- ["C05.subRC", parent, "inherit"|"plain", In, mustBlock] → the same through `process_resource_causes`
  | "C05.subRC", [p, how, i, mb] => do
      let p ← shapeOf? p
      let i ← inOf? i
      let mb ← jBool? mb
      let s ← match ← jStr? how with
        | "inherit" => some (subOf p)
        | "plain" => some plainSub
        | _ => none
      some (ok (Json.mkObj [("needs_change", .bool s.needsChange), ("parent", .bool (invocableRC p i mb)),
                            ("sub_gate", .bool (gateS s (detect i))), ("sub", .bool (subInvocableRC p s i mb)),
                            ("finalizer_cycle", .bool (finalizerCycle i mb))]))
  | _, _ => none

end Kopf.Drv.C05
