import Kopf.Drv.Json
import Kopf.Model.C05_Cause
open Lean
namespace Kopf.Drv.C05
open Kopf.C05

def reasonStr : Reason → String
  | .create => "create" | .update => "update" | .delete => "delete" | .resume => "resume"
  | .noop => "noop" | .free => "free" | .gone => "gone"

def reasonOf? : String → Option Reason
  | "create" => some .create | "update" => some .update | "delete" => some .delete
  | "resume" => some .resume | "noop" => some .noop | "free" => some .free | "gone" => some .gone
  | _ => none

def inOf? (j : Json) : Option In := do
  let xs ← jArr? j
  match ← xs.mapM jBool? with
  | [d, m, b, o, df, ini] => some ⟨d, m, b, o, df, ini⟩
  | _ => none

def handlerOf? (j : Json) : Option Handler := do
  let r ← jOpt? (fun x => jStr? x >>= reasonOf?) (← jField? j "reason")
  let i ← jBool? (← jField? j "initial")
  let d ← jBool? (← jField? j "deleted")
  some ⟨r, i, d⟩

def causeOf? (j : Json) : Option Cause := do
  let r ← jStr? (← jField? j "reason") >>= reasonOf?
  let i ← jBool? (← jField? j "initial")
  let m ← jBool? (← jField? j "marked")
  some ⟨r, i, m⟩

def handle : DrvHandler := fun op args =>
  match op, args with
  | "C05.detect", [i] => do
      let i ← inOf? i
      let c := detect i
      some (ok (Json.mkObj [("reason", .str (reasonStr c.reason)), ("initial", .bool c.initial)]))
  | "C05.gate", [h, c] => do
      let h ← handlerOf? h
      let c ← causeOf? c
      some (ok (.bool (gate h c)))
  | "C05.invocable", [h, i] => do
      let h ← handlerOf? h
      let i ← inOf? i
      some (ok (.bool (invocable h i)))
  | _, _ => none

end Kopf.Drv.C05
