import Kopf.Drv.Json
import Kopf.Model.C05_Cause
import Kopf.Model.C05_Record
open Lean
namespace Kopf.Drv.C05
open Kopf.C05

def reasonStr : Reason → String
  | .create => "create" | .update => "update" | .delete => "delete" | .resume => "resume"
  | .noop => "noop" | .free => "free" | .gone => "gone"

def reasonOf? : String → Option Reason
  | "create" => some .create | "update" => some .update | "delete" => some .delete
  | "resume" => some .resume | "noop" => some .noop | "free" => some .free | "gone" => some .gone
  | _ => none

def inOf? (j : Json) : Option In := do
  let xs ← jArr? j
  match ← xs.mapM jBool? with
  | [d, m, b, o, df, ini] => some ⟨d, m, b, o, df, ini⟩
  | _ => none

def handlerOf? (j : Json) : Option Handler := do
  let r ← jOpt? (fun x => jStr? x >>= reasonOf?) (← jField? j "reason")
  let i ← jBool? (← jField? j "initial")
  let d ← jBool? (← jField? j "deleted")
  some ⟨r, i, d⟩

/-- the general shape (sub-handlers included): all four keys are required -/
def shapeOf? (j : Json) : Option Shape := do
  let r ← jOpt? (fun x => jStr? x >>= reasonOf?) (← jField? j "reason")
  let i ← jBool? (← jField? j "initial")
  let d ← jBool? (← jField? j "deleted")
  let n ← jBool? (← jField? j "needs_change")
  some ⟨r, i, d, n⟩

def causeOf? (j : Json) : Option Cause := do
  let r ← jStr? (← jField? j "reason") >>= reasonOf?
  let i ← jBool? (← jField? j "initial")
  let m ← jBool? (← jField? j "marked")
  some ⟨r, i, m⟩

/-- `{"kind": str, "owners": [str], "annotations": [[key, nat | null]], "status": nat | null}`: the records are
    tagged by numbers; `null` = an annotation whose text is JSON `null` / an absent status field -/
def objOf? (j : Json) : Option (Obj Nat) := do
  let kind ← jStr? (← jField? j "kind")
  let owners ← jStrList? (← jField? j "owners")
  let anns ← (← jArr? (← jField? j "annotations")).mapM fun kv => do
    match ← jArr? kv with
    | [k, v] => some (← jStr? k, ← jOpt? jNat? v)
    | _ => none
  let st ← jOpt? jNat? (← jField? j "status")
  some ⟨kind, owners, anns, st⟩

/-- `["ann", key, keys of the plain name, keys of the marked name]` (what `make_keys` gives for the two names;
    nothing for any other name) | `["status"]` -/
def storageOf? (j : Json) : Option Storage := do
  match ← jArr? j with
  | [t, key, kp, km] =>
      if (← jStr? t) != "ann" then none else
      let key ← jStr? key
      let kp ← jStrList? kp
      let km ← jStrList? km
      some (.ann (fun n => if n == key then kp else if n == key ++ "-ofDRS" then km else []) key)
  | [t] => if (← jStr? t) == "status" then some .status else none
  | _ => none

def optNat : Option Nat → Json
  | some n => .num n
  | none => .null

def handle : DrvHandler := fun op args =>
  match op, args with
  | "C05.detect", [i] => do
      let i ← inOf? i
      let c := detect i
      some (ok (Json.mkObj [("reason", .str (reasonStr c.reason)), ("initial", .bool c.initial)]))
  | "C05.gate", [h, c] => do
      let h ← shapeOf? h
      let c ← causeOf? c
      some (ok (.bool (gateS h c)))
  -- the top-level view (three keys; what C14/C03 use) next to the shape it stands for
  | "C05.gateTop", [h, c] => do
      let h ← handlerOf? h
      let c ← causeOf? c
      some (ok (Json.mkObj [("gate", .bool (gate h c)), ("needs_change", .bool h.shape.needsChange)]))
  | "C05.invocable", [h, i] => do
      let h ← shapeOf? h
      let i ← inOf? i
      some (ok (.bool (invocableS h i)))
  | "C05.gateOld", [h, c] => do
      let h ← shapeOf? h
      let c ← causeOf? c
      some (ok (.bool (gateOld h c)))
  | "C05.decorated", [h] => do
      let h ← shapeOf? h
      some (ok (.bool (decorated h)))
  -- ["C05.sub", parent, "inherit"|"plain", In] → the sub-handler's shape and whether it is invocable
  | "C05.sub", [p, how, i] => do
      let p ← shapeOf? p
      let i ← inOf? i
      let s ← match ← jStr? how with
        | "inherit" => some (subOf p)
        | "plain" => some plainSub
        | _ => none
      some (ok (Json.mkObj [("needs_change", .bool s.needsChange), ("parent", .bool (invocableS p i)),
                            ("sub_gate", .bool (gateS s (detect i))), ("sub", .bool (subInvocable p s i))]))
  -- ["C05.subRC", parent, "inherit"|"plain", In, mustBlock] → the same through `process_resource_causes`
  | "C05.subRC", [p, how, i, mb] => do
      let p ← shapeOf? p
      let i ← inOf? i
      let mb ← jBool? mb
      let s ← match ← jStr? how with
        | "inherit" => some (subOf p)
        | "plain" => some plainSub
        | _ => none
      some (ok (Json.mkObj [("needs_change", .bool s.needsChange), ("parent", .bool (invocableRC p i mb)),
                            ("sub_gate", .bool (gateS s (detect i))), ("sub", .bool (subInvocableRC p s i mb)),
                            ("finalizer_cycle", .bool (finalizerCycle i mb))]))
  -- ["C05.fetch", object, [storage, ...], six-without-the-fourth [deleted, marked, blocked, diff, initial]]
  --   → what the configured storage has for the object, and the cause that follows from it
  | "C05.fetch", [o, ss, five] => do
      let o ← objOf? o
      let ss ← (← jArr? ss).mapM storageOf?
      let old := fetchMulti ss o
      match ← (← jArr? five).mapM jBool? with
      | [d, m, b, df, ini] =>
          let c := detect (factsOf d m b old (df && old.isSome) ini)
          some (ok (Json.mkObj [("old", optNat old), ("is_drs", .bool (isDRS o)),
                                ("reason", .str (reasonStr c.reason)), ("initial", .bool c.initial)]))
      | _ => none
  | _, _ => none

end Kopf.Drv.C05
