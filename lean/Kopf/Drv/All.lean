import Kopf.Drv.Json
import Kopf.Drv.C05
import Kopf.Drv.C11
namespace Kopf.Drv
def echoHandler : DrvHandler := fun op args =>
  if op == "echo" then
    match args with
    | [j] => (toJ j).map (fun v => ok (ofJ v))
    | _ => none
  else none
def allHandlers : List DrvHandler := [echoHandler, C05.handle, C11.handle]
end Kopf.Drv
