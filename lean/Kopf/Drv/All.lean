import Kopf.Drv.Json
import Kopf.Drv.C01
import Kopf.Drv.C04
import Kopf.Drv.C05
import Kopf.Drv.C02
import Kopf.Drv.C14
import Kopf.Drv.C11
import Kopf.Drv.C16
import Kopf.Drv.C15
import Kopf.Drv.C12
import Kopf.Drv.C18
import Kopf.Drv.C17
import Kopf.Drv.C08
import Kopf.Drv.C13
import Kopf.Drv.C10
import Kopf.Drv.C19
import Kopf.Drv.C07
import Kopf.Drv.C20
import Kopf.Drv.C03
import Kopf.Drv.C06
import Kopf.Drv.C09
namespace Kopf.Drv
def echoHandler : DrvHandler := fun op args =>
  if op == "echo" then
    match args with
    | [j] => (toJ j).map (fun v => ok (ofJ v))
    | _ => none
  else none
def allHandlers : List DrvHandler := [echoHandler, C01.handle, C04.handle, C05.handle, C02.handle, C14.handle, C11.handle, C16.handle, C15.handle, C12.handle, C18.handle, C17.handle, C08.handle, C13.handle, C10.handle, C19.handle, C07.handle, C20.handle, C03.handle, C06.handle, C09.handle]
end Kopf.Drv
