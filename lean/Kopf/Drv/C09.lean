import Kopf.Drv.Json
import Kopf.Model.C09_Daemons
open Lean
namespace Kopf.Drv.C09
open Kopf.C09

def reasonOf? : String → Option Reason
  | "done" => some .done
  | "mismatch" => some .mismatch
  | "deleted" => some .deleted
  | "pausing" => some .pausing
  | "exiting" => some .exiting
  | "signalled" => some .signalled
  | "cancelled" => some .cancelled
  | "abandoned" => some .abandoned
  | _ => none

def reasonName : Reason → String
  | .done => "done" | .mismatch => "mismatch" | .deleted => "deleted" | .pausing => "pausing"
  | .exiting => "exiting" | .signalled => "signalled" | .cancelled => "cancelled" | .abandoned => "abandoned"

def num (i : Int) : Json := .num (JsonNumber.fromInt i)
def optNum : Option Int → Json
  | some i => num i
  | none => .null

def cfgOf? (j : Json) : Option Cfg := do
  let backoff ← jOpt? jInt? (← jField? j "backoff")
  let timeout ← jOpt? jInt? (← jField? j "timeout")
  let polling ← jInt? (← jField? j "polling")
  some { backoff, timeout, polling, stopsGone := treeStopsGone, marksExiting := treeMarksExiting, escorts := treeEscorts }

def instOf? (j : Json) : Option Inst := do
  let rs ← (← jStrList? (← jField? j "reasons")).mapM reasonOf?
  let when ← jOpt? jInt? (← jField? j "when")
  let cancelled ← jBool? (← jField? j "cancelled")
  -- the times of an earlier cancellation/abandonment are not observable in a snapshot: placeholders
  some { reasons := rs, when := when, cancelAt := if cancelled then some 0 else none,
         abandonAt := if Reason.abandoned ∈ rs then some 0 else none, kstarts := [], since := 0 }

def sortStr (l : List String) : List String := (l.toArray.qsort (· < ·)).toList
def sortInt (l : List Int) : List Int := (l.toArray.qsort (· < ·)).toList

def instJson (i : Inst) : Json :=
  Json.mkObj [("reasons", .arr ((sortStr (i.reasons.map reasonName)).map Json.str).toArray),
              ("when", optNum i.when), ("cancelled", .bool i.cancelAt.isSome)]

def exOf? (j : Json) : Option Ex := do
  match ← jArr? j with
  | [a, b, c] => some { d0 := ← jBool? a, d1 := ← jBool? b, d2 := ← jBool? c }
  | _ => none

def pcOf? : String → Option PC
  | "init" => some .init | "head" => some .head | "idleHead" => some .idleHead | "idleDone" => some .idleDone
  | "invoke" => some .invoke | "post" => some .post | "idleLoop" => some .idleLoop
  | _ => none

def outcomeOf? (j : Json) : Option Outcome := do
  some { done := ← jBool? (← jField? j "done"), failed := ← jBool? (← jField? j "failed"),
         errDelay := ← jInt? (← jField? j "errDelay"), yields := ← jBool? (← jField? j "yields") }

def handle : DrvHandler := fun op args =>
  match op, args with
  | "C09.cycle", [j] => do
      let now ← jInt? (← jField? j "now")
      let marked ← jBool? (← jField? j "marked")
      let paused ← jBool? (← jField? j "paused")
      let deleted ← jBool? (← jField? j "deleted")
      let exiting ← jBool? (← jField? j "exiting")   -- the memory is marked `operator_exiting` when the cycle begins
      let hs ← jArr? (← jField? j "handlers")
      let outs ← hs.mapM (fun h => do
        let id ← jStr? (← jField? h "id")
        let c ← cfgOf? h
        let matching ← jBool? (← jField? h "matching")
        let forever ← jBool? (← jField? h "forever")
        let pre ← jOpt? instOf? (← jField? h "pre")
        let ex1 ← exOf? (← jField? h "ex1")
        let ex2 ← exOf? (← jField? h "ex2")
        let s : St := { now := now, run := pre, forever := forever, known := true,
                        live := if pre.isSome then 1 else 0, spawns := 0, paused := none, killerDone := false,
                        exitAt := if exiting then some now else none, goneAt := none }
        let exitAfter ← jBool? (← jField? h "exitAfter")
        let inp : CycIn := { matching, marked, paused, deleted, ex1, ex2 }
        let (s1, ds) := cycle c inp s
        -- did `match_daemons`' immediate re-visit fire for THIS handler? (the same unmarked cycle with the re-visit switched
        -- off is shorter by its one `0`) — the code has ONE `if any(...): delays.append(0)` for all the visited daemons
        let sel := matching && !forever
        let reached := sel && !s.spawnBlocked c
        let sa := spawnAct c.escorts s.run.isSome s.stopping
        let s0 := if reached && sa.spawn then spawn s else s
        let ds0 := if reached then (sa.delay.map (delayVal c 0)).toList else []
        let dzFired := !marked && !deleted &&
          (cycleCore c inp s0 ds0 (escorted c sel s) (fun _ => false)).2.length + 1 == ds.length
        let ds := if dzFired then ds.erase 0 else ds
        -- the instance ended inside the cycle but after its own turn: the cycle label followed by `exit`
        let s' := if exitAfter then (match step c s1 .exit with | some s2 => s2 | none => s1) else s1
        pure (Json.mkObj [("id", .str id), ("spawned", .bool (s'.spawns == 1)),
                          ("run", match s'.run with | some i => instJson i | none => .null),
                          ("forever", .bool s'.forever), ("known", .bool s'.known), ("live", .num (JsonNumber.fromNat s'.live))], ds, dzFired))
      let delays := sortInt (outs.foldl (fun acc o => acc ++ o.2.1) [] ++ (if outs.any (·.2.2) then [0] else []))
      some (ok (Json.mkObj [("handlers", .arr (outs.map (·.1)).toArray), ("delays", .arr (delays.map num).toArray)]))
  | "C09.kplan", [j] => do
      let c ← cfgOf? j
      let r ← jStr? (← jField? j "reason") >>= reasonOf?
      let start ← jInt? (← jField? j "start")
      let done ← (← jArr? (← jField? j "done")).mapM jBool?
      let plan := killerPlan c r start (fun k => done.getD k true)
      some (ok (.arr (plan.map (fun (t, x) => Json.arr #[num t, .str (reasonName x)])).toArray))
  | "C09.exit", [j] => do
      let rs ← (← jStrList? (← jField? j "reasons")).mapM reasonOf?
      let forever ← jBool? (← jField? j "forever")
      let i : Inst := { Inst.fresh 0 with reasons := rs, when := if rs.isEmpty then none else some 0 }
      let s : St := { now := 0, run := some i, forever := forever, known := true, live := 1, spawns := 1, paused := none, killerDone := false,
                      exitAt := none, goneAt := none }
      match step { backoff := none, timeout := none, polling := 0 } s .exit with
      | some s' => some (ok (Json.mkObj [("forever", .bool s'.forever), ("running", .bool s'.run.isSome), ("live", .num (JsonNumber.fromNat s'.live))]))
      | none => some (err "not-enabled")
  | "C09.timer", [j] => do
      let cj ← jField? j "cfg"
      let ej ← jField? j "env"
      let lj ← jField? j "loc"
      let c : TCfg := { initialDelay := ← jOpt? jInt? (← jField? cj "initialDelay"), idle := ← jOpt? jInt? (← jField? cj "idle"),
                        interval := ← jOpt? jInt? (← jField? cj "interval"), sharp := ← jBool? (← jField? cj "sharp"),
                        guarded := ← jBool? (← jField? cj "guarded"), yielding := ← jBool? (← jField? cj "yielding") }
      let e : TEnv := { now := ← jInt? (← jField? ej "now"), stop := ← jBool? (← jField? ej "stop"),
                        idleReset := ← jInt? (← jField? ej "idleReset") }
      let l : TLoc := { pc := ← (jStr? (← jField? lj "pc") >>= pcOf?), started := ← jInt? (← jField? lj "started"),
                        done := ← jBool? (← jField? lj "done"), failed := ← jBool? (← jField? lj "failed"),
                        errDelay := ← jInt? (← jField? lj "errDelay"), runs := 0 }
      let k ← jNat? (← jField? j "k")
      let o ← outcomeOf? (← jField? j "outcome")
      some (ok (Json.mkObj [("spinning", .bool (spinning c e l)), ("good", .bool o.good),
                            ("settles", .bool (settles c e (fun _ => o) k l))]))
  | "C09.daemon", [j] => do
      let ej ← jField? j "env"
      let e : TEnv := { now := ← jInt? (← jField? ej "now"), stop := ← jBool? (← jField? ej "stop"),
                        idleReset := ← jInt? (← jField? ej "idleReset") }
      let idl ← jOpt? jInt? (← jField? j "initialDelay")
      let yl ← jBool? (← jField? j "yielding")
      let k ← jNat? (← jField? j "k")
      let o ← outcomeOf? (← jField? j "outcome")
      let l : DLoc := { pc := .head, done := false, delay := 0, runs := 0 }
      some (ok (Json.mkObj [("good", .bool o.good), ("settles", .bool (dsettles idl yl e (fun _ => o) k l))]))
  | "C09.sweep", [j] => do
      let ds ← jArr? j
      let outs ← ds.mapM (fun d => do
        let rs ← (← jStrList? (← jField? d "reasons")).mapM reasonOf?
        pure (Json.bool (sweepSpawns { Inst.fresh 0 with reasons := rs })))
      some (ok (.arr outs.toArray))
  | "C09.gone", [j] => do
      -- the DELETED event of the object is being processed: for which of the running instances does a background
      -- `stop_daemon(deleted)` start in this instant? (`mayBegin .deleted` + the urgency in `tickOk`)
      let ds ← jArr? j
      let outs ← ds.mapM (fun d => do
        let rs ← (← jStrList? (← jField? d "reasons")).mapM reasonOf?
        let i : Inst := { Inst.fresh 0 with reasons := rs, when := if rs.isEmpty then none else some 0 }
        let c : Cfg := { backoff := none, timeout := none, polling := 0 }
        let s : St := { now := 0, run := some i, forever := false, known := false, live := 1, spawns := 1, paused := none,
                        killerDone := false, exitAt := none, goneAt := some 0 }
        pure (Json.bool ((step c s (.kBegin .deleted)).isSome && (step c s (.tick 1)).isNone)))
      some (ok (.arr outs.toArray))
  | "C09.due", [j] => do
      let p ← jInt? (← jField? j "p")
      let since ← jInt? (← jField? j "since")
      let t ← jInt? (← jField? j "t")
      some (ok (Json.mkObj [("round", .bool (isRound p t)), ("byDue", .bool (decide (t ≤ firstDue p since))),
                            ("due", num (firstDue p since))]))
  | "C09.variant", [] => some (ok (Json.mkObj [("treeGuarded", .bool treeGuarded), ("treeYielding", .bool treeYielding),
                                                   ("treeStopsGone", .bool treeStopsGone), ("treeMarksExiting", .bool treeMarksExiting),
                                                   ("treeEscorts", .bool treeEscorts)]))
  | _, _ => none

end Kopf.Drv.C09
