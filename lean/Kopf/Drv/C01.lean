/-
  Driver ops of C01 (trace acceptance, tie A).

  `["C01.trace", {"limit": n|null}, [[label, snapshot|null], …]]`
     label    = ["arrive",k,e] | ["miss",k,e] | ["insert",k,g,e] | ["spawn",k,g] | ["start",k,g] | ["take",k,g,e]
              | ["finish",k,g] | ["fail",k,g] | ["ttake",k,g,e] | ["retire",k,g] | ["eos",k,g]
              | ["left",k,g] | ["cancel"] | ["eosput",k] | ["close"] | ["kill",k,g] | ["end"]
     snapshot = [pending, running, [[k, backlogSize], … sorted by k]]   (observed AFTER the segment)
  → ["ok", {"accepted": true, "n": N, "final": {...}}]
  | ["ok", {"accepted": false, "index": i, "reason": r, "label": l, "model": snapshot}]
  `["C01.buggy", cfg, labels]` — the same through `stepBuggy` (labels "rcheck"/"rerase" in addition).
  `["C01.sched", {"cap": n|null, "limit": n|null}, [[op, snapshot], …]]` — the scheduler hand-over model
     (`C01_Sched.lean`) against the real `aiotasks.Scheduler` driven directly:
     op       = ["call", j] | ["done", j]      (each followed by the internal segments clean/round/resume until none is enabled,
                                                 as the real scheduler has settled when it is observed)
     snapshot = [pending, running, lockHeld, accepted]
  → ["ok", {"accepted": true, "n": N}] | ["ok", {"accepted": false, "index": i, "reason": r, "model": snapshot}]
  Anything unparsable → bad-op (never a default).
-/
import Kopf.Drv.Json
import Kopf.Model.C01_Queueing
import Kopf.Model.C01_Sched
open Lean
namespace Kopf.Drv.C01
open Kopf.C01

/-- A parsed label: the model label plus what the harness additionally claims about it. -/
inductive Obs where
  | lab (l : Label)
  | insertAs (k g e : Nat)     -- `insert`, and the hand must be (k,e), the new instance (k,g)
  | spawnAs (k g : Nat)        -- `spawn`, and the head of the pending queue must be (k,g)
  | «end»                      -- no step: only the snapshot is compared

def natArgs (xs : List Json) : Option (List Nat) := xs.mapM jNat?

def obsOf? (j : Json) : Option Obs := do
  let xs ← jArr? j
  match xs with
  | .str name :: args =>
    let a ← natArgs args
    match name, a with
    | "arrive", [k, e] => some (.lab (.arrive k e))
    | "miss", [k, e] => some (.lab (.miss k e))
    | "insert", [k, g, e] => some (.insertAs k g e)
    | "spawn", [k, g] => some (.spawnAs k g)
    | "start", [k, g] => some (.lab (.start ⟨k, g⟩))
    | "take", [k, g, e] => some (.lab (.take ⟨k, g⟩ e))
    | "finish", [k, g] => some (.lab (.finish ⟨k, g⟩))
    | "fail", [k, g] => some (.lab (.fail ⟨k, g⟩))
    | "ttake", [k, g, e] => some (.lab (.timeoutTake ⟨k, g⟩ e))
    | "retire", [k, g] => some (.lab (.retire ⟨k, g⟩))
    | "rcheck", [k, g] => some (.lab (.retireCheck ⟨k, g⟩))
    | "rerase", [k, g] => some (.lab (.retireErase ⟨k, g⟩))
    | "eos", [k, g] => some (.lab (.eosExit ⟨k, g⟩))
    | "left", [k, g] => some (.lab (.left ⟨k, g⟩))
    | "cancel", [] => some (.lab .cancelWatcher)
    | "eosput", [k] => some (.lab (.eosPut k))
    | "close", [] => some (.lab .close)
    | "kill", [k, g] => some (.lab (.kill ⟨k, g⟩))
    | "end", [] => some .end
    | _, _ => none
  | _ => none

def keysOf : Obs → List Nat
  | .lab (.arrive k _) | .lab (.miss k _) | .lab (.eosPut k) => [k]
  | .lab (.start w) | .lab (.take w _) | .lab (.finish w) | .lab (.fail w) | .lab (.timeoutTake w _) | .lab (.retire w)
  | .lab (.retireCheck w) | .lab (.retireErase w) | .lab (.eosExit w) | .lab (.left w)
  | .lab (.kill w) => [w.key]
  | .insertAs k _ _ | .spawnAs k _ => [k]
  | _ => []

def insertSorted (k : Nat) : List Nat → List Nat
  | [] => [k]
  | x :: r => if k < x then k :: x :: r else if k = x then x :: r else x :: insertSorted k r

structure Snap where
  pending : Nat
  running : Nat
  streams : List (Nat × Nat)
  deriving BEq

def snapOf (s : State) (keys : List Nat) : Snap :=
  { pending := s.pendingQ.length, running := s.running.length,
    streams := keys.filterMap (fun k => (s.streams k).map (fun b => (k, b.length))) }

def snapOf? (j : Json) : Option (Option Snap) :=
  match j with
  | .null => some none
  | _ => do
    match ← jArr? j with
    | [p, r, st] =>
      let p ← jNat? p
      let r ← jNat? r
      let st ← (← jArr? st).mapM (fun x => do
        match ← jArr? x with
        | [k, n] => pure ((← jNat? k), (← jNat? n))
        | _ => none)
      some (some { pending := p, running := r, streams := st })
    | _ => none

def snapJson (sn : Snap) : Json :=
  .arr #[.num sn.pending, .num sn.running,
         .arr (sn.streams.map (fun (k, n) => Json.arr #[.num k, .num n])).toArray]

def natList (xs : List Nat) : Json := .arr (xs.map (fun (n : Nat) => Json.num n)).toArray

def finalJson (s : State) (keys : List Nat) : Json :=
  Json.mkObj [
    ("snapshot", snapJson (snapOf s keys)),
    ("closing", .bool s.closing), ("closed", .bool s.closed),
    ("measure", .num (Kopf.C01.measure s)),
    ("hand", .bool s.hand.isSome),
    ("arrived", .arr (keys.map (fun (k : Nat) => Json.arr #[Json.num k, natList (s.arrived k)])).toArray),
    ("started", .arr (keys.map (fun (k : Nat) => Json.arr #[Json.num k, natList (s.started k)])).toArray),
    ("processed", .arr (keys.map (fun (k : Nat) => Json.arr #[Json.num k, natList (s.processed k)])).toArray),
    ("failed", natList (keys.filter (fun k => s.failedK k))),
    ("dropped", natList (keys.filter (fun k => !(s.dropped k).isEmpty)))]

def reject (i : Nat) (reason : String) (lab : Json) (s : State) (keys : List Nat) : Json :=
  ok (Json.mkObj [("accepted", .bool false), ("index", .num i), ("reason", .str reason),
                  ("label", lab), ("model", snapJson (snapOf s keys))])

/-- apply one observation; `Except reason state` -/
def applyObs (f : State → Label → Option State) (s : State) : Obs → Except String State
  | .end => .ok s
  | .lab l => match f s l with
    | some s' => .ok s'
    | none => .error "label-not-enabled"
  | .insertAs k g e =>
    if s.hand ≠ some (k, e) then .error "insert-without-that-event-in-hand"
    else if s.nextGen k ≠ g then .error "insert-generation-differs"
    else match f s .insert with
      | some s' => .ok s'
      | none => .error "label-not-enabled"
  | .spawnAs k g =>
    if s.pendingQ.head? ≠ some ⟨k, g⟩ then .error "spawn-not-the-head-of-the-pending-queue"
    else match f s .spawn with
      | some s' => .ok s'
      | none => .error "label-not-enabled"

def replay (f : State → Label → Option State) (s : State) (keys : List Nat) (i : Nat) :
    List Json → Option Json
  | [] => some (ok (Json.mkObj [("accepted", .bool true), ("n", .num i), ("final", finalJson s keys)]))
  | entry :: rest => do
    match ← jArr? entry with
    | [lj, sj] =>
      let o ← obsOf? lj
      let sn ← snapOf? sj
      let keys := (keysOf o).foldl (fun acc k => insertSorted k acc) keys
      match applyObs f s o with
      | .error r => some (reject i r lj s keys)
      | .ok s' =>
        match sn with
        | some sn =>
          if snapOf s' keys == sn then replay f s' keys (i + 1) rest
          else some (reject i "snapshot-mismatch" lj s' keys)
        | none => replay f s' keys (i + 1) rest
    | _ => none


/-! ### the scheduler hand-over model -/

/-- run the internal segments until none is enabled (fuel: every `clean` consumes a cleaning entry, `round` needs a
    notification which only `clean`/`resume` renew, `resume` consumes the blocked job) -/
def settle : Nat → Sched.S → Sched.S
  | 0, s => s
  | n + 1, s =>
    match Sched.step s .clean with
    | some s' => settle n s'
    | none =>
      match Sched.step s .round with
      | some s' => settle n s'
      | none =>
        match Sched.step s .resume with
        | some s' => settle n s'
        | none => s

def schedSnap (s : Sched.S) : Json :=
  .arr #[.num s.pending.length, .num s.running.length, .bool s.blocked.isSome, .num s.accepted.length]

def schedOp? (j : Json) : Option Sched.L := do
  match ← jArr? j with
  | [.str "call", n] => some (.call (← jNat? n))
  | [.str "done", n] => some (.done (← jNat? n))
  | _ => none

def schedReplay (s : Sched.S) (i : Nat) : List Json → Option Json
  | [] => some (ok (Json.mkObj [("accepted", .bool true), ("n", .num i)]))
  | entry :: rest => do
    match ← jArr? entry with
    | [oj, sj] =>
      let l ← schedOp? oj
      match Sched.step s l with
      | none => some (ok (Json.mkObj [("accepted", .bool false), ("index", .num i), ("reason", .str "label-not-enabled"),
                                      ("model", schedSnap s)]))
      | some s1 =>
        let s' := settle (2 * (s1.cleaning.length + s1.pending.length) + 8) s1
        if (schedSnap s').compress == sj.compress then schedReplay s' (i + 1) rest
        else some (ok (Json.mkObj [("accepted", .bool false), ("index", .num i), ("reason", .str "snapshot-mismatch"),
                                   ("model", schedSnap s')]))
    | _ => none

def limitOf? (cfg : Json) : Option (Option Nat) := do
  jOpt? jNat? (← jField? cfg "limit")

def handle : DrvHandler := fun op args =>
  match op, args with
  | "C01.trace", [cfg, labels] => do
      let lim ← limitOf? cfg
      replay step (init lim) [] 0 (← jArr? labels)
  | "C01.key", [r] => do
      -- {"bookmark": b, "uid": s|null, "kind": …, "apiVersion": …, "name": …, "namespace": …, "creationTimestamp": …}
      let b ← jBool? (← jField? r "bookmark")
      let f := fun (n : String) => do jOpt? jStr? (← jField? r n)
      let rid : RawId := ⟨b, ← f "uid", ← f "kind", ← f "apiVersion", ← f "name", ← f "namespace",
                          ← f "creationTimestamp"⟩
      match keyOf rid with
      | none => some (ok .null)
      | some parts => some (ok (.str ("//".intercalate parts)))
  | "C01.sched", [cfg, ops] => do
      let lim ← limitOf? cfg
      let cap ← jOpt? jNat? (← jField? cfg "cap")
      schedReplay (Sched.init cap lim) 0 (← jArr? ops)
  | "C01.buggy", [cfg, labels] => do
      let lim ← limitOf? cfg
      replay stepBuggy (init lim) [] 0 (← jArr? labels)
  | _, _ => none

end Kopf.Drv.C01
