/-
  Kopf.Drv.Json — boundary between the line protocol (Lean.Data.Json) and the models' `J`.
  Only the driver imports this; models and theorems never see `Lean.Json`.
-/
import Lean.Data.Json
import Kopf.Base.J
open Lean

namespace Kopf.Drv

partial def toJ : Json → Option J
  | .null => some .null
  | .bool b => some (.bool b)
  | .num n => if n.exponent == 0 then some (.num n.mantissa) else none   -- floats rejected, never defaulted
  | .str s => some (.str s)
  | .arr xs => do
      let ys ← xs.toList.mapM toJ
      pure (.arr ys)
  | .obj kvs => do
      let ys ← kvs.toList.mapM (fun (k, v) => do let v' ← toJ v; pure (k, v'))
      pure (.obj ys)

partial def ofJ : J → Json
  | .null => .null
  | .bool b => .bool b
  | .num n => .num (JsonNumber.fromInt n)
  | .str s => .str s
  | .arr xs => .arr (xs.map ofJ).toArray
  | .obj kvs => Json.mkObj (kvs.map (fun (k, v) => (k, ofJ v)))

def jStr? : Json → Option String
  | .str s => some s
  | _ => none

def jInt? : Json → Option Int
  | .num n => if n.exponent == 0 then some n.mantissa else none
  | _ => none

def jNat? (j : Json) : Option Nat := do
  let i ← jInt? j
  if i < 0 then none else some i.toNat

def jBool? : Json → Option Bool
  | .bool b => some b
  | _ => none

def jArr? : Json → Option (List Json)
  | .arr xs => some xs.toList
  | _ => none

def jStrList? (j : Json) : Option (List String) := do
  let xs ← jArr? j
  xs.mapM jStr?

def jField? (j : Json) (k : String) : Option Json :=
  match j with
  | .obj kvs => kvs.get? k
  | _ => none

/-- optional value: JSON null ↦ none -/
def jOpt? {α} (f : Json → Option α) : Json → Option (Option α)
  | .null => some none
  | j => (f j).map some

def ok (j : Json) : Json := .arr #[.str "ok", j]
def err (tag : String) : Json := .arr #[.str "err", .str tag]

/-- A handler gets the op name and its arguments; `none` = not mine / malformed (→ bad-op). -/
abbrev DrvHandler := String → List Json → Option Json

end Kopf.Drv
