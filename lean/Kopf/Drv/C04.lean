import Kopf.Drv.Json
import Kopf.Model.C04_Diff
import Kopf.Model.C04_Essence
import Kopf.Model.C04_Cycle
import Kopf.Model.C04_Shared
open Lean
namespace Kopf.Drv.C04
open Kopf.C04

def opStr : Op → String
  | .add => "add" | .change => "change" | .remove => "remove"

def opOf? : String → Option Op
  | "add" => some .add | "change" => some .change | "remove" => some .remove
  | _ => none

def itemJson (it : Item) : Json :=
  .arr #[.str (opStr it.op), .arr (it.path.map Json.str).toArray, ofJ it.old, ofJ it.new]

def itemOf? (j : Json) : Option Item := do
  match ← jArr? j with
  | [o, p, a, b] =>
      let o ← jStr? o >>= opOf?
      let p ← jStrList? p
      let a ← toJ a
      let b ← toJ b
      some ⟨o, p, a, b⟩
  | _ => none

def itemsJson (d : List Item) : Json := .arr (d.map itemJson).toArray

def pathsOf? (j : Json) : Option (List (List String)) := do
  let xs ← jArr? j
  xs.mapM jStrList?

def errStr : Err → String
  | .typeError => "type-error" | .keyError => "key-error" | .valueError => "value-error"
  | .unmodelled => "unmodelled"

def exceptJson : Except Err J → Json
  | .ok j => ok (ofJ j)
  | .error e => err (errStr e)

def diffLeafOf? (j : Json) : Option DiffBaseLeaf := do
  match ← jStr? (← jField? j "kind") with
  | "annotations" =>
      let p ← jStr? (← jField? j "prefix")
      let k ← jStr? (← jField? j "key")
      let v1 ← jBool? (← jField? j "v1")
      let ig ← pathsOf? (← jField? j "ignored")
      some (.annotations p k v1 ig)
  | "status" =>
      let f ← jStrList? (← jField? j "field")
      let ig ← pathsOf? (← jField? j "ignored")
      some (.status f ig)
  | _ => none

def diffbaseOf? (j : Json) : Option DiffBaseCfg := do
  match ← jStr? (← jField? j "kind") with
  | "multi" =>
      let xs ← jArr? (← jField? j "storages")
      let ls ← xs.mapM diffLeafOf?
      some (.multi ls)
  | _ => (diffLeafOf? j).map .leaf

def progressLeafOf? (j : Json) : Option ProgressLeaf := do
  match ← jStr? (← jField? j "kind") with
  | "annotations" => some (.annotations (← jStr? (← jField? j "prefix")))
  | "status" => some (.status (← jStrList? (← jField? j "field")) (← jStrList? (← jField? j "touch")))
  | _ => none

def progressOf? (j : Json) : Option ProgressCfg := do
  let xs ← jArr? j
  xs.mapM progressLeafOf?

def hashesOf? (j : Json) : Option Hashes := do
  let xs ← jArr? j
  xs.mapM (fun x => do
    match ← jArr? x with
    | [k, v] => some (← jStr? k, ← jStr? v)
    | _ => none)

def cfgOf? (j : Json) : Option Cfg := do
  let d ← diffbaseOf? (← jField? j "diffbase")
  let p ← progressOf? (← jField? j "progress")
  let h ← hashesOf? (← jField? j "hashes")
  some ⟨d, p, h⟩

def handle : DrvHandler := fun op args =>
  match op, args with
  | "C04.diff", [a, b] => do
      let a ← toJ a
      let b ← toJ b
      some (ok (itemsJson (diff a b [])))
  | "C04.reduce", [d, p] => do
      let ds ← (← jArr? d).mapM itemOf?
      let p ← jStrList? p
      some (ok (itemsJson (reduce ds p)))
  | "C04.apply", [d, j] => do
      let ds ← (← jArr? d).mapM itemOf?
      let j ← toJ j
      some (ok (ofJ (applyDiff ds j)))
  | "C04.equiv", [a, b] => do
      let a ← toJ a
      let b ← toJ b
      some (ok (.bool (same (J.dropNulls a) (J.dropNulls b))))
  | "C04.essence", [cfg, extra, body] => do
      let cfg ← cfgOf? cfg
      let extra ← pathsOf? extra
      let body ← toJ body
      some (exceptJson (essence cfg extra body))
  | "C04.clear", [p, e] => do
      let p ← progressOf? p
      let e ← toJ e
      some (exceptJson (progressClear e p))
  | "C04.keys", [hs, v1, pfx, key, body] => do
      let hs ← hashesOf? hs
      let v1 ← jBool? v1
      let pfx ← jStr? pfx
      let key ← jStr? key
      let body ← toJ body
      some (match keysFor hs v1 pfx key body with
        | .ok ks => ok (.arr (ks.map Json.str).toArray)
        | .error e => err (errStr e))
  | "C04.marker", [pfx, b, pa] => do
      let pfx ← jStr? pfx
      match ← toJ b, ← toJ pa with
      | .obj bk, .obj pk => some (ok (ofJ (.obj (storeMarker pfx bk pk))))
      | _, _ => none
  | "C04.detect", [o, n] => do
      -- the cause decided from the two essences; `null` as old = nothing stored
      let o ← toJ o
      let n ← toJ n
      let r := detect (match o with | .null => none | o => some o) n
      some (ok (.str (match r with | .create => "create" | .update => "update" | .noop => "noop")))
  | "C04.selected", [o, n, f] => do
      let o ← toJ o
      let n ← toJ n
      let f ← jStrList? f
      some (ok (.bool (selected o n f)))
  | "C04.after", [o, n] => do
      -- the stored last-handled state after a finished cycle
      let o ← toJ o
      let n ← toJ n
      some (ok (match afterCycle (match o with | .null => none | o => some o) n with
        | some e => ofJ e
        | none => .null))
  | "C04.served", [pol, hist, ks] => do
      -- the prefixes a storage object takes for other Kopf operators' on an object with annotation names `ks`
      -- after the objects of `hist` went through it (sorted, without repetitions)
      let pol ← (match ← jStr? pol with
        | "stateless" => some statelessDetect
        | "remembering" => some rememberingDetect
        | _ => none)
      let hist ← (← jArr? hist).mapM jStrList?
      let ks ← jStrList? ks
      let ps := (servedPrefixes pol hist ks).map String.ofList
      let ps := ps.foldl (fun acc p => if acc.contains p then acc else acc ++ [p]) []
      some (ok (.arr ((ps.toArray.qsort (· < ·)).map Json.str)))
  | "C04.pyeq", [a, b] => do
      let a ← toJ a
      let b ← toJ b
      some (ok (.bool (pyEq a b)))
  | "C04.consts", [] =>
      some (ok (Json.mkObj [("markers", .arr (knownMarkers.map Json.str).toArray),
                            ("prefixes", .arr (knownPrefixes.map Json.str).toArray),
                            ("last_applied", .str lastApplied)]))
  | _, _ => none

end Kopf.Drv.C04
