/-
  Line-protocol handler for C16 (persistence storages).

  Every request that forms keys carries the table of the REAL suffixes (`make_suffix`) of the
  strings the model may hash: `[[string, suffix], ...]`.  A string missing from the table is an
  error (`["err","no-sfx"]`), never a default.  `json.dumps(..., separators=(',',':'))` is
  re-implemented here (driver only; the model takes it as a parameter), `json.loads` is Lean's
  JSON parser.  Records travel as ordered pair lists `[[k, v], ...]` (Python dicts keep insertion
  order; `Lean.Json` objects are sorted maps).
-/
import Kopf.Drv.Json
import Kopf.Model.C16_Storage
import Kopf.Model.C16_Listed
open Lean
namespace Kopf.Drv.C16
open Kopf Kopf.C16

def hexDigit (n : Nat) : Char :=
  if n < 10 then Char.ofNat (48 + n) else Char.ofNat (87 + n)

def hex4 (n : Nat) : String :=
  String.ofList [hexDigit (n / 4096 % 16), hexDigit (n / 256 % 16), hexDigit (n / 16 % 16), hexDigit (n % 16)]

/-- Python `json.dumps` string escaping with `ensure_ascii=True` -/
def escChar (c : Char) : String :=
  if c = '"' then "\\\"" else if c = '\\' then "\\\\" else if c = '\n' then "\\n"
  else if c = '\r' then "\\r" else if c = '\t' then "\\t"
  else if c.toNat = 8 then "\\b" else if c.toNat = 12 then "\\f"
  else if c.toNat < 0x20 || c.toNat > 0x7e then
    if c.toNat < 0x10000 then "\\u" ++ hex4 c.toNat
    else
      let v := c.toNat - 0x10000
      "\\u" ++ hex4 (0xd800 + v / 1024) ++ "\\u" ++ hex4 (0xdc00 + v % 1024)
  else c.toString

def escStr (s : String) : String :=
  "\"" ++ String.join (s.toList.map escChar) ++ "\""

partial def pyDumps : J → String
  | .null => "null"
  | .bool true => "true"
  | .bool false => "false"
  | .num n => toString n
  | .str s => escStr s
  | .arr xs => "[" ++ ",".intercalate (xs.map pyDumps) ++ "]"
  | .obj kvs => "{" ++ ",".intercalate (kvs.map (fun (k, v) => escStr k ++ ":" ++ pyDumps v)) ++ "}"

/-- `json.loads`: `none` = ValueError (also for floats, which the harness never emits) -/
def pyLoads (s : String) : Option J :=
  match Json.parse s with
  | .ok j => toJ j
  | .error _ => none

def missing : Str := ['\x00', '?']

def sfxTable? (j : Json) : Option (List (Str × Str)) := do
  let xs ← jArr? j
  xs.mapM (fun x => do
    match ← jArr? x with
    | [a, b] => some ((← jStr? a).toList, (← jStr? b).toList)
    | _ => none)

def mkEnv (tbl : List (Str × Str)) : Env :=
  { sfx := fun k => (tbl.lookup k).getD missing, enc := pyDumps, dec := pyLoads }

/-- every string the model may hash for id `k` (plain and marked, raw and safe) is in the table -/
def covered (tbl : List (Str × Str)) (k : Str) : Bool :=
  [[], k, safeKey k, markKey true k, safeKey (markKey true k)].all (fun x => (tbl.lookup x).isSome)

def path? (j : Json) : Option Path := jStrList? j

def leaf? (j : Json) : Option Leaf := do
  match ← jStr? (← jField? j "t") with
  | "ann" =>
    let p ← jStr? (← jField? j "prefix")
    let v1 ← jBool? (← jField? j "v1")
    let vb ← jBool? (← jField? j "verbose")
    let tk ← jStr? (← jField? j "touch_key")
    some (.ann ⟨p.toList, v1, vb, tk.toList⟩)
  | "status" =>
    let f ← path? (← jField? j "field")
    let tf ← path? (← jField? j "touch_field")
    let nw ← jBool? (← jField? j "nowrite")
    some (.status ⟨f, tf, nw⟩)
  | _ => none

/-- a storage description: a leaf object, `{"t":"multi","children":[...]}`, or an array (= multi) -/
partial def tree? (j : Json) : Option STree :=
  match j with
  | .arr xs => do some (.multi (← xs.toList.mapM tree?))
  | _ => do
    match ← jStr? (← jField? j "t") with
    | "multi" => do some (.multi (← (← jArr? (← jField? j "children")).mapM tree?))
    | _ => do some (.leaf (← leaf? j))

def dleaf? (j : Json) : Option DLeaf := do
  match ← jStr? (← jField? j "t") with
  | "ann" =>
    let p ← jStr? (← jField? j "prefix")
    let k ← jStr? (← jField? j "key")
    let v1 ← jBool? (← jField? j "v1")
    some (.ann ⟨p.toList, k.toList, v1⟩)
  | "status" => some (.status (← path? (← jField? j "field")))
  | _ => none

partial def dtree? (j : Json) : Option DTree :=
  match j with
  | .arr xs => do some (.multi (← xs.toList.mapM dtree?))
  | _ => do
    match ← jStr? (← jField? j "t") with
    | "multi" => do some (.multi (← (← jArr? (← jField? j "children")).mapM dtree?))
    | _ => do some (.leaf (← dleaf? j))

/-- ordered record `[[k, v], ...]` -/
def rec? (j : Json) : Option Rec := do
  (← jArr? j).mapM (fun x => do
    match ← jArr? x with
    | [k, v] => some (← jStr? k, ← toJ v)
    | _ => none)

def errStr : Err → String
  | .type => "type-error" | .key => "key-error" | .value => "value-error" | .attr => "attr-error"

def outJ : Except Err J → Json
  | .ok j => ok (ofJ j)
  | .error e => err (errStr e)

def outOptJ : Except Err (Option J) → Json
  | .ok (some j) => ok (ofJ j)
  | .ok none => ok .null
  | .error e => err (errStr e)

def touchKeys (s : STree) : List Str :=
  s.flatten.filterMap (fun | .ann c => some c.touchKey | .status _ => none)

def diffKeys (s : DTree) : List Str :=
  s.flatten.filterMap (fun | .ann c => some c.key | .status _ => none)

def noSfx : Json := err "no-sfx"

def handle : DrvHandler := fun op args =>
  match op, args with
  | "C16.keys", [cfg, tbl, drs, k] => do
      let p ← jStr? (← jField? cfg "prefix")
      let v1 ← jBool? (← jField? cfg "v1")
      let tbl ← sfxTable? tbl
      let drs ← jBool? drs
      let k := (← jStr? k).toList
      if !covered tbl k then some noSfx else
      let env := mkEnv tbl
      let ks := makeKeys p.toList v1 env.sfx (markKey drs k)
      some (ok (.arr (ks.map (fun s => Json.str (String.ofList s))).toArray))
  | "C16.v2key", [cfg, tbl, k] => do
      let p ← jStr? (← jField? cfg "prefix")
      let tbl ← sfxTable? tbl
      let k := (← jStr? k).toList
      if !covered tbl k then some noSfx else
      some (ok (.str (String.ofList (v2Key p.toList (mkEnv tbl).sfx k))))
  | "C16.v1key", [cfg, tbl, k] => do
      let p ← jStr? (← jField? cfg "prefix")
      let tbl ← sfxTable? tbl
      let k := (← jStr? k).toList
      if !covered tbl k then some noSfx else
      some (ok (.str (String.ofList (v1Key p.toList (mkEnv tbl).sfx k))))
  | "C16.edged", [tbl, name, k, maxLen] => do
      let tbl ← sfxTable? tbl
      let name := (← jStr? name).toList
      let k := (← jStr? k).toList
      let m ← jInt? maxLen
      if !covered tbl k then some noSfx else
      some (ok (.str (String.ofList (edgedName (mkEnv tbl).sfx name k m))))
  | "C16.safe", [k] => do
      some (ok (.str (String.ofList (safeKey (← jStr? k).toList))))
  | "C16.listed", [rsp] => do
      some (ok (.arr ((listObjs (← toJ rsp)).map ofJ).toArray))
  | "C16.isdrs", [body] => do
      some (ok (.bool (isDRS (← toJ body))))
  | "C16.fetch", [s, tbl, body, k] => do
      let s ← tree? s
      let tbl ← sfxTable? tbl
      let k := (← jStr? k).toList
      if !covered tbl k then some noSfx else
      some (outOptJ (STree.fetch (mkEnv tbl) (← toJ body) k s))
  | "C16.store", [s, tbl, body, patch, k, r] => do
      let s ← tree? s
      let tbl ← sfxTable? tbl
      let k := (← jStr? k).toList
      if !covered tbl k then some noSfx else
      some (outJ (STree.store (mkEnv tbl) (← toJ body) k (← rec? r) (← toJ patch) s))
  | "C16.purge", [s, tbl, body, patch, k] => do
      let s ← tree? s
      let tbl ← sfxTable? tbl
      let k := (← jStr? k).toList
      if !covered tbl k then some noSfx else
      some (outJ (STree.purge (mkEnv tbl) (← toJ body) k (← toJ patch) s))
  | "C16.touch", [s, tbl, body, patch, v] => do
      let s ← tree? s
      let tbl ← sfxTable? tbl
      if !(touchKeys s).all (covered tbl) then some noSfx else
      let v ← toJ v
      match v with
      | .null | .str _ => some (outJ (STree.touch (mkEnv tbl) (← toJ body) v (← toJ patch) s))
      | _ => none
  | "C16.clear", [s, essence] => do
      let s ← tree? s
      some (outJ (STree.clear (← toJ essence) s))
  | "C16.dfetch", [s, tbl, body] => do
      let s ← dtree? s
      let tbl ← sfxTable? tbl
      if !(diffKeys s).all (covered tbl) then some noSfx else
      some (outOptJ (DTree.fetch (mkEnv tbl) (← toJ body) s))
  | "C16.dstore", [s, tbl, body, patch, essence] => do
      let s ← dtree? s
      let tbl ← sfxTable? tbl
      if !(diffKeys s).all (covered tbl) then some noSfx else
      some (outJ (DTree.store (mkEnv tbl) (← toJ body) (← toJ essence) s (← toJ patch)))
  | _, _ => none

end Kopf.Drv.C16
