/-
  The line-protocol loop shared by all drivers: one JSON array request per line, one JSON response
  per line. Unknown op / malformed line → ["bad-op"].
-/
import Kopf.Drv.Json
open Lean
namespace Kopf.Drv

def echoHandler : DrvHandler := fun op args =>
  if op == "echo" then
    match args with
    | [j] => (toJ j).map (fun v => ok (ofJ v))
    | _ => none
  else none

def respond (handlers : List DrvHandler) (line : String) : Json :=
  match Json.parse line with
  | .error _ => .arr #[.str "bad-op"]
  | .ok (.arr xs) =>
    match xs.toList with
    | .str op :: args =>
      match handlers.findSome? (fun h => h op args) with
      | some r => r
      | none => .arr #[.str "bad-op"]
    | _ => .arr #[.str "bad-op"]
  | .ok _ => .arr #[.str "bad-op"]

partial def loop (handlers : List DrvHandler) (h : IO.FS.Stream) (out : IO.FS.Stream) : IO Unit := do
  let line ← h.getLine
  if line.isEmpty then return ()
  let l := line.trimAscii.toString
  if l.isEmpty then loop handlers h out else
  out.putStrLn (respond handlers l).compress
  loop handlers h out

def runDriver (handlers : List DrvHandler) : IO Unit := do
  let out ← IO.getStdout
  loop (echoHandler :: handlers) (← IO.getStdin) out
  out.flush

end Kopf.Drv
