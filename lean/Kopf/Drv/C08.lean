import Kopf.Drv.Json
import Kopf.Model.C08_Patching
import Kopf.Model.C08_Discovery
open Lean
namespace Kopf.Drv.C08
open Kopf.C08

def kvsOf? (j : Json) : Option Kvs :=
  match toJ j with
  | some (.obj kvs) => some kvs
  | _ => none

def fnOf? (j : Json) : Option Fn :=
  match j with
  | .arr #[.str "block", .str f] => some (.block f)
  | .arr #[.str "allow", .str f] => some (.allow f)
  | .arr #[.str "ublock", .str f] => some (.userFin true f)
  | .arr #[.str "uallow", .str f] => some (.userFin false f)
  | .arr #[.str "setStatus", .str k, v] => (toJ v).map (.setStatus k)
  | .arr #[.str "uappend", .str k, v] => (toJ v).map (.appendStatus k)
  | _ => none

def fnJson : Fn → Json
  | .block f => .arr #[.str "block", .str f]
  | .allow f => .arr #[.str "allow", .str f]
  | .userFin true f => .arr #[.str "ublock", .str f]
  | .userFin false f => .arr #[.str "uallow", .str f]
  | .setStatus k v => .arr #[.str "setStatus", .str k, ofJ v]
  | .appendStatus k v => .arr #[.str "uappend", .str k, ofJ v]

def fnsOf? (j : Json) : Option (List Fn) := do (← jArr? j).mapM fnOf?

def objOf? (j : Json) : Option Obj := do
  let uid ← jNat? (← jField? j "uid")
  let rv ← jNat? (← jField? j "rv")
  let marked ← jBool? (← jField? j "marked")
  let fins ← jStrList? (← jField? j "fins")
  let body ← kvsOf? (← jField? j "body")
  some { uid, rv, marked, fins, body }

def natJ (n : Nat) : Json := .num (JsonNumber.fromNat n)

def objJson (o : Obj) : Json :=
  Json.mkObj [("uid", natJ o.uid), ("rv", natJ o.rv), ("marked", .bool o.marked),
    ("fins", .arr (o.fins.map Json.str).toArray), ("body", ofJ (.obj o.body))]

def serverOf? (j : Json) : Option Server := do
  let clock ← jNat? (← jField? j "clock")
  let uids ← jNat? (← jField? j "uids")
  let obj ← jOpt? objOf? (← jField? j "obj")
  some { clock, uids, obj }

def serverJson (s : Server) : Json :=
  Json.mkObj [("clock", natJ s.clock), ("uids", natJ s.uids),
    ("obj", match s.obj with | some o => objJson o | none => .null)]

def foreignOf? (j : Json) : Option Foreign :=
  match j with
  | .arr #[.str "edit", p] => (kvsOf? p).map .edit
  | .arr #[.str "setFins", l] => (jStrList? l).map .setFins
  | .arr #[.str "delete"] => some .delete
  | .arr #[.str "recreate", b] => (kvsOf? b).map .recreate
  | _ => none

def kindName : Kind → String
  | .mergeBody => "mergeBody"
  | .mergeStatus => "mergeStatus"
  | .jsonBody => "jsonBody"
  | .jsonStatus => "jsonStatus"

/-- slips/faults: objects keyed by request kind; a missing key = nothing; anything unparsable
    rejects the whole request (never a default). -/
def envOf? (j : Json) : Option Env := do
  let sl ← jField? j "slips"
  let fl ← jField? j "faults"
  let kinds := [Kind.mergeBody, .mergeStatus, .jsonBody, .jsonStatus]
  let slips ← kinds.mapM (fun k =>
    match jField? sl (kindName k) with
    | none | some .null => some (k, ([] : List Foreign))
    | some (.arr ws) =>
        -- one write `["edit", …]` or a list of writes `[["edit", …], ["delete"]]`
        match ws.toList with
        | .str _ :: _ => (foreignOf? (.arr ws)).map (fun x => (k, [x]))
        | l => (l.mapM foreignOf?).map (fun xs => (k, xs))
    | some _ => none)
  let faults ← kinds.mapM (fun k =>
    match jField? fl (kindName k) with
    | none => some (k, Fault.none)
    | some x => match jNat? x with
      | some 0 => some (k, Fault.none)
      | some 404 => some (k, Fault.notFound)
      | some 422 => some (k, Fault.unprocessable)
      | some 200 => none
      | some c => some (k, Fault.error c)
      | none => none)
  let look {α} (l : List (Kind × α)) (d : α) (k : Kind) : α := ((l.find? (·.1 == k)).map (·.2)).getD d
  some { slips := look slips [], faults := look faults Fault.none }

def payloadJson : Payload → Json
  | .merge p => Json.mkObj [("merge", ofJ (.obj p))]
  | .json t fi st => Json.mkObj [("test", natJ t),
      ("fins", match fi with | some l => .arr (l.map Json.str).toArray | none => .null),
      ("status", match st with | some v => ofJ v | none => .null)]

def reqJson (r : Req) : Json :=
  Json.mkObj [("kind", .str (kindName r.kind)), ("payload", payloadJson r.payload),
    ("target", match r.target with | some u => natJ u | none => .null), ("code", natJ r.code)]

def optFnsJson : Option (List Fn) → Json
  | some l => .arr (l.map fnJson).toArray
  | none => .null

def outcomeJson : Outcome → Json
  | .ok rem body => Json.mkObj [("kind", .str "ok"), ("remaining", optFnsJson rem),
      ("body", match body with
        | some o => Json.mkObj [("uid", natJ o.uid), ("rv", natJ o.rv)]
        | none => .null)]
  | .gone => Json.mkObj [("kind", .str "gone")]
  | .raised => Json.mkObj [("kind", .str "raised")]

def resultJson (r : Result) : Json :=
  Json.mkObj [("reqs", .arr (r.reqs.map reqJson).toArray), ("server", serverJson r.server),
    ("outcome", outcomeJson r.outcome)]

/-- a cycle's `orig`: an explicit object, or "server" = what the server holds at that moment. -/
def origOf? (j : Json) (s : Server) : Option Obj :=
  match j with
  | .str "server" => s.obj
  | j => objOf? j

/-- `prev`: the uid the memory belongs to. `process_resource_event` keeps its memory per uid (`recalled`); a
    daemon/timer runner keeps its own patch object whatever happens to the name. -/
def runCycles (daemon sub : Bool) : List Json → Option Nat → Option (List Fn) → Server → List Json → Option (List Json × Server × Option (List Fn))
  | [], _, mem, s, acc => some (acc.reverse, s, mem)
  | c :: rest, prev, mem, s, acc => do
      let fields ← kvsOf? (← jField? c "fields")
      let fns ← fnsOf? (← jField? c "fns")
      let orig ← origOf? (← jField? c "orig") s
      let env ← envOf? c
      let mem := if daemon then mem else recalled prev orig mem
      let (r, mem') := cycleOf daemon sub mem fields fns orig env s
      runCycles daemon sub rest (some orig.uid) mem' r.server
        (Json.mkObj [("result", resultJson r), ("memory", optFnsJson mem')] :: acc)

/-- replay of an interleaving of several daemons/timers of one object through `dstep`. The environment is not
    modelled in this tie: every delivery comes with the server state it started on. -/
def runLabels (sub : Bool) : List Json → DaemonsState → List Json → Option (List Json)
  | [], _, acc => some acc.reverse
  | l :: rest, st, acc =>
    match jField? l "write" with
    | some dj => do
        let d ← jStr? dj
        let kvs ← kvsOf? (← jField? l "set")
        let fns ← fnsOf? (← jField? l "fns")
        let st' := (dstep sub st (.write d (fun f => Kopf.J.mergeKvs f kvs) fns)).1
        runLabels sub rest st' acc
    | none => do
        let d ← jStr? (← jField? l "deliver")
        let orig ← objOf? (← jField? l "orig")
        let srv ← serverOf? (← jField? l "server")
        let env ← envOf? l
        let (st', out) := dstep sub { st with server := srv } (.deliver d orig env)
        let (p, r) ← out
        runLabels sub rest st'
          (Json.mkObj [("daemon", .str d), ("fields", ofJ (.obj p.fields)), ("fns", .arr (p.fns.map fnJson).toArray),
                       ("result", resultJson r)] :: acc)

def namesOf? (j : Json) : Option (List Kopf.C08.Name) := do (← jStrList? j).mapM (fun s => some s.toList)

def nameJson (n : Kopf.C08.Name) : Json := .str (String.ofList n)

/-- the `sub` of a call: given, or — with a `discovery` field `{names, plural}` — what the model of
    `scanning._read_version` + `'status' in resource.subresources` makes of the discovery answer the cluster served -/
def subOf? (j : Json) : Option Bool :=
  match jField? j "discovery" with
  | some d => do
      let names ← namesOf? (← jField? d "names")
      let plural ← jStr? (← jField? d "plural")
      some (believesStatus names plural.toList)
  | none => do jBool? (← jField? j "sub")

def handle : DrvHandler := fun op args =>
  match op, args with
  | "C08.discover", [j] => do
      let names ← namesOf? j
      some (ok (.arr ((readVersion names).map (fun (p, subs) =>
        Json.arr #[nameJson p, .arr (subs.map nameJson).toArray])).toArray))
  | "C08.patch", [j] => do
      let sub ← jBool? (← jField? j "sub")
      let fields ← kvsOf? (← jField? j "fields")
      let fns ← fnsOf? (← jField? j "fns")
      let orig ← objOf? (← jField? j "orig")
      let s ← serverOf? (← jField? j "server")
      let env ← envOf? j
      some (ok (resultJson (patchObj sub ⟨fields, fns⟩ orig env s)))
  | "C08.cycles", [j] => do
      let sub ← subOf? j
      let daemon ← jBool? (← jField? j "daemon")
      let s ← serverOf? (← jField? j "server")
      let mem ← jOpt? fnsOf? (← jField? j "memory")
      let cs ← jArr? (← jField? j "cycles")
      let (outs, s', mem') ← runCycles daemon sub cs none mem s []
      some (ok (Json.mkObj [("cycles", .arr outs.toArray), ("server", serverJson s'), ("memory", optFnsJson mem')]))
  | "C08.drun", [j] => do
      let sub ← jBool? (← jField? j "sub")
      let ls ← jArr? (← jField? j "labels")
      let outs ← runLabels sub ls ⟨⟨0, 0, none⟩, fun _ => [], fun _ => []⟩ []
      some (ok (.arr outs.toArray))
  | "C08.fns", [fj, oj] => do
      let fns ← fnsOf? fj
      let o ← objOf? oj
      some (ok (objJson (applyFns fns o)))
  | _, _ => none

end Kopf.Drv.C08
