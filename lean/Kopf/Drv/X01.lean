import Kopf.Drv.Json
import Kopf.Drv.C02
import Kopf.Drv.C05
import Kopf.Drv.C14
import Kopf.Drv.C03
import Kopf.Drv.C07
import Kopf.Model.X01_Reactor
open Lean
namespace Kopf.Drv.X01
open Kopf.X01 Kopf

/-- `{"work": d}`, `{"foreign": [essence, at]}`, `{"delete": at}`, `{"carry": "ops"|"noop"|"none"}`, `{"retire": t}` -/
def actOf? (j : Json) : Option (Act Nat) :=
  match jField? j "work", jField? j "foreign", jField? j "delete", jField? j "carry", jField? j "retire" with
  | some d, none, none, none, none => (jNat? d).map Act.work
  | none, some f, none, none, none => do
      match ← jArr? f with
      | [e, a] => some (Act.foreign (← jNat? e) (← jInt? a))
      | _ => none
  | none, none, some a, none, none => (jInt? a).map Act.delete
  | none, none, none, some c, none =>
      match c with
      | .str "ops" => some (Act.carry .ops)
      | .str "noop" => some (Act.carry .noop)
      | .str "none" => some (Act.carry .none)
      | _ => none
  | none, none, none, none, some t => (jInt? t).map Act.retire
  | _, _, _, _, _ => none

def baseJson (o : Obj Nat) : Json :=
  match o.base with
  | none => .str "none"
  | some b => if b = o.ess then .str "same" else .str "diff"

/-- cut the closure chain of a store: a finite table over the universe. The table is a `let` of a fully applied
    function, so it is built ONCE here (a partially applied `tabulate univ P` would rebuild it at every lookup). -/
def tabObj (univ : List String) (o : Obj Nat) : Obj Nat :=
  let tbl := univ.filterMap (fun i => (o.P i).map (fun rc => (i, rc)))
  { o with P := C02.lookupD tbl }

/-- one record per action; for a worker iteration: what it dequeued, what C07's processor decided, which of C03's
    turns it was, and the object/memory/worker after it -/
def replay (T idle : Int) (env0 : Kopf.C03.Env) (univ : List String) :
    RState Nat → List (Act Nat × Option (String → Nat → Kopf.C02.Outcome)) → List Json → List Json
  | _, [], acc => acc.reverse
  | r, (a, ex) :: rest, acc =>
    -- the handlers' behaviour in THIS iteration (scripts advance from call to call): C03's `Act.turn exec`
    let env : Kopf.C03.Env := match ex with | some x => { env0 with exec := x } | none => env0
    let r' := act T idle env r a
    -- keep the stores finite tables (otherwise every lookup re-evaluates all earlier turns)
    let r' : RState Nat := { r' with srv := tabObj univ r'.srv,
                                      queue := r'.queue.map (fun ev => { ev with snap := tabObj univ ev.snap }) }
    let row := match a, r.queue with
      | .work _, ev :: more =>
        let t0 := if r.clock < ev.at_ then ev.at_ else r.clock
        let sv := viewOf r ev.snap t0
        let it := iter0 env r ev more t0
        let w1 := Kopf.C07.arrive r.w it.ver
        let o := Kopf.C07.process w1.deadline it
        let ranHandlers := !o.held && !sv.gone && (Kopf.C03.decisionOf env sv).handlersRun &&
          !(Kopf.C03.adjusting env sv) && env.prematch
        Json.mkObj [
          ("work", .bool true), ("ver", .num (JsonNumber.fromNat ev.ver)), ("now", C07.intJson t0),
          ("stale", .bool (ev.ver != r.rv)),
          ("given", C07.optJson C07.intJson w1.deadline),
          ("held", .bool o.held), ("slept", C07.optJson (fun (s : Kopf.C07.Slept) => Json.arr #[C07.intJson s.tEnd, .bool s.timedOut]) o.slept),
          ("entered", C07.optJson C07.intJson o.entered), ("wait", C07.optJson C07.intJson o.wait),
          ("required", .bool it.required),
          ("reason", .str (if sv.gone then "gone"
                           else if (Kopf.C03.decisionOf env sv).add then "add-finalizer"
                           else if (Kopf.C03.decisionOf env sv).removeUnneeded then "remove-finalizer"
                           else if !env.prematch then "blind"
                           else C14.reasonStr (Kopf.C03.causeOf sv).reason)),
          ("invoked", if ranHandlers
            then .arr ((Kopf.C03.pass env { sv with now := o.left }).invoked.map
                        (fun (i, n) => Json.arr #[.str i, .num (JsonNumber.fromNat n)])).toArray
            else .arr #[]),
          ("after", C07.stateJson r'.w),
          ("patched", if r'.rv != r.rv then .num (JsonNumber.fromNat r'.rv) else .null),
          ("P", C03.recsJson univ r'.srv.P), ("base", baseJson r'.srv), ("blocked", .bool r'.srv.blocked),
          ("gone", .bool r'.srv.gone), ("fullyHandled", .bool r'.fullyHandled),
          ("writes", .num (JsonNumber.fromNat (r'.writes - r.writes))),
          ("clock", C07.intJson r'.clock), ("queued", .num (JsonNumber.fromNat r'.queue.length)),
          ("runs", .num (JsonNumber.fromNat r'.ran.length))]
      | .work _, [] => Json.mkObj [("work", .bool false)]
      | _, _ => Json.mkObj [("env", .bool true), ("rv", .num (JsonNumber.fromNat r'.rv)),
                            ("queued", .num (JsonNumber.fromNat r'.queue.length)), ("after", C07.stateJson r'.w)]
    replay T idle env0 univ r' rest (row :: acc)

def handle : DrvHandler := fun op args =>
  match op, args with
  | "X01.run", [j] => do
      let T ← jInt? (← jField? j "T")
      let idle ← jInt? (← jField? j "idle")
      let decls ← (← jArr? (← jField? j "decls")).mapM C14.declOf?
      let matched ← jStrList? (← jField? j "matched")
      let subs ← jStrList? (← jField? j "subs")
      let lifecycle ← jStr? (← jField? j "lifecycle") >>= C02.lifecycleOf?
      let limitsL ← (← C02.objPairs? (← jField? j "limits")).mapM (fun (k, v) => do pure (k, ← C02.limitsOf? v))
      let oT ← C03.outcomeTable? (← jField? j "outcomes")
      let prematch ← jBool? (← jField? j "prematch")
      let changeReq ← jBool? (← jField? j "changeReq")
      let foreignFins ← jBool? (← jField? j "foreignFins")
      let constPatch ← jBool? (← jField? j "constPatch")
      let lat ← jInt? (← jField? j "lat")
      let rtt ← jInt? (← jField? j "rtt")
      let cap ← jInt? (← jField? j "cap")
      let univ ← jStrList? (← jField? j "universe")
      let ess ← jNat? (← jField? j "ess")
      let now ← jInt? (← jField? j "now")
      let noticed ← jBool? (← jField? j "noticed")
      let missing : Kopf.C02.Outcome := { final := false, delay := some (-1), error := true, subrefs := ["<no-outcome>"] }
      let acts ← (← jArr? (← jField? j "acts")).mapM (fun a => do
        let act ← actOf? (match a with | .obj kvs => Json.obj (kvs.erase "outcomes") | x => x)
        let ex ← match jField? a "outcomes" with
          | some o => do
              let tbl ← C03.outcomeTable? o
              pure (some (fun (i : String) (n : Nat) => ((C02.lookupD tbl i).bind (fun rows => (rows.find? (·.1 == n)).map (·.2))).getD missing))
          | none => pure none
        pure (act, ex))
      let env : Kopf.C03.Env := {
        owned := decls.map (·.id), subs,
        sel := fun c => (decls.filter (fun d => Kopf.C05.gate d.gate c && matched.contains d.id)).map (·.id),
        limits := fun i => (C02.lookupD limitsL i).getD { timeout := none, retries := none },
        lifecycle,
        exec := fun i n => ((C02.lookupD oT i).bind (fun rows => (rows.find? (·.1 == n)).map (·.2))).getD missing,
        prematch, changeReq, foreignFins, constPatch, lat, rtt, cap,
        initialH := fun i => (decls.find? (·.id == i)).any (·.gate.initial),
        boundH := fun c i => (decls.filter (fun d => d.id == i && Kopf.C05.gate d.gate c && matched.contains d.id)).any
          (·.gate.reason.isSome) }
      let s0 : Kopf.C03.State Nat := { Kopf.C03.created ess now with noticed := noticed }
      let r0 : RState Nat := ofLoop s0 1
      some (ok (Json.mkObj [("steps", .arr (replay T idle env univ r0 acts []).toArray)]))
  | _, _ => none

end Kopf.Drv.X01
