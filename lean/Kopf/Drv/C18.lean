import Kopf.Drv.Json
import Kopf.Model.C18_Admission
open Lean
namespace Kopf.Drv.C18
open Kopf Kopf.C18

def errTag : J.DictErr → String
  | .typeError => "type-error"
  | .keyError => "key-error"
  | .valueError => "value-error"

def fnOf? (j : Json) : Option Fn := do
  match ← jArr? j with
  | [.str "add", .str f] => some (.addFinalizer f)
  | [.str "remove", .str f] => some (.removeFinalizer f)
  | _ => none

def kindOf? : String → Option ErrKind
  | "admission" => some .admission | "permanent" => some .permanent
  | "temporary" => some .temporary | "other" => some .other
  | _ => none

def outcomeOf? (j : Json) : Option Outcome :=
  match j with
  | .null => some none
  | _ => do
      let k ← jStr? (← jField? j "kind") >>= kindOf?
      let c ← jOpt? jInt? (← jField? j "code")
      let s ← jStr? (← jField? j "str")
      let r ← jStr? (← jField? j "repr")
      some (some ⟨k, c, s, r⟩)

def typeOf? : String → Option WebhookType
  | "validating" => some .validating | "mutating" => some .mutating | _ => none

def handlerOf? (j : Json) : Option Handler := do
  let i ← jStr? (← jField? j "id")
  let r ← jStr? (← jField? j "reason") >>= typeOf?
  let o ← jOpt? jStrList? (← jField? j "operations")
  let s ← jOpt? jStr? (← jField? j "subresource")
  some ⟨i, r, o, s⟩

def causeOf? (j : Json) : Option Cause := do
  let r ← jOpt? (fun x => jStr? x >>= typeOf?) (← jField? j "reason")
  let w ← jOpt? jStr? (← jField? j "webhook")
  let o ← jOpt? jStr? (← jField? j "operation")
  let s ← jOpt? jStr? (← jField? j "subresource")
  some ⟨r, w, o, s⟩

def kvsOf? (j : Json) : Option (List (String × J)) := do
  match ← toJ j with
  | .obj kvs => some kvs
  | _ => none

def respJson (r : Response) : Json :=
  Json.mkObj [
    ("allowed", .bool r.allowed),
    ("status", match r.status with
      | none => .null
      | some s => Json.mkObj [("message", .str s.message), ("code", .num (JsonNumber.fromInt s.code))]),
    ("warnings", match r.warnings with
      | none => .null
      | some ws => .arr (ws.map Json.str).toArray)]

def handle : DrvHandler := fun op args =>
  match op, args with
  | "C18.apply", [b, p, fns] => do
      let b ← toJ b
      let p ← kvsOf? p
      let fns ← (← jArr? fns).mapM fnOf?
      match mutated b p fns with
      | .ok b' => some (ok (ofJ b'))
      | .error e => some (err (errTag e))
  | "C18.merge", [b, p] => do
      let b ← toJ b
      let p ← toJ p
      some (ok (ofJ (J.mergePatch b p)))
  | "C18.response", [outs, ws] => do
      let outs ← (← jArr? outs).mapM outcomeOf?
      let ws ← jStrList? ws
      some (ok (respJson (buildResponse outs ws)))
  | "C18.gate", [h, c, m] => do
      let h ← handlerOf? h
      let c ← causeOf? c
      let m ← jBool? m
      some (ok (.bool (gate h c m)))
  | _, _ => none

end Kopf.Drv.C18
