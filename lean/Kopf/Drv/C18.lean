import Kopf.Drv.Json
import Kopf.Model.C18_Admission
open Lean
namespace Kopf.Drv.C18
open Kopf Kopf.C18

def errTag : J.DictErr → String
  | .typeError => "type-error"
  | .keyError => "key-error"
  | .valueError => "value-error"

def kvsOf? (j : Json) : Option (List (String × J)) := do
  match ← toJ j with
  | .obj kvs => some kvs
  | _ => none

def fnOf? (j : Json) : Option Fn := do
  match ← jArr? j with
  | [.str "add", .str f] => some (.addFinalizer f)
  | [.str "remove", .str f] => some (.removeFinalizer f)
  | [.str "merge", q] => (kvsOf? q).map Fn.mergeWith
  | _ => none

def kindOf? : String → Option ErrKind
  | "admission" => some .admission | "permanent" => some .permanent
  | "temporary" => some .temporary | "other" => some .other
  | _ => none

def outcomeOf? (j : Json) : Option Outcome :=
  match j with
  | .null => some none
  | _ => do
      let k ← jStr? (← jField? j "kind") >>= kindOf?
      let c ← jOpt? jInt? (← jField? j "code")
      let s ← jStr? (← jField? j "str")
      let r ← jStr? (← jField? j "repr")
      some (some ⟨k, c, s, r⟩)

def typeOf? : String → Option WebhookType
  | "validating" => some .validating | "mutating" => some .mutating | _ => none

def handlerOf? (j : Json) : Option Handler := do
  let i ← jStr? (← jField? j "id")
  let r ← jStr? (← jField? j "reason") >>= typeOf?
  let o ← jOpt? jStrList? (← jField? j "operations")
  let s ← jOpt? jStr? (← jField? j "subresource")
  let f ← jStr? (← jField? j "fn")
  some ⟨i, r, o, s, f⟩

def causeOf? (j : Json) : Option Cause := do
  let r ← jOpt? (fun x => jStr? x >>= typeOf?) (← jField? j "reason")
  let w ← jOpt? jStr? (← jField? j "webhook")
  let o ← jOpt? jStr? (← jField? j "operation")
  let s ← jOpt? jStr? (← jField? j "subresource")
  some ⟨r, w, o, s⟩

def respJson (r : Response J) : Json :=
  Json.mkObj [
    ("allowed", .bool r.allowed),
    ("status", match r.status with
      | none => .null
      | some s => Json.mkObj [("message", .str s.message), ("code", .num (JsonNumber.fromInt s.code))]),
    ("warnings", match r.warnings with
      | none => .null
      | some ws => .arr (ws.map Json.str).toArray),
    ("patch", match r.patch with
      | none => .null
      | some ops => .arr (ops.map ofJ).toArray),
    ("patchType", match r.patchType with
      | none => .null
      | some t => .str t)]

/-- one registered handler with the remaining-filters bit and what its invocation did -/
def entryOf? (j : Json) : Option ((Handler × Bool) × Act) := do
  let h ← handlerOf? (← jField? j "handler")
  let m ← jBool? (← jField? j "m")
  let ws ← jStrList? (← jField? j "warnings")
  let e ← outcomeOf? (← jField? j "error")
  some ((h, m), ⟨ws, e⟩)

def handle : DrvHandler := fun op args =>
  match op, args with
  | "C18.apply", [b, p, fns] => do
      let b ← toJ b
      let p ← kvsOf? p
      let fns ← (← jArr? fns).mapM fnOf?
      match mutated b p fns with
      | .ok b' => some (ok (ofJ b'))
      | .error e => some (err (errTag e))
  | "C18.merge", [b, p] => do
      let b ← toJ b
      let p ← toJ p
      some (ok (ofJ (J.mergePatch b p)))
  | "C18.response", [outs, ws, ops] => do
      let outs ← (← jArr? outs).mapM outcomeOf?
      let ws ← jStrList? ws
      let ops ← (← jArr? ops).mapM toJ
      some (ok (respJson (buildResponse outs ws ops)))
  | "C18.serve", [entries, c, b, p, fns, ops] => do
      -- `ops` = what the real `jsonpatch.from_diff` returned for this review (the diff library is a
      -- parameter of the model): the model decides selection, order, status, warnings, patch presence.
      let es ← (← jArr? entries).mapM entryOf?
      let c ← causeOf? c
      let b ← toJ b
      let p ← kvsOf? p
      let fns ← (← jArr? fns).mapM fnOf?
      let ops ← (← jArr? ops).mapM toJ
      let act : Handler → Act := fun h =>
        match es.find? (fun e => e.1.1.key == h.key) with
        | some e => e.2
        | none => ⟨[], none⟩
      match serve (fun _ _ => ops) (es.map (·.1)) c act b p fns with
      | .ok r => some (ok (respJson r))
      | .error e => some (err (errTag e))
  | "C18.review", [entries, c, new, old, b_p, fns, ops] => do
      -- the whole review from the request payload on: `object` / `oldObject` (null = absent)
      let es ← (← jArr? entries).mapM entryOf?
      let c ← causeOf? c
      let new ← jOpt? toJ new
      let old ← jOpt? toJ old
      let p ← kvsOf? b_p
      let fns ← (← jArr? fns).mapM fnOf?
      let ops ← (← jArr? ops).mapM toJ
      let act : Handler → Act := fun h =>
        match es.find? (fun e => e.1.1.key == h.key) with
        | some e => e.2
        | none => ⟨[], none⟩
      match serveReview (fun _ _ => ops) (es.map (·.1)) c act new old p fns with
      | none => some (err "missing-data")
      | some (.ok r) => some (ok (respJson r))
      | some (.error e) => some (err (errTag e))
  | "C18.ruleops", [h] => do
      let h ← handlerOf? h
      some (ok (.arr ((managedRuleOps h).map Json.str).toArray))
  | "C18.select", [entries, c] => do
      let es ← (← jArr? entries).mapM entryOf?
      let c ← causeOf? c
      some (ok (.arr ((select (es.map (·.1)) c).map (fun h => Json.arr #[.str h.fn, .str h.id])).toArray))
  | "C18.gate", [h, c, m] => do
      let h ← handlerOf? h
      let c ← causeOf? c
      let m ← jBool? m
      some (ok (.bool (gate h c m)))
  | _, _ => none

end Kopf.Drv.C18
