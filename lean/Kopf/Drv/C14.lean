import Kopf.Drv.Json
import Kopf.Drv.C02
import Kopf.Drv.C05
import Kopf.Model.C14_Resume
import Kopf.Model.C14_Results
import Kopf.Model.C14_Memories
open Lean
namespace Kopf.Drv.C14
open Kopf.C14 Kopf

def declOf? (j : Json) : Option Decl := do
  let id ← jStr? (← jField? j "id")
  let g ← C05.handlerOf? (← jField? j "gate")
  some { id, gate := g }

def memOf? (j : Json) : Option (Option Mem) :=
  match j with
  | .null => some none
  | j => do
      let n ← match (← jField? j "noticed") with      -- `noticed_by_listing: bool | None`
        | .null => some none
        | b => (jBool? b).map some
      let f ← jBool? (← jField? j "fullyHandled")
      let r ← jStrList? (← jField? j "resumed")
      some (some { noticed := n, fullyHandled := f, resumed := r })

def memJson : Option Mem → Json
  | none => .null
  | some m => Json.mkObj [("noticed", match m.noticed with | some b => .bool b | none => .null), ("fullyHandled", .bool m.fullyHandled),
                          ("resumed", .arr (m.resumed.map Json.str).toArray)]

/-- the arguments of one processing cycle (shared by `C14.step` and `C14.stepR`) -/
def stepArgs? (j : Json) : Option (List Decl × Option Mem × C02.Store × Event × List String) := do
  let decls ← (← jArr? (← jField? j "decls")).mapM declOf?
  let mem ← memOf? (← jField? j "mem")
  let flags ← (← jArr? (← jField? j "flags")).mapM jBool?
  let (byListing, deleted, marked, blocked, oldAbsent, diffNonEmpty, suppressed) ←
    match flags with
    | [a, b, c, d, e, f, g] => some (a, b, c, d, e, f, g)
    | _ => none
  let matched ← jStrList? (← jField? j "matched")
  let lifecycle ← jStr? (← jField? j "lifecycle") >>= C02.lifecycleOf?
  let limitsL ← (← C02.objPairs? (← jField? j "limits")).mapM (fun (k, v) => do pure (k, ← C02.limitsOf? v))
  let pL ← (← C02.objPairs? (← jField? j "P")).filterMapM (fun (k, v) =>
    match v with
    | .null => some none
    | v => do let r ← C02.recOf? v; pure (some (k, r)))
  let oL ← (← C02.objPairs? (← jField? j "outcomes")).mapM (fun (k, v) => do pure (k, ← C02.outcomeOf? v))
  let now ← jInt? (← jField? j "now")
  let now1 ← jInt? (← jField? j "now1")
  let univ ← jStrList? (← jField? j "universe")
  let missing : Kopf.C02.Outcome := { final := false, delay := some (-1), error := true, subrefs := ["<no-outcome>"] }
  let e : Event := {
    byListing, deleted, marked, blocked, oldAbsent, diffNonEmpty, suppressed,
    matchF := fun i => matched.contains i,
    limits := fun i => (C02.lookupD limitsL i).getD { timeout := none, retries := none },
    lifecycle, now, now1,
    exec := fun i _ => (C02.lookupD oL i).getD missing }
  some (decls, mem, C02.lookupD pL, e, univ)

def stepJson' (decls : List Decl) (mem : Option Mem) (e : Event) (univ : List String) (r : StepResult) : Json :=
  let c := causeOf (recall mem e) e
  Json.mkObj [
    ("mem", memJson r.mem),
    ("reason", .str (reasonStr c.reason)),
    ("selected", .arr ((cfgOf decls (recall mem e) e).selected.map Json.str).toArray),
    ("invoked", .arr (r.invoked.map (fun (i, n) => Json.arr #[.str i, .num (JsonNumber.fromNat n)])).toArray),
    ("P", Json.mkObj (univ.map (fun i => (i, match r.P i with | some rc => C02.recJson rc | none => .null)))),
    ("closed", .bool r.closed)]

def shapeOf? (j : Json) : Option ResultShape := do
  match (← (← jArr? j).mapM jBool?) with
  | [a, b, c, d, e] => some { isNone := a, isMapping := b, copyable := c, jsonRaw := d, jsonPatch := e }
  | _ => none

/-- what `_build_key` reads of a raw body: every part a string or null (a missing part must be sent as null) -/
def identOf? (j : Json) : Option C14.Ident := do
  let f (k : String) : Option (Option String) := do jOpt? jStr? (← jField? j k)
  some { uid := ← f "uid", kind := ← f "kind", apiVersion := ← f "apiVersion", name := ← f "name", ns := ← f "namespace",
         created := ← f "creationTimestamp" }

/-- The operator's container over one incarnation: entries `[ident, mem]` in the order of happening, `mem` = the
    object's memory as the entry LEFT it (null: forgotten / never remembered). Answer: for every entry, the key and the
    memory the container model finds for the object right BEFORE it. -/
def threadJson (entries : List (C14.Ident × Option Mem)) : Json :=
  let rec go (M : Memories) : List (C14.Ident × Option Mem) → List Json
    | [] => []
    | (o, after) :: rest =>
        let k := buildKey o
        Json.mkObj [("key", .str k), ("mem", memJson (M.get k))] :: go (M.put k after) rest
  .arr (go [] entries).toArray

def handle : DrvHandler := fun op args =>
  match op, args with
  | "C14.step", [j] => do
      let (decls, mem, P, e, univ) ← stepArgs? j
      some (ok (stepJson' decls mem e univ (step decls mem P e)))
  | "C14.stepR", [j] => do      -- the cycle with the results its handlers returned / the patch lost on its way
      let (decls, mem, P, e, univ) ← stepArgs? j
      let rs ← (← jArr? (← jField? j "results")).mapM shapeOf?
      let lost ← jBool? (← jField? j "patchLost")
      let r := stepR decls mem P e rs lost
      some (ok (Json.mkObj [("step", stepJson' decls mem e univ r), ("deliveryRaises", .bool (deliveryRaises rs)),
                            ("wireRaises", .bool (wireRaises rs))]))
  | "C14.thread", [j] => do         -- one incarnation: every cycle / admission request of every object, in order
      let entries ← (← jArr? j).mapM (fun x => do
        match (← jArr? x) with
        | [o, m] => do pure (← identOf? o, ← memOf? m)
        | _ => none)
      some (ok (threadJson entries))
  | "C14.admission", [j] => do      -- one admission request served for the object: the memory before → after
      let mem ← memOf? (← jField? j "mem")
      let create ← jBool? (← jField? j "create")
      some (ok (Json.mkObj [("mem", memJson (admission mem create))]))
  | _, _ => none

end Kopf.Drv.C14
