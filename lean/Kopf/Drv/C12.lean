import Kopf.Drv.Json
import Kopf.Model.C12_Request
import Kopf.Model.C12_Throttle
import Kopf.Model.C12_Process
import Kopf.Model.C12_Patch
import Kopf.Model.C12_Vault
open Lean
namespace Kopf.Drv.C12
open Kopf.C12

def clsStr : ErrClass → String
  | .unauthorized => "unauthorized" | .forbidden => "forbidden" | .notFound => "not-found"
  | .conflict => "conflict" | .unprocessable => "unprocessable" | .tooMany => "too-many"
  | .client => "client" | .server => "server" | .apiError => "api-error" | .conn => "conn"
  | .timeout => "timeout" | .sessionClosed => "session-closed" | .other => "other"

def payloadOf? : String → Option PayloadKind
  | "status" => some .statusJson | "other-json" => some .otherJson | "text" => some .text
  | "empty" => some .empty | "other-value" => some .otherValue | "bad-details" => some .badDetails
  | _ => none

def hdrOf? : Json → Option Hdr
  | .null => some .absent
  | .arr #[.str "secs", x] => do some (.secs (← jInt? x))
  | .arr #[.str "date", x] => do some (.date (← jInt? x))
  | .arr #[.str "garbage"] => some .garbage
  | .arr #[.str "other-case", x] => do some (.otherCase (← jInt? x))
  | .arr #[.str "overflow"] => some .overflow
  | _ => none

def faultOf? (j : Json) : Option Fault := do
  let xs ← jArr? j
  match xs with
  | [.str "ok"] => some .ok
  | [.str "http", st, h, p, d] =>
    let st ← jNat? st
    let h ← hdrOf? h
    let p ← jStr? p >>= payloadOf?
    let d ← jOpt? jInt? d
    some (.http ⟨st, h, p, d, false⟩)
  | [.str "http", st, h, p, d, bad] =>
    let st ← jNat? st
    let h ← hdrOf? h
    let p ← jStr? p >>= payloadOf?
    let d ← jOpt? jInt? d
    some (.http ⟨st, h, p, d, ← jBool? bad⟩)
  | [.str "exc", a, b, c, d, e] =>
    some (.exc (← jBool? a) (← jBool? b) (← jBool? c) (← jBool? d) (← jBool? e))
  | _ => none

def attOf? (j : Json) : Option Att := do
  let f ← faultOf? (← jField? j "f")
  let l ← jNat? (← jField? j "lat")
  some ⟨f, l⟩

def intList? (j : Json) : Option (List Int) := do (← jArr? j).mapM jInt?

/-- a delay/backoff sequence: {"list": [..]} or {"cycle": [pre, cyc]} (pre ++ cyc ++ cyc ++ …) -/
def seqOf? (j : Json) : Option (Nat → Option Int) :=
  match jField? j "list" with
  | some l => do
    let l ← intList? l
    some (fun i => l[i]?)
  | none => do
    let pc ← jArr? (← jField? j "cycle")
    match pc with
    | [p, c] =>
      let p ← intList? p
      let c ← intList? c
      if c.isEmpty then none else
      some (fun i => if i < p.length then p[i]? else c[(i - p.length) % c.length]?)
    | _ => none

def backoffsOf? (j : Json) : Option Backoffs :=
  match jField? j "scalar" with
  | some s => do some (ofScalar (← jInt? s))
  | none => seqOf? j

def delaysOf? (j : Json) : Option Delays :=
  match jField? j "scalar" with
  | some s => do some (.scalar (← jInt? s))
  | none => do some (.seq (← seqOf? j))

def jInts (l : List Int) : Json := .arr (l.map (fun i => Json.num (JsonNumber.fromInt i))).toArray
def jInt (i : Int) : Json := .num (JsonNumber.fromInt i)
def jOptInt : Option Int → Json
  | some i => jInt i
  | none => .null
def jOptNat : Option Nat → Json
  | some i => jInt i
  | none => .null

def outcomeJ : Outcome → Json
  | .ok => .str "ok"
  | .escalated c => .str (clsStr c)

def bodyOf? : String → Option Body
  | "success" => some .success | "error" => some (.error true) | "foreign" => some (.error false)
  | "base" => some .baseExc | _ => none

def cycleInOf? (j : Json) : Option (CycleIn × Nat) := do
  let b ← jStr? (← jField? j "body") >>= bodyOf?
  let ran ← jBool? (← jField? j "ran")
  let dur ← jNat? (← jField? j "dur")
  let w1 ← jOpt? jNat? (← jField? j "wake1")
  let w2 ← jOpt? jNat? (← jField? j "wake2")
  let gap ← jNat? (← jField? j "gap")
  some (⟨b, ran, dur, w1, w2⟩, gap)

def escStr : Escaped → String
  | .none_ => "none" | .exception => "exception" | .baseException => "base-exception"
  | .typeError => "type-error"

def cycleOutJ (o : CycleOut) : Json :=
  Json.mkObj [("shouldRun", .bool o.shouldRun), ("escaped", .str (escStr o.escaped)),
    ("activated", jOptInt o.activated), ("sleep1", jInt o.sleep1), ("sleep2", jInt o.sleep2),
    ("fin", jInt o.fin),
    ("st", Json.mkObj [("pos", jOptNat o.st.src), ("last", jOptInt o.st.last),
                       ("until", jOptInt o.st.activeUntil)])]

-- ---- vault --------------------------------------------------------------------------------
open Kopf.C12.V in
def srcOf? (j : Json) : Option (List (Key × Nat × Int)) := do
  (← jArr? j).mapM (fun e => do
    match ← jArr? e with
    | [k, i, p] => some (← jNat? k, ← jNat? i, ← jInt? p)
    | _ => none)

open Kopf.C12.V in
def labelOf? (j : Json) : Option Label := do
  match ← jArr? j with
  | [.str "start", r] => some (.start (← jNat? r))
  | [.str "acquire", r, k] => some (.acquire (← jNat? r) (← jNat? k))
  | [.str "acquireFail", r] => some (.acquireFail (← jNat? r))
  | [.str "ok", r] => some (.ok (← jNat? r))
  | [.str "fail", r] => some (.fail (← jNat? r))
  | [.str "unauth", r] => some (.unauth (← jNat? r))
  | [.str "inval", r] => some (.inval (← jNat? r))
  | [.str "invalWake", r] => some (.invalWake (← jNat? r))
  | [.str "post", r] => some (.post (← jNat? r))
  | [.str "authStart"] => some .authStart
  | [.str "populate", src] => some (.populate (← srcOf? src))
  | _ => none

open Kopf.C12.V in
def itemJ (k : Key) (it : Item) : Json := .arr #[jInt k, jInt it.id, jInt it.info, jInt it.prio]

open Kopf.C12.V in
def pcJ (r : Nat) : Pc → Json
  | .idle => .arr #[jInt r, .str "idle"]
  | .acquiring => .arr #[jInt r, .str "acquiring"]
  | .using k it => .arr #[jInt r, .str "using", jInt k, jInt it.id]
  | .invalidating k it => .arr #[jInt r, .str "invalidating", jInt k, jInt it.id]
  | .invalWaiting k it => .arr #[jInt r, .str "invalWaiting", jInt k, jInt it.id]
  | .postYield k it => .arr #[jInt r, .str "postYield", jInt k, jInt it.id]
  | .done .ok => .arr #[jInt r, .str "done", .str "ok"]
  | .done .error => .arr #[jInt r, .str "done", .str "error"]
  | .done .loginError => .arr #[jInt r, .str "done", .str "login-error"]
  | .done .impossible => .arr #[jInt r, .str "done", .str "impossible"]

-- The observable part of the model state, over the given keys and requesters.
-- `cur` is listed in key order (the harness sorts its own the same way).
open Kopf.C12.V in
def stateJ (s : St) (keys reqs : List Nat) : Json :=
  let cur := keys.filterMap (fun (k : Nat) => (lookup k s.cur).map (itemJ k))
  let inv := keys.map (fun (k : Nat) => Json.arr #[jInt k, jInts ((s.inv k).map (fun i => (i.info : Int)))])
  Json.mkObj [("cur", .arr cur.toArray), ("inv", .arr inv.toArray), ("ready", .bool s.ready),
    ("auth", .str (match s.auth with | .idle => "idle" | .running => "running")),
    ("pcs", .arr (reqs.map (fun r => pcJ r (s.reqs r))).toArray),
    ("episodes", jInt s.episodes), ("flips", jInt s.flips), ("removed", jInt s.removed.length),
    ("emptyHits", jInt s.emptyHits)]

open Kopf.C12.V in
def replay (keys reqs : List Nat) : St → Nat → List Json → List Json → Json
  | _, n, [], acc => Json.mkObj [("accepted", jInt n), ("states", .arr acc.reverse.toArray)]
  | s, n, l :: ls, acc =>
    match labelOf? l with
    | none => Json.mkObj [("accepted", jInt n), ("states", .arr acc.reverse.toArray),
                          ("rejected", .str "unparsable-label"), ("label", l)]
    | some lab =>
      match step s lab with
      | none => Json.mkObj [("accepted", jInt n), ("states", .arr acc.reverse.toArray),
                            ("rejected", .str "not-enabled"), ("label", l),
                            ("at", stateJ s keys reqs)]
      | some s' => replay keys reqs s' (n + 1) ls (stateJ s' keys reqs :: acc)

def handle : DrvHandler := fun op args =>
  match op, args with
  | "C12.classify", [st] => do
      let st ← jNat? st
      let c := classify st
      some (ok (Json.mkObj [("raises", .bool (raises st)), ("cls", .str (clsStr c)),
                            ("retryable", .bool (retryable c))]))
  | "C12.request", [cfg, script, t0] => do
      let bo ← backoffsOf? (← jField? cfg "backoffs")
      let enforce ← jBool? (← jField? cfg "enforce")
      let script ← (← jArr? script).mapM attOf?
      let t0 ← jInt? t0
      let r := request bo enforce script t0
      some (ok (Json.mkObj [("times", jInts r.times), ("waits", jInts r.waits),
                            ("outcome", outcomeJ r.outcome), ("fin", jInt r.fin)]))
  | "C12.getjson", [cfg, script, t0, fails] => do
      let bo ← backoffsOf? (← jField? cfg "backoffs")
      let enforce ← jBool? (← jField? cfg "enforce")
      let script ← (← jArr? script).mapM attOf?
      let t0 ← jInt? t0
      let r := getJson bo enforce script t0 (← jBool? fails)
      some (ok (Json.mkObj [("times", jInts r.times), ("waits", jInts r.waits),
                            ("outcome", outcomeJ r.outcome), ("fin", jInt r.fin)]))
  | "C12.throttle", [cfg, t0, cs] => do
      let cfg ← delaysOf? cfg
      let t0 ← jInt? t0
      let cs ← (← jArr? cs).mapM cycleInOf?
      let outs := cycles cfg Throttler.fresh t0 cs
      some (ok (.arr (outs.map cycleOutJ).toArray))
  | "C12.product", [cfg, evs] => do
      -- N objects on one clock: events (object, start time, cycle input) in the observed order
      let cfg ← delaysOf? cfg
      let evs ← (← jArr? evs).mapM (fun e => do
        let k ← jNat? (← jField? e "obj")
        let t ← jInt? (← jField? e "at")
        let ci ← cycleInOf? (← jField? e "in")
        some (⟨k, t, ci.1⟩ : Event))
      let r := runProduct cfg (fun _ => Throttler.fresh) evs
      some (ok (.arr (r.2.map (fun p => Json.arr #[jInt p.1, cycleOutJ p.2])).toArray))
  | "C12.object", [cfg, delays, passes] => do
      -- the cycles of one object that ran an API call each (part S): start time, the fault script the call
      -- met, the wake-up into the pause; from a fresh throttler
      let bo ← backoffsOf? (← jField? cfg "backoffs")
      let enforce ← jBool? (← jField? cfg "enforce")
      let dl ← delaysOf? delays
      let ps ← (← jArr? passes).mapM (fun p => do
        let t ← jInt? (← jField? p "t")
        let script ← (← jArr? (← jField? p "script")).mapM attOf?
        let w2 ← jOpt? jNat? (← jField? p "wake2")
        some (t, script, (none : Option Nat), w2))
      let outs := processCycles bo enforce dl Throttler.fresh ps
      some (ok (.arr (outs.map (fun o => Json.mkObj [
        ("times", match o.run with | some r => jInts r.times | none => .null),
        ("outcome", match o.run with | some r => outcomeJ r.outcome | none => .null),
        ("fin", match o.run with | some r => jInt r.fin | none => .null),
        ("activated", jOptInt o.out.activated), ("escaped", .str (escStr o.out.escaped)),
        ("until", jOptInt o.out.st.activeUntil)])).toArray))
  | "C12.objectP", [cfg, delays, passes] => do
      -- the cycles of one object whose API work is one `patch_obj` each (part S): start time, the calls made
      -- (kind, the fault script each met), the wake-up into the pause; from a fresh throttler
      let bo ← backoffsOf? (← jField? cfg "backoffs")
      let enforce ← jBool? (← jField? cfg "enforce")
      let dl ← delaysOf? delays
      let kindOf? : String → Option PKind := fun
        | "merge-body" => some .mergeBody | "merge-status" => some .mergeStatus
        | "json-body" => some .jsonBody | "json-status" => some .jsonStatus | _ => none
      let ps ← (← jArr? passes).mapM (fun p => do
        let t ← jInt? (← jField? p "t")
        let calls ← (← jArr? (← jField? p "calls")).mapM (fun c => do
          let k ← jStr? (← jField? c "kind") >>= kindOf?
          let script ← (← jArr? (← jField? c "script")).mapM attOf?
          some (k, script))
        let w2 ← jOpt? jNat? (← jField? p "wake2")
        some (t, calls, (none : Option Nat), w2))
      let outs := processCyclesP patchCatch bo enforce dl Throttler.fresh ps
      let endStr : PEnd → String := fun
        | .applied => "applied" | .gone => "gone" | .postponed => "postponed" | .raised c => "raised:" ++ clsStr c
      some (ok (.arr (outs.map (fun o => Json.mkObj [
        ("calls", match o.run with
          | some r => .arr (r.runs.map (fun x => Json.mkObj [("times", jInts x.times), ("outcome", outcomeJ x.outcome)])).toArray
          | none => .null),
        ("ending", match o.run with | some r => .str (endStr r.ending) | none => .null),
        ("fin", match o.run with | some r => jInt r.fin | none => .null),
        ("activated", jOptInt o.out.activated), ("escaped", .str (escStr o.out.escaped)),
        ("until", jOptInt o.out.st.activeUntil)])).toArray))
  | "C12.vault", [src, keys, reqs, labels] => do
      let src ← srcOf? src
      let keys ← (← jArr? keys).mapM jNat?
      let reqs ← (← jArr? reqs).mapM jNat?
      let labels ← jArr? labels
      let s0 := V.init src
      some (ok (Json.mkObj [("init", stateJ s0 keys reqs),
                            ("trace", replay keys reqs s0 0 labels [])]))
  | _, _ => none

end Kopf.Drv.C12
