import Kopf.Drv.Json
import Kopf.Model.C06_Finalizer
import Kopf.Model.C06_Registry
import Kopf.Model.C06_Invoke
import Kopf.Model.C06_Slots
open Lean
namespace Kopf.Drv.C06
open Kopf.C06

def fnOf? : String → Option Fn
  | "block_deletion" => some .block
  | "allow_deletion" => some .allow
  | _ => none

def fnStr : Fn → String
  | .block => "block_deletion"
  | .allow => "allow_deletion"

def strs (l : List String) : Json := .arr (l.map Json.str).toArray

def inOf? (j : Json) : Option In := do
  let b (k : String) : Option Bool := do jBool? (← jField? j k)
  some { spawning := ← b "spawning", spawnReq := ← b "spawnReq", changing := ← b "changing",
         changeReq := ← b "changeReq", isBlocked := ← b "isBlocked", isOngoing := ← b "isOngoing",
         deletedEvent := ← b "deletedEvent", consistent := ← b "consistent",
         spawnDelays := ← b "spawnDelays", changeDelays := ← b "changeDelays",
         deadline := ← b "deadline", paused := ← b "paused", carried := ← b "carried" }

/-! ### Trace acceptance: replay the labels of a whole-operator run through `lstep` -/

def envOf? (j : Json) : Option Env := do
  let b (k : String) : Option Bool := do jBool? (← jField? j k)
  some { consistent := ← b "consistent", merge := ← b "merge", otherChanging := ← b "otherChanging",
         otherDelays := ← b "otherDelays", mergeChanges := ← b "mergeChanges", userFns := ← b "userFns",
         carried := ← b "carried", waiting := ← b "waiting", delReset := ← b "delReset" }

def snapOf? (j : Json) : Option Snap := do
  some { rv := ← jNat? (← jField? j "rv"), marked := ← jBool? (← jField? j "marked"),
         fins := ← jStrList? (← jField? j "fins"), matchDel := ← jBool? (← jField? j "matchDel"),
         matchDmn := ← jBool? (← jField? j "matchDmn") }

def labelOf? (j : Json) : Option LLabel := do
  match ← jArr? j with
  | [.str "decide", e, v] => some (.base (.decide (← envOf? e) (← snapOf? v)))
  | [.str "merge"] => some (.base .mergePatch)
  | [.str "json", f] => some (.base (.jsonPatch (← jBool? f)))
  | [.str "editFins", l] => some (.base (.editFins (← jStrList? l)))
  | [.str "mark"] => some (.base .mark)
  | [.str "write", d, m] => some (.base (.write (← jBool? d) (← jBool? m)))
  | [.str "handlerFinishes"] => some (.base .handlerFinishes)
  | [.str "daemonExits", o] => some (.base (.daemonExits (← jBool? o)))
  | [.str "restart"] => some (.base .restart)
  | [.str "touch"] => some .touch
  | _ => none

def snapJson (v : Snap) : Json :=
  Json.mkObj [("rv", .num (JsonNumber.fromNat v.rv)), ("marked", .bool v.marked), ("fins", strs v.fins),
              ("matchDel", .bool v.matchDel), ("matchDmn", .bool v.matchDmn)]

/-- The abstract state the harness compares with its snapshot of the real operator and server. -/
def obsJson (s : LState) : List (String × Json) :=
  [("gone", .bool s.base.gone), ("marked", .bool s.base.marked), ("fins", strs s.base.fins),
   ("rv", .num (JsonNumber.fromNat s.base.rv)), ("matchDel", .bool s.base.matchDel), ("matchDmn", .bool s.base.matchDmn),
   ("delDone", .bool s.base.delDone), ("dmnLive", .bool s.base.dmnLive), ("dmnForever", .bool s.base.dmnForever),
   ("required", .bool (required s.base)), ("mem", strs (s.base.mem.map fnStr)),
   ("pending", match s.base.pending with
      | none => .null
      | some p => Json.mkObj [("fns", strs (p.fns.map fnStr)), ("merge", .bool p.merge), ("view", strs p.view),
                              ("fresh", .bool (p.rvTest == s.base.rv))]),
   ("queue", .arr (s.queue.map (fun v => Json.num (JsonNumber.fromNat v.rv))).toArray),
   ("sleeping", .bool s.sleeping), ("cycDelays", .bool s.cycDelays)]

/-- Compare the keys the harness supplied; returns the first key that differs. -/
def firstDiff (model : List (String × Json)) (expect : Json) : Option String :=
  match expect with
  | .obj kvs => (kvs.toList.find? (fun (k, v) => match model.find? (·.1 == k) with
      | some (_, m) => m.compress != v.compress
      | none => true)).map (·.1)
  | _ => some "<expectation is not an object>"

/-- items: `[label, expectation]`; pseudo-labels reconcile what only the environment decides:
`["syncDaemon", live, forever]` (a daemon exit the harness saw in the memory snapshot),
`["syncDone", done]` (the deletion handler finished inside the pass that follows). -/
partial def replay (own : String) (s : LState) (i : Nat) : List Json → Json
  | [] => Json.mkObj [("accepted", .num (JsonNumber.fromNat i))]
  | item :: rest =>
    let fail (why : String) (extra : List (String × Json)) : Json :=
      Json.mkObj ([("failed_at", .num (JsonNumber.fromNat i)), ("why", .str why), ("state", Json.mkObj (obsJson s))] ++ extra)
    match jArr? item with
    | some [lab, expect] =>
      let next : Option LState :=
        match jArr? lab with
        | some [.str "syncDaemon", .bool live, .bool forever] =>
            if s.base.dmnLive && !live then lstep own s (.base (.daemonExits forever)) else some s
        | some [.str "syncDone", .bool done] =>
            if done && !s.base.delDone then lstep own s (.base .handlerFinishes) else some s
        | _ => (labelOf? lab).bind (lstep own s)
      match next with
      | none => fail "label not enabled (or unreadable)" [("label", lab)]
      | some s' =>
        match firstDiff (obsJson s') expect with
        | some k => Json.mkObj [("failed_at", .num (JsonNumber.fromNat i)), ("why", .str ("state differs in " ++ k)),
                                ("label", lab), ("expect", expect), ("state", Json.mkObj (obsJson s'))]
        | none => replay own s' (i + 1) rest
    | _ => fail "unreadable item" []

/-! ### the sync branch of `invoke`: replay of a real-thread run's labels -/

def ilabelOf? : Json → Option ILabel
  | .str "cancel" => some .cancel
  | .str "return" => some (.ret false)
  | .str "raise" => some (.ret true)
  | .str "wake" => some .wake
  | _ => none

def finStr : Option Fin → Json
  | none => .null
  | some .value => .str "value"
  | some .error => .str "error"
  | some .cancelled => .str "cancelled"

def invJson (s : Inv) : Json :=
  Json.mkObj [("done", .bool s.done), ("returned", .bool s.returned), ("fin", finStr s.fin)]

/-- `wake` of the harness = "the loop has run whatever was ready": the task's steps as long as one is enabled
(at most three are ever enabled in a row). -/
def wakes (postpone : Bool) (s : Inv) : Nat → Inv
  | 0 => s
  | n + 1 => match istep postpone s .wake with
    | some s' => wakes postpone s' n
    | none => s

/-- The states after each label. A disabled `return`/`raise` (a function returns once) is an error. -/
def ireplay (postpone : Bool) : Inv → List Json → Option (List Json)
  | _, [] => some []
  | s, j :: rest => do
    let l ← ilabelOf? j
    let s' ← match l with
      | .wake => some (wakes postpone s 4)
      | _ => istep postpone s l
    let tl ← ireplay postpone s' rest
    some (invJson s' :: tl)

def optNat? : Json → Option (Option Nat)
  | .null => some none
  | j => (jNat? j).map some

/-! ### the per-handler-id record of daemon invocations: `sstep` (the code: `reuse = false`) over a label list -/

def slabelOf? (j : Json) : Option SLabel := do
  match ← jArr? j with
  | [.str "spawn"] => some .spawn
  | [.str "tell"] => some .tell
  | [.str "abandon"] => some .abandon
  | [.str "exit", n] => some (.exit (← jNat? n))
  | _ => none

/-- What the harness reads off the real `memory.running_daemons` and the real tasks/stoppers: the invocation recorded under
the id, the invocations alive (serial, told to stop, abandoned), and whether `stop_daemons` would report no delay. -/
def slotsJson (s : Slots) : Json :=
  Json.mkObj [("slot", match s.slot with | none => .null | some k => .num (JsonNumber.fromNat k)),
              ("live", .arr (s.live.map (fun i => Json.arr #[.num (JsonNumber.fromNat i.n), .bool i.told, .bool i.abandoned])).toArray),
              ("noDelay", .bool s.noDelay)]

/-- The state after each label; a label that is unreadable or not enabled ends the list with a marker. -/
def sreplay : Slots → List Json → List Json
  | _, [] => []
  | s, j :: rest =>
    match (slabelOf? j).bind (sstep false s) with
    | none => [Json.mkObj [("disabled", j)]]
    | some s' => slotsJson s' :: sreplay s' rest

def handle : DrvHandler := fun op args =>
  match op, args with
  | "C06.block", [f, l] => do
      some (ok (strs (blockDeletion (← jStr? f) (← jStrList? l))))
  | "C06.allow", [f, l] => do
      some (ok (strs (allowDeletion (← jStr? f) (← jStrList? l))))
  | "C06.fns", [f, fns, l] => do
      let fns ← (← jStrList? fns).mapM fnOf?
      some (ok (strs (applyFns (← jStr? f) fns (← jStrList? l))))
  | "C06.decide", [i] => do
      let d := decision (← inOf? i)
      some (ok (Json.mkObj [("fns", strs (d.fns.map fnStr)), ("handlersRun", .bool d.handlersRun),
                            ("delays", .bool d.delays)]))
  -- `application.apply`: does the cycle end in the sleep-then-touch? [delays, changed]
  | "C06.sleeps", [d, c] => do
      some (ok (.bool (sleepsAfter (← jBool? d) (← jBool? c))))
  -- the JSON-patch step of the LTS on a state built from the observation:
  -- [own, fns, view, marked, accepted] ; accepted = the server's version equals the tested one
  | "C06.patch", [f, fns, view, marked, accepted] => do
      let own ← jStr? f
      let fns ← (← jStrList? fns).mapM fnOf?
      let view ← jStrList? view
      let marked ← jBool? marked
      let accepted ← jBool? accepted
      let s : State := { gone := false, marked := marked, fins := view, rv := if accepted then 0 else 1,
                         matchDel := false, matchDmn := false, delDone := false, dmnLive := false,
                         dmnForever := false, mem := [],
                         pending := some { fns := fns, rvTest := 0, view := view, merge := false, mergeChanges := false } }
      match step own s (.jsonPatch false) with
      | some s' => some (ok (Json.mkObj [("fins", strs s'.fins), ("carried", strs (s'.mem.map fnStr)),
                                          ("gone", .bool s'.gone), ("written", .bool (s'.rv != s.rv)),
                                          ("sent", .bool (applyFns own fns view != view))]))
      | none => some (err "disabled")
  -- trace acceptance: [own, {fins, marked, matchDel, matchDmn}, items]
  | "C06.replay", [f, init, items] => do
      let own ← jStr? f
      let b : State := { gone := false, marked := ← jBool? (← jField? init "marked"), fins := ← jStrList? (← jField? init "fins"),
                         rv := 0, matchDel := ← jBool? (← jField? init "matchDel"), matchDmn := ← jBool? (← jField? init "matchDmn"),
                         delDone := false, dmnLive := false, dmnForever := false, mem := [], pending := none }
      let s : LState := { base := b, queue := [snap b], sleeping := false, cycDelays := false, cycMerge := false,
                          cycChanges := false, cycViewRv := 0 }
      some (ok (replay own s 0 (← jArr? items)))
  -- `requires_finalizer` of a registry: [excluded ids, [[id, requires_finalizer, (pre)matches], …] in registration order]
  | "C06.requires", [ex, regs] => do
      let regs ← (← jArr? regs).mapM fun r => do
        match ← jArr? r with
        | [i, q, m] => some ({ id := ← jStr? i, requires := ← jBool? q, hit := ← jBool? m } : Reg)
        | _ => none
      some (ok (.bool (requiresLoop (← jStrList? ex) regs)))
  -- the sync branch of invoke: [postpone, labels] → the observable state after each label
  | "C06.invoke", [p, labels] => do
      match ireplay (← jBool? p) {} (← jArr? labels) with
      | some l => some (ok (.arr l.toArray))
      | none => some (err "disabled")
  -- stop_daemons for one daemon: [done, backoff|null, timeout|null, age, polling] → is a delay reported?
  | "C06.stop", [d, b, t, a, p] => do
      some (ok (.bool (stopDelay (← jBool? d) (← optNat? b) (← optNat? t) (← jNat? a) (← jNat? p)).isSome))
  -- the slots of one handler id in one memory: [labels] → the abstract state after each label
  | "C06.slots", [labels] => do
      some (ok (.arr (sreplay {} (← jArr? labels)).toArray))
  | _, _ => none

end Kopf.Drv.C06
