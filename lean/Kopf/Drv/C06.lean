import Kopf.Drv.Json
import Kopf.Model.C06_Finalizer
open Lean
namespace Kopf.Drv.C06
open Kopf.C06

def fnOf? : String → Option Fn
  | "block_deletion" => some .block
  | "allow_deletion" => some .allow
  | _ => none

def fnStr : Fn → String
  | .block => "block_deletion"
  | .allow => "allow_deletion"

def strs (l : List String) : Json := .arr (l.map Json.str).toArray

def inOf? (j : Json) : Option In := do
  let b (k : String) : Option Bool := do jBool? (← jField? j k)
  some { spawning := ← b "spawning", spawnReq := ← b "spawnReq", changing := ← b "changing",
         changeReq := ← b "changeReq", isBlocked := ← b "isBlocked", isOngoing := ← b "isOngoing",
         deletedEvent := ← b "deletedEvent", consistent := ← b "consistent",
         spawnDelays := ← b "spawnDelays", changeDelays := ← b "changeDelays" }

def handle : DrvHandler := fun op args =>
  match op, args with
  | "C06.block", [f, l] => do
      some (ok (strs (blockDeletion (← jStr? f) (← jStrList? l))))
  | "C06.allow", [f, l] => do
      some (ok (strs (allowDeletion (← jStr? f) (← jStrList? l))))
  | "C06.fns", [f, fns, l] => do
      let fns ← (← jStrList? fns).mapM fnOf?
      some (ok (strs (applyFns (← jStr? f) fns (← jStrList? l))))
  | "C06.decide", [i] => do
      let d := decision (← inOf? i)
      some (ok (Json.mkObj [("fns", strs (d.fns.map fnStr)), ("handlersRun", .bool d.handlersRun),
                            ("delays", .bool d.delays)]))
  -- `application.apply`: does the cycle end in the sleep-then-touch? [delays, changed]
  | "C06.sleeps", [d, c] => do
      some (ok (.bool (sleepsAfter (← jBool? d) (← jBool? c))))
  -- the JSON-patch step of the LTS on a state built from the observation:
  -- [own, fns, view, marked, accepted] ; accepted = the server's version equals the tested one
  | "C06.patch", [f, fns, view, marked, accepted] => do
      let own ← jStr? f
      let fns ← (← jStrList? fns).mapM fnOf?
      let view ← jStrList? view
      let marked ← jBool? marked
      let accepted ← jBool? accepted
      let s : State := { gone := false, marked := marked, fins := view, rv := if accepted then 0 else 1,
                         matchDel := false, matchDmn := false, delDone := false, dmnLive := false,
                         dmnForever := false, mem := [],
                         pending := some { fns := fns, rvTest := 0, view := view, merge := false } }
      match step own s (.jsonPatch false) with
      | some s' => some (ok (Json.mkObj [("fins", strs s'.fins), ("carried", strs (s'.mem.map fnStr)),
                                          ("gone", .bool s'.gone), ("written", .bool (s'.rv != s.rv)),
                                          ("sent", .bool (applyFns own fns view != view))]))
      | none => some (err "disabled")
  | _, _ => none

end Kopf.Drv.C06
