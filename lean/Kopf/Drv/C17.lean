/-
  Driver ops for C17.
  `["C17.run", cfg, defaultBackoff, events]` → `["ok", [snapshot after each event]]` | `["err","key-error"]`
  `["C17.gate", [label…]]` → `["ok", {"accepted":…, …}]`
  `["C17.listing", [label…]]` → `["ok", {"accepted":…, "out": […], "startedPaused":…}]` (the producer of LISTED)
-/
import Kopf.Drv.Json
import Kopf.Model.C17_Index
import Kopf.Model.C17_Gate
import Kopf.Model.C17_Listing
open Lean
namespace Kopf.Drv.C17
open Kopf.C17

abbrev Ix := Indexer String String String
abbrev Ev := Event String String String String J String
abbrev St := State String String J String

def modeOf? : String → Option Mode
  | "ignored" => some .ignored | "temporary" => some .temporary | "permanent" => some .permanent
  | _ => none

def indexerOf? (j : Json) : Option Ix := do
  let id ← jStr? (← jField? j "id")
  let res ← jStr? (← jField? j "res")
  let want ← jOpt? jStr? (← jField? j "want")
  let errors ← jOpt? (fun x => jStr? x >>= modeOf?) (← jField? j "errors")
  let retries ← jOpt? jNat? (← jField? j "retries")
  let backoff ← jOpt? jNat? (← jField? j "backoff")
  let timeout ← jOpt? jNat? (← jField? j "timeout")
  some ⟨id, res, want, errors, retries, backoff, timeout⟩

def pairOf? (j : Json) : Option (Option String × J) := do
  match ← jArr? j with
  | [k, v] => do
    let k ← jOpt? jStr? k
    let v ← toJ v
    some (k, v)
  | _ => none

def scriptOf? (j : Json) : Option (Script String J) := do
  match ← jArr? j with
  | [.str "dict", m] => do
    let ps ← (← jArr? m).mapM pairOf?
    some (.dict ps)
  | [.str "scalar", v] => do some (.scalar (← toJ v))
  | [.str "none"] => some .none
  | [.str "temp", d] => do some (.tempErr (← jOpt? jNat? d))
  | [.str "perm"] => some .permErr
  | [.str "other"] => some .otherErr
  | _ => none

def eventOf? (ids : List String) (j : Json) : Option Ev := do
  let t ← jNat? (← jField? j "t")
  let res ← jStr? (← jField? j "res")
  let obj ← jStr? (← jField? j "obj")
  let deleted ← jBool? (← jField? j "deleted")
  let label ← jOpt? jStr? (← jField? j "label")
  let sj ← jField? j "script"
  -- every configured index function must have a script entry: never defaulted
  let entries ← ids.mapM (fun i => do let s ← scriptOf? (← jField? sj i); some (i, s))
  some ⟨t, res, obj, deleted, label, fun i => match aget i entries with | some s => s | none => .none⟩

def optStr (o : Option String) : Json := match o with | some s => .str s | none => .null

def indexJson (ix : Index (Option String) J String) : Json :=
  .arr (ix.items.map (fun (k, st) =>
    Json.arr #[optStr k, .arr (st.map (fun (_, v) => ofJ v)).toArray])).toArray

def hstateJson (h : HState) : Json :=
  .arr #[.num (JsonNumber.fromNat h.retries),
         (match h.delayed with | some d => .num (JsonNumber.fromNat d) | none => .null),
         .bool h.failed, .num (JsonNumber.fromNat h.started)]

def snapshot (ids objs : List String) (s : St) : Json :=
  Json.mkObj [
    ("ix", Json.mkObj (ids.map (fun i => (i, indexJson (s.ixs i))))),
    ("mem", Json.mkObj (objs.filterMap (fun o =>
      let entries := ids.filterMap (fun i => (s.mem o i).map (fun h => (i, hstateJson h)))
      if entries.isEmpty then none else some (o, Json.mkObj entries))))]

def runAll (cfg : List Ix) (bk : Nat) (ids objs : List String) :
    St → List Ev → List Json → Option (List Json)
  | _, [], acc => some acc.reverse
  | s, e :: es, acc =>
    match step cfg bk s e with
    | none => none
    | some s' => runAll cfg bk ids objs s' es (snapshot ids objs s' :: acc)

/-! gate -/
open Kopf.C17.Gate

abbrev GS := GState String String
abbrev Lb := Label String String

def kindOf? (j : Json) : Option (String × Bool) := do
  match ← jArr? j with
  | [r, b] => do some (← jStr? r, ← jBool? b)
  | _ => none

/-- a label array, optionally followed by a snapshot object `{"n": toggles in the set, "on": is_on()}` -/
def labelOf? (j : Json) : Option (Lb × Option (Nat × Bool)) := do
  let xs ← jArr? j
  let (core, snap) ← match xs.reverse with
    | (.obj o) :: rest => do
        let n ← jNat? (← (Json.obj o).getObjVal? "n" |>.toOption)
        let on ← jBool? (← (Json.obj o).getObjVal? "on" |>.toOption)
        some (rest.reverse, some (n, on))
    | _ => some (xs, none)
  let l ← match core with
    | [.str "spawnBegin", ks] => do some (Label.spawnBegin (← (← jArr? ks).mapM kindOf?))
    | [.str "spawn", r] => do some (Label.spawn (← jStr? r))
    | [.str "spawnEnd"] => some Label.spawnEnd
    | [.str "die", r] => do some (Label.die (← jStr? r))
    | [.str "check", r, o, on] => do some (Label.check (← jStr? r) (← jStr? o) (← jBool? on))
    | [.str "arrive", r, o, g, t] => do some (Label.arrive (← jStr? r) (← jStr? o) (← jBool? g) (← jBool? t))
    | [.str "listed", r] => do some (Label.listed (← jStr? r))
    | [.str "index", r, o] => do some (Label.index (← jStr? r) (← jStr? o))
    | [.str "indexFail", r, o] => do some (Label.indexFail (← jStr? r) (← jStr? o))
    | [.str "drop", r, o] => do some (Label.drop (← jStr? r) (← jStr? o))
    | [.str "pass", r, o] => do some (Label.pass (← jStr? r) (← jStr? o))
    | [.str "skip", r, o] => do some (Label.skip (← jStr? r) (← jStr? o))
    | [.str "handle", r, o] => do some (Label.handle (← jStr? r) (← jStr? o))
    | [.str "finish", r, o] => do some (Label.finish (← jStr? r) (← jStr? o))
    | [.str "again", r, o] => do some (Label.again (← jStr? r) (← jStr? o))
    | [.str "exit", r, o] => do some (Label.exit (← jStr? r) (← jStr? o))
    | _ => none
  some (l, snap)

def toggles (s : GS) : Nat :=
  (if s.blocker then 1 else 0) + s.resTog.length + s.objTog.length + s.leaked.length + s.leakedK.length

def isHandle : Lb → Bool
  | .handle _ _ => true
  | _ => false

/-- replay: every label must be enabled and every snapshot must match -/
def replay : GS → Nat → List (Lb × Option (Nat × Bool)) → List Bool → Json
  | s, _, [], acc =>
    Json.mkObj [("accepted", .bool true), ("handled", .bool s.handled), ("ready", .bool (readyB s)), ("ready1", .bool (ready1B s)),
                ("everOn", .bool s.everOn), ("first", .arr (s.first.map Json.str).toArray), ("toggles", .num (JsonNumber.fromNat (toggles s))),
                ("readyAtHandle", .arr (acc.reverse.map Json.bool).toArray)]
  | s, i, (l, snap) :: rest, acc =>
    match Gate.step .none s l with
    | none => Json.mkObj [("accepted", .bool false), ("at", .num (JsonNumber.fromNat i)), ("reason", .str "disabled")]
    | some s' =>
      let okSnap := match snap with
        | some (n, on) => n == toggles s' && on == s'.isOn
        | none => true
      if okSnap then replay s' (i + 1) rest (if isHandle l then ready1B s' :: acc else acc)
      else Json.mkObj [("accepted", .bool false), ("at", .num (JsonNumber.fromNat i)), ("reason", .str "snapshot"),
                       ("model", Json.mkObj [("n", .num (JsonNumber.fromNat (toggles s'))), ("on", .bool s'.isOn)])]

/-! the producer of LISTED -/
def llabelOf? (j : Json) : Option Listing.Label := do
  match ← jArr? j with
  | [.str "pause"] => some .pause
  | [.str "unpause"] => some .unpause
  | [.str "begin"] => some .begin
  | [.str "answer", n] => do some (.answer (← jNat? n))
  | [.str "fail"] => some .fail
  | [.str "abandon"] => some .abandon
  | [.str "yieldItem"] => some .yieldItem
  | [.str "yieldListed"] => some .yieldListed
  | [.str "event"] => some .event
  | [.str "endWatch"] => some .endWatch
  | _ => none

def outJson : Listing.Out → Json
  | .item => .str "item"
  | .event => .str "event"
  | .listed a y => .arr #[.str "listed", (match a with | some n => .num (JsonNumber.fromNat n) | none => .null),
                          .num (JsonNumber.fromNat y)]

def lreplay : Listing.LState → Nat → List Listing.Label → Json
  | s, _, [] =>
    Json.mkObj [("accepted", .bool true), ("out", .arr (s.out.map outJson).toArray),
                ("startedPaused", .bool s.startedPaused), ("paused", .bool s.paused)]
  | s, i, l :: rest =>
    match Listing.step .none s l with
    | none => Json.mkObj [("accepted", .bool false), ("at", .num (JsonNumber.fromNat i)), ("reason", .str "disabled")]
    | some s' => lreplay s' (i + 1) rest

def handle : DrvHandler := fun op args =>
  match op, args with
  | "C17.run", [cfg, bk, evs] => do
      let cfg ← (← jArr? cfg).mapM indexerOf?
      let bk ← jNat? bk
      let ids := cfg.map (·.id)
      if !(ids.eraseDups.length == ids.length) then none else   -- distinct handler ids only (modelled domain)
      let evs ← (← jArr? evs).mapM (eventOf? ids)
      let objs := (evs.map (·.obj)).eraseDups
      match runAll cfg bk ids objs State.init evs [] with
      | some snaps => some (ok (.arr snaps.toArray))
      | none => some (err "key-error")
  | "C17.gate", [ls] => do
      let ls ← (← jArr? ls).mapM labelOf?
      some (ok (replay GState.init 0 ls []))
  | "C17.listing", [ls] => do
      let ls ← (← jArr? ls).mapM llabelOf?
      some (ok (lreplay Listing.LState.init 0 ls))
  | _, _ => none

end Kopf.Drv.C17
