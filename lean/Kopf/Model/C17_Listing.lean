/-
  C17 model, part 3 — the PRODUCER of `Bookmark.LISTED`: one watch-stream of one resource kind,
  `watching.infinite_watch` → `streaming_block` → `continuous_watch` (kopf/_cogs/clients/watching.py),
  as far as the start-up gate depends on it. Core Lean only.

  The gate model (`C17_Gate`) takes `listed r` as an input label: "the watcher of r consumed LISTED".
  What LISTED *means* is decided here: `queueing.watcher` reads it as "this kind has been listed, all its
  objects have been handed over", drops the kind's readiness toggle, and never looks back.

  One round of `infinite_watch`'s loop, in program order (labels = the atomic segments between awaits):

    `begin`       — `streaming_block` is entered and not held: `operator_paused` is off (else it waits in
                    `operator_paused.wait_for(False)`); the pause-waiter is created, `continuous_watch`
                    starts the LIST request: `listing = create_task(fetching.list_objs(...))`
    `answer n`    — the LIST request (with all its retries inside `list_objs`) is answered with n items:
                    `asyncio.wait({listing, operator_pause_waiter}, FIRST_COMPLETED)` returns with the
                    listing done — also when the pause comes at the same moment: a finished listing is
                    never cancelled (`if not listing.done()`)
    `fail`        — the LIST request failed for good (connection error: `return`; API error: escalates
                    through `infinite_watch`, which swallows 429/410 and dies with the others — in either
                    case nothing is yielded by this round)
    `abandon`     — the pause-waiter is done first: `listing.cancel()`, `if listing.cancelled(): return`
    `yieldItem`   — `yield {'type': None, 'object': obj}` for the next item of the answer
    `yieldListed` — all items are out: `yield Bookmark.LISTED`, then the watch loop
    `event`       — a watch-event is yielded
    `endWatch`    — the watch ends (410, disconnect, pause): back to `infinite_watch`'s loop (the
                    `reconnect_backoff` sleep and the next `streaming_block`)
    `pause` / `unpause` — the environment: `operator_paused` turns on / off (peering, or anything else)

  History variables (no guard reads them): `answered` = what this round's LIST was answered with,
  `yielded` = how many of its items this round has yielded, `out` = everything the stream has yielded
  so far; each LISTED is recorded together with the `answered`/`yielded` of its round.

  `Bug` selects deliberately broken variants, used only for the `..._witness` theorems.
-/
import Kopf.Model.C17_Index
namespace Kopf.C17.Listing

inductive Phase where
  | blocked                 -- between rounds: `streaming_block` not passed yet / the back-off sleep
  | listing                 -- the LIST request is in flight
  | yielding (left : Nat)   -- the LIST is answered; `left` of its items are still to be yielded
  | watching                -- LISTED is out; the watch loop
  deriving DecidableEq, Repr

inductive Bug where
  | none
  | abandonedReportsListed    -- an abandoned LIST falls through to `yield Bookmark.LISTED`
  | listedBeforeItems         -- LISTED is yielded while items of the answer are still to come
  | listWhilePaused           -- `streaming_block` does not hold the round while paused
  deriving DecidableEq, Repr

inductive Out where
  | item
  | listed (answered : Option Nat) (yielded : Nat)
  | event
  deriving DecidableEq, Repr

structure LState where
  phase : Phase
  paused : Bool
  answered : Option Nat
  yielded : Nat
  out : List Out
  startedPaused : Bool     -- history: some LIST request was started while the operator was paused
  deriving Repr

def LState.init : LState :=
  { phase := .blocked, paused := false, answered := none, yielded := 0, out := [], startedPaused := false }

inductive Label where
  | pause | unpause
  | begin
  | answer (n : Nat)
  | fail
  | abandon
  | yieldItem
  | yieldListed
  | event
  | endWatch
  deriving DecidableEq, Repr

def step (bug : Bug) (s : LState) : Label → Option LState
  | .pause => some { s with paused := true }
  | .unpause => some { s with paused := false }
  | .begin =>
    if s.phase = .blocked ∧ (s.paused = false ∨ bug = .listWhilePaused) then
      some { s with phase := .listing, answered := none, yielded := 0,
                    startedPaused := s.startedPaused || s.paused }
    else none
  | .answer n =>
    if s.phase = .listing then some { s with phase := .yielding n, answered := some n } else none
  | .fail =>
    if s.phase = .listing then some { s with phase := .blocked } else none
  | .abandon =>
    if s.phase = .listing ∧ s.paused = true then
      if bug = .abandonedReportsListed then
        -- `objs, rv = [], None`; the `for` loop yields nothing; falls through to LISTED
        some { s with phase := .watching, out := s.out ++ [.listed s.answered s.yielded] }
      else some { s with phase := .blocked }
    else none
  | .yieldItem =>
    match s.phase with
    | .yielding (k + 1) => some { s with phase := .yielding k, yielded := s.yielded + 1, out := s.out ++ [.item] }
    | _ => none
  | .yieldListed =>
    match s.phase with
    | .yielding k =>
      if k = 0 ∨ bug = .listedBeforeItems then
        some { s with phase := .watching, out := s.out ++ [.listed s.answered s.yielded] }
      else none
    | _ => none
  | .event =>
    if s.phase = .watching then some { s with out := s.out ++ [.event] } else none
  | .endWatch =>
    if s.phase = .watching then some { s with phase := .blocked } else none

def run (bug : Bug) : LState → List Label → Option LState
  | s, [] => some s
  | s, l :: ls =>
    match step bug s l with
    | some s' => run bug s' ls
    | none => none

/-- reachable by the faithful variant -/
def Reach (s : LState) : Prop := ∃ ls, run .none LState.init ls = some s

/-- What the consumer of LISTED relies on: it was yielded in a round whose LIST request was ANSWERED,
    after every item of that answer. -/
def Justified : Out → Prop
  | .listed a y => a = some y
  | _ => True

/-- the invariant carried through the proofs -/
def Inv (s : LState) : Prop :=
  (∀ o, o ∈ s.out → Justified o) ∧
  (∀ k, s.phase = .yielding k → s.answered = some (s.yielded + k)) ∧
  (s.phase = .listing → s.yielded = 0) ∧
  s.startedPaused = false

end Kopf.C17.Listing
