/-
  C03 — WHERE the loop's `base` comes from (seed C03h): `processing._detect_causes` computes
  `old = diffbase.fetch(body)`, `new = diffbase.build(body)`, `diff = diffs.diff(old, new)` and hands `old is None` and
  `bool(diff)` to the cause detection (`C05.In.oldAbsent`, `.diffNonEmpty`). The closed loop of Model/C03_Loop keeps the
  essence abstract (`State E`, `diffNonEmpty := decide (base ≠ some ess)`); its driver instantiates `E := Nat` with the
  three classes below (`Drv.C03.baseOf?`: none / same = `some 0` / diff = `some 1`, `ess = 0`). This file is the producer of
  that class from the JSON values themselves — C04's `diff`, i.e. `diff_iter` with its first case `_same(a, b)` — so that
  "every essential change is an outstanding change" is a statement about lists, mappings and scalars and not an
  assumption of the abstraction.  `baseClassBy sm` is the same with another comparison in `diff_iter`'s first case
  (`case a, b if sm(a, b): pass` — nothing is yielded, the diff is empty); `samePfx` is the comparison of the seeded
  variant: sequences item by item over `zip`, without the length.
-/
import Kopf.Model.C04_Diff
import Kopf.Model.C03_Loop
namespace Kopf.C03
open Kopf Kopf.J

inductive BaseClass where
  | none | same | diff
  deriving DecidableEq, Repr

/-- the class of (last-handled, essence) that `_detect_causes` hands to the cause detection -/
def baseClass (old : Option J) (new : J) : BaseClass :=
  match old with
  | .none => .none
  | .some o => if (C04.diff o new []).isEmpty then .same else .diff

/-- … with `sm` as the guard of `diff_iter`'s first case at the root: when it holds nothing is yielded. -/
def baseClassBy (sm : J → J → Bool) (old : Option J) (new : J) : BaseClass :=
  match old with
  | .none => .none
  | .some o => if sm o new then .same else if (C04.diff o new []).isEmpty then .same else .diff

/-- the abstraction the driver feeds to the loop (`ess = 0`) -/
def absBase : BaseClass → Option Nat
  | .none => .none
  | .same => some 0
  | .diff => some 1

mutual
  /-- the variant of `_same`: `all(_same(x, y) for x, y in zip(a, b))` for sequences — `zip` stops at the shorter one -/
  def samePfx : J → J → Bool
    | .null, .null => true
    | .bool a, .bool b => a == b
    | .num a, .num b => a == b
    | .str a, .str b => a == b
    | .arr a, .arr b => samePfxList a b
    | .obj a, .obj b => a.length == b.length && samePfxSub a b
    | _, _ => false
  def samePfxList : List J → List J → Bool
    | x :: xs, y :: ys => samePfx x y && samePfxList xs ys
    | _, _ => true
  def samePfxSub : List (String × J) → List (String × J) → Bool
    | [], _ => true
    | (k, x) :: xs, b =>
        (match lookup k b with
         | some y => samePfx x y
         | none => false) && samePfxSub xs b
end

/-- the object of the loop whose (last-handled, essence) pair is in class `bc`: seen by the framework, carrying its
    finalizer, no records, an event pending (e.g. the one of the edit, or the listing after a start) -/
def stateOfClass (bc : BaseClass) : State Nat :=
  { P := fun _ => none, base := absBase bc, ess := 0, marked := false, blocked := true, gone := false,
    noticed := false, fullyHandled := true, resumed := [], now := 0, pending := true, writes := 0 }

end Kopf.C03
