/-
  C16 — the Kubernetes grammar of annotation keys, as decidable functions on `List Char`
  (specification side of `valid_name`; independent of the key-forming code).

  An annotation key is `[prefix/]name`; the name part is 1..63 characters, alphanumeric at both
  ends, `[-_.A-Za-z0-9]` inside; the prefix is a DNS subdomain: at most 253 characters, labels of
  1..63 lowercase alphanumerics or `-` separated by `.`, each label alphanumeric at both ends.
-/
import Kopf.Model.C16_Storage
namespace Kopf.C16

def isAlnum (c : Char) : Bool := c.isAlphanum

def isNameChar (c : Char) : Bool := isAlnum c || c == '-' || c == '_' || c == '.'

/-- the property's handler-id alphabet `[A-Za-z0-9_./<>-]` -/
def isIdChar (c : Char) : Bool :=
  isAlnum c || c == '_' || c == '.' || c == '/' || c == '<' || c == '>' || c == '-'

def headAlnum : Str → Bool
  | [] => false
  | c :: _ => isAlnum c

def lastAlnum (s : Str) : Bool :=
  match s.getLast? with
  | none => false
  | some c => isAlnum c

def validNamePart (n : Str) : Bool :=
  decide (1 ≤ n.length) && decide (n.length ≤ 63) && headAlnum n && lastAlnum n && n.all isNameChar

def isLowerAlnum (c : Char) : Bool := c.isLower || c.isDigit

/-- one pass over a DNS subdomain: `n` = length of the current label so far,
    `prev` = the previous character was alphanumeric -/
def dnsScan : Str → Nat → Bool → Bool
  | [], n, prev => decide (1 ≤ n) && prev
  | c :: cs, n, prev =>
    if c = '.' then decide (1 ≤ n) && prev && dnsScan cs 0 false
    else if isLowerAlnum c then decide (n + 1 ≤ 63) && dnsScan cs (n + 1) true
    else if c = '-' then decide (1 ≤ n) && decide (n + 1 ≤ 63) && dnsScan cs (n + 1) false
    else false

def validPrefix (p : Str) : Bool := decide (p.length ≤ 253) && dnsScan p 0 false

/-- split at the first `/` -/
def splitSlash : Str → Option (Str × Str)
  | [] => none
  | c :: cs =>
    if c = '/' then some ([], cs)
    else match splitSlash cs with
      | some (a, b) => some (c :: a, b)
      | none => none

/-- a valid Kubernetes annotation key -/
def validQualified (s : Str) : Bool :=
  match splitSlash s with
  | none => validNamePart s
  | some (p, n) => validPrefix p && validNamePart n

/-! Hypotheses of `valid_name` (all decidable). -/

/-- every character is in the property's alphabet, and there is at least one -/
def IdOk (k : Str) : Prop := k ≠ [] ∧ k.all isIdChar = true

/-- first and last character alphanumeric -/
def EdgeAlnum (s : Str) : Prop := headAlnum s = true ∧ lastAlnum s = true

/-- a usable hash suffix: 1..62 characters of the name alphabet, alphanumeric at the end
    (the real one is `-` plus six base64 characters ending in `A`, `Q`, `g` or `w`) -/
def GoodSfx (s : Str) : Prop := 1 ≤ s.length ∧ s.length ≤ 62 ∧ s.all isNameChar = true ∧ lastAlnum s = true

instance (k : Str) : Decidable (IdOk k) := by unfold IdOk; infer_instance
instance (s : Str) : Decidable (EdgeAlnum s) := by unfold EdgeAlnum; infer_instance
instance (s : Str) : Decidable (GoodSfx s) := by unfold GoodSfx; infer_instance

/-- `json.loads(json.dumps(x)) == x`, also with the trailing newline the diff-base storage appends -/
structure Codec (env : Env) : Prop where
  rt : ∀ j, env.dec (env.enc j) = some j
  rtnl : ∀ j, env.dec (env.enc j ++ newline) = some j

/-- a status storage field that does not live under `metadata` (nor is `kind`): the default is
    `status.kopf.progress` -/
def FieldApart (field : Path) : Prop := ∃ h t, field = h :: t ∧ h ≠ "metadata" ∧ h ≠ "kind"

end Kopf.C16
