/-
  C16 — the Kubernetes grammar of annotation keys, as decidable functions on `List Char`
  (specification side of the `valid_name*` theorems). It shares with the key-forming code only the three
  one-line predicates `isAlnum` / `headAlnum` / `lastAlnum` over core `Char.isAlphanum`, which
  `make_edged_name` (kopf c2cffd8) uses as well; the Python oracle judges the real names with its own
  regular expression.

  An annotation key is `[prefix/]name`; the name part is 1..63 characters, alphanumeric at both
  ends, `[-_.A-Za-z0-9]` inside; the prefix is a DNS subdomain: at most 253 characters, labels of
  1..63 lowercase alphanumerics or `-` separated by `.`, each label alphanumeric at both ends.
-/
import Kopf.Model.C16_Storage
namespace Kopf.C16
open Kopf Kopf.J

def isNameChar (c : Char) : Bool := isAlnum c || c == '-' || c == '_' || c == '.'

/-- the property's handler-id alphabet `[A-Za-z0-9_./<>-]`, plus `:` — the one further character
    kopf's own ids contain (`lambda:<path>:<line>`, `get_callable_id`) -/
def isIdChar (c : Char) : Bool :=
  isAlnum c || c == '_' || c == '.' || c == '/' || c == '<' || c == '>' || c == '-' || c == ':'

def validNamePart (n : Str) : Bool :=
  decide (1 ≤ n.length) && decide (n.length ≤ 63) && headAlnum n && lastAlnum n && n.all isNameChar

def isLowerAlnum (c : Char) : Bool := c.isLower || c.isDigit

/-- one pass over a DNS subdomain: `n` = length of the current label so far,
    `prev` = the previous character was alphanumeric -/
def dnsScan : Str → Nat → Bool → Bool
  | [], n, prev => decide (1 ≤ n) && prev
  | c :: cs, n, prev =>
    if c = '.' then decide (1 ≤ n) && prev && dnsScan cs 0 false
    else if isLowerAlnum c then decide (n + 1 ≤ 63) && dnsScan cs (n + 1) true
    else if c = '-' then decide (1 ≤ n) && decide (n + 1 ≤ 63) && dnsScan cs (n + 1) false
    else false

def validPrefix (p : Str) : Bool := decide (p.length ≤ 253) && dnsScan p 0 false

/-- split at the first `/` -/
def splitSlash : Str → Option (Str × Str)
  | [] => none
  | c :: cs =>
    if c = '/' then some ([], cs)
    else match splitSlash cs with
      | some (a, b) => some (c :: a, b)
      | none => none

/-- a valid Kubernetes annotation key -/
def validQualified (s : Str) : Bool :=
  match splitSlash s with
  | none => validNamePart s
  | some (p, n) => validPrefix p && validNamePart n

/-! Hypotheses of `valid_name` (all decidable). -/

/-- every character is in the property's alphabet, and there is at least one -/
def IdOk (k : Str) : Prop := k ≠ [] ∧ k.all isIdChar = true

/-- every character is in the property's alphabet (the empty id included: since c2cffd8 it gets the
    name `x-<hash>`) — the only hypothesis on the id the validity theorems need -/
def IdChars (k : Str) : Prop := k.all isIdChar = true

/-- The id's safe form begins and ends with an ASCII alphanumeric: together with "at most 63 characters"
    this is when the V2 name is the safe form itself, taken **verbatim**. Every other id gets a
    *re-formed* name (cut-and-hashed, or — since kopf c2cffd8 — re-edged and hashed). -/
def Verbatim (k : Str) : Prop := headAlnum (safeKey k) = true ∧ lastAlnum (safeKey k) = true

/-- a usable hash suffix: 1..62 characters of the name alphabet, alphanumeric at the end.
    The real one (`make_suffix`: `'-' + b64(blake2b-32, altchars='-.')`, `rstrip('=-.')`) always is
    `-` plus five characters of `[A-Za-z0-9.-]` plus one of `A`, `Q`, `g`, `w` (the sixth base64 digit
    carries two bits), so nothing but the padding is ever stripped: 7 characters. The harness checks
    this shape on EVERY suffix the real `make_suffix` returns during a run. -/
def GoodSfx (s : Str) : Prop := 1 ≤ s.length ∧ s.length ≤ 62 ∧ s.all isNameChar = true ∧ lastAlnum s = true

instance (k : Str) : Decidable (IdOk k) := by unfold IdOk; infer_instance
instance (k : Str) : Decidable (IdChars k) := by unfold IdChars; infer_instance
instance (k : Str) : Decidable (Verbatim k) := by unfold Verbatim; infer_instance
instance (s : Str) : Decidable (GoodSfx s) := by unfold GoodSfx; infer_instance

/-- a status storage field that does not live under `metadata` (nor is `kind`): the default is
    `status.kopf.progress` -/
def FieldApart (field : Path) : Prop := ∃ h t, field = h :: t ∧ h ≠ "metadata" ∧ h ≠ "kind"

/-! ## Vocabulary of the storage theorems (what the statements in `Props/C16.lean` talk about) -/

/-- the bindings of a merge target (`{}` for a non-object target) -/
def kvsOf : J → List (String × J)
  | obj kvs => kvs
  | _ => []

/-- What a merge-patch says about one path of the object (kopf terms: what the accumulated
    `Patch` of the cycle will do to that field when the API server applies it). -/
inductive Probe where
  | untouched            -- the patch says nothing about this path
  | gone                 -- the path is deleted (or cut off by a null / a scalar above it)
  | set (v : J)          -- the patch carries value `v` (non-null unless the path is empty) at this path

def probe : J → Path → Probe
  | p, [] => .set p
  | p, k :: ks =>
    match p with
    | obj pk =>
      match lookup k pk with
      | none => .untouched
      | some null => .gone
      | some c => if ks.isEmpty then .set c else if c.isObj then probe c ks else .gone
    | _ => .gone

/-- the two paths differ at some common position (neither is a prefix of the other) -/
def diverge : Path → Path → Bool
  | a :: as, b :: bs => if a = b then diverge as bs else true
  | _, _ => false

/-- The patch does not rewrite what the ReplicaSet-of-Deployment marking looks at (`kind`,
    `metadata.ownerReferences`): the names computed when storing and when fetching from the patched
    object are then the same. Kopf's own patches never touch these fields; `{}` satisfies it. -/
def MarkStable (p : J) : Prop :=
  probe p ["kind"] = .untouched ∧ probe p ["metadata", "ownerReferences"] = .untouched


/-- a flat record: unique keys, no nested objects (the shape of `ProgressRecord`) -/
def FlatRec (r : Rec) : Prop := wfKvs r = true ∧ ∀ kv ∈ r, kv.2.isObj = false

/-- name part of the v2 key before `make_edged_name` (= the whole name part before kopf c2cffd8) -/
def v2Raw (sfx : Str → Str) (k : Str) : Str :=
  (safeKey k).take (63 - (if k.length > 63 then sfx k else []).length) ++ (if k.length > 63 then sfx k else [])

/-- name part of the v1 key before `make_edged_name` -/
def v1Raw (p : Str) (sfx : Str → Str) (k : Str) : Str :=
  pyTake (safeKey k) (63 - ((pre p).length : Int) -
      ((if ((safeKey k).length : Int) ≤ 63 - ((pre p).length : Int) then [] else sfx (safeKey k)).length : Int))
    ++ (if ((safeKey k).length : Int) ≤ 63 - ((pre p).length : Int) then [] else sfx (safeKey k))

/-- name part of the v2 key -/
def v2Name (sfx : Str → Str) (k : Str) : Str := edgedName sfx (v2Raw sfx k) k 63

/-- name part of the v1 key -/
def v1Name (p : Str) (sfx : Str → Str) (k : Str) : Str :=
  edgedName sfx (v1Raw p sfx k) k (63 - ((pre p).length : Int))

/-- the annotation names as they were formed BEFORE kopf c2cffd8 (no `make_edged_name`): what an
    operator of an older version has persisted its records under -/
def makeKeysOld (p : Str) (v1 : Bool) (sfx : Str → Str) (k : Str) : List Str :=
  if v1 && v1Fits p sfx && (pre p ++ v1Raw p sfx k) != (pre p ++ v2Raw sfx k)
  then [pre p ++ v2Raw sfx k, pre p ++ v1Raw p sfx k] else [pre p ++ v2Raw sfx k]

/-- a prefix the real constructors accept and Kubernetes can hold: non-empty, no `/` -/
def PlainPrefix (p : Str) : Prop := p ≠ [] ∧ ∀ ch ∈ p, ch ≠ '/'

/-- A leaf of a Multi storage that keeps out of the way of an annotations storage with prefix `p`:
    another annotations storage under a *different* plain prefix, or a status storage whose field is
    not under `metadata` (kopf terms: `Multi[Annotations(prefix=a), Annotations(prefix=b), Status()]`). -/
def LeafApart (p : Str) : Leaf → Prop
  | .ann c' => c'.pfx ≠ p ∧ PlainPrefix c'.pfx
  | .status sc => FieldApart sc.field

end Kopf.C16
