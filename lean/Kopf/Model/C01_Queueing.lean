/-
  C01 model — `kopf/_core/reactor/queueing.py` (`watcher`, `worker`, `_wait_for_depletion`) and
  `kopf/_cogs/aiokits/aiotasks.py` (`Scheduler`). Core Lean only.

  A labelled transition system whose labels are the *atomic code segments between suspension
  points* of the real coroutines (an `asyncio.Queue.put` on an unbounded queue, an uncontended
  `async with Condition` and `await`-ing an already finished task do not suspend; `asyncio.sleep(0)`,
  `wait_for(backlog.get())` on an empty queue, the processor's own awaits and `Condition.wait` do):

  * watcher:  `arrive k e`  — `streams[k]` exists: `pressure.set(); backlog.put(e)`
              `miss k e`    — `streams[k]` raised KeyError; the event is in the watcher's hand
                              (a potential suspension: `operator_indexed.make_toggle`)
              `insert`      — `streams[k] = Stream(..); backlog.put(e); scheduler.spawn(worker(..))`
                              up to `spawn`'s `sleep(0)`: stream + first event + pending coroutine
                              appear together
              `cancelWatcher` — the watch stream ended / the watcher task was cancelled (external,
                              or by a failed worker, see `left`): the `finally:` block begins
              `eosPut k`    — `_wait_for_depletion`: `stream.backlog.put(EOS)`
              `close`       — `scheduler.close()`: `_closed = True`, every running task `.cancel()`ed
  * scheduler: `spawn`      — `_task_spawner`: head of `_pending_coros` → `create_task`, into
                              `_running_tasks`, iff `limit is None or len(running) < limit`
              `left w`      — `_task_done_callback`: the finished task leaves `_running_tasks`
                              (and, if it failed, `exception_handler` cancels the watcher)
  * worker w: `start w`     — the task's first step: enters `try:` and its first `wait_for(backlog.get(), …)`
                              (with a positive timeout and the filled queue it goes straight on to `take`
                              in the same segment; with `idle_timeout <= 0` it really suspends here)
              `take w e`    — `wait_for(backlog.get())` returned `e`; the processor is entered
              `finish w`    — the processor returned; back to `wait_for(backlog.get())`
              `fail w`      — the processor raised: `finally: del streams[key]` (the backlog is dropped
                              with it), the task ends with the exception
              `timeoutTake w e` — `TimeoutError`, but `backlog.empty()` is false:
                              `raw_event = backlog.get_nowait()` and straight on into the processor, all in
                              the SAME segment (since /repo d07cc0b; before, the worker `continue`d into a
                              new `wait_for`, which with `idle_timeout <= 0` never looked at the queue)
              `retire w`    — `TimeoutError` and `backlog.empty()`: `break` + `finally: del streams[key]`
                              in ONE segment (no await in between — the crux of C01)
              `eosExit w`   — got `EOS`: `break`, `del streams[key]`
              `kill w`      — the task was cancelled by `scheduler.close()`. A task that was created
                              but never ran does not execute its `finally:` (the stream entry stays:
                              kopf's "Unprocessed streams left" warning); a started one erases it.
  * only in the deliberately broken variant `stepBuggy` (retirement split at an await):
              `retireCheck w` — `TimeoutError` and `backlog.empty()`: decide to leave, then suspend
              `retireErase w` — `del streams[key]`

  The per-object worker *instances* are independent entities (`pc : Wid → Option Pc`): nothing in
  the state representation forces "one worker per key"; that is a theorem (Props/C01).

  Batching: this version of kopf has NO time-based batching in `worker`
  (`settings.queueing.batch_window` is "Deprecated and affects nothing"): every event that is put
  into a backlog is handed to the processor. The model therefore has no batching either.
-/
namespace Kopf.C01

abbrev Key := Nat
abbrev Ev := Nat

/-- What sits in a backlog queue: a raw event or the end-of-stream marker. -/
inductive Item where
  | ev (e : Ev)
  | eos
  deriving DecidableEq, Repr

/-- A worker instance: the `gen`-th worker coroutine ever created for `key`. -/
structure Wid where
  key : Key
  gen : Nat
  deriving DecidableEq, Repr

/-- Program counter of a worker instance. -/
inductive Pc where
  | pending                 -- coroutine object sits in `Scheduler._pending_coros`
  | spawned                 -- task created (in `_running_tasks`), first step not yet executed (`start`)
  | waiting                 -- suspended in `wait_for(backlog.get(), timeout)`
  | busy (e : Ev)           -- suspended inside `processor(raw_event=e)`
  | checked                 -- (`stepBuggy` only) saw an empty backlog on timeout, not yet erased
  | leaving (failed : Bool) -- coroutine finished (stream entry already erased unless never started);
                            -- the task still occupies its slot until the done-callback runs
  deriving DecidableEq, Repr

/-- the instance still serves (or will serve) its stream: everything but `leaving` -/
def Pc.live : Pc → Bool
  | .pending => true
  | .spawned => true
  | .waiting => true
  | .busy _ => true
  | .checked => true
  | .leaving _ => false

@[simp] theorem Pc.live_pending : Pc.live .pending = true := rfl
@[simp] theorem Pc.live_spawned : Pc.live .spawned = true := rfl
@[simp] theorem Pc.live_waiting : Pc.live .waiting = true := rfl
@[simp] theorem Pc.live_busy (e : Ev) : Pc.live (.busy e) = true := rfl
@[simp] theorem Pc.live_checked : Pc.live .checked = true := rfl
@[simp] theorem Pc.live_leaving (f : Bool) : Pc.live (.leaving f) = false := rfl

def upd {α : Type} {β : Type} [DecidableEq α] (f : α → β) (a : α) (b : β) : α → β :=
  fun x => if x = a then b else f x

@[simp] theorem upd_same {α β : Type} [DecidableEq α] (f : α → β) (a : α) (b : β) :
    upd f a b a = b := by simp [upd]

@[simp] theorem upd_other {α β : Type} [DecidableEq α] (f : α → β) (a x : α) (b : β) (h : x ≠ a) :
    upd f a b x = f x := by simp [upd, h]

/-- the raw events of a backlog, in queue order (EOS markers dropped) -/
def evs : List Item → List Ev
  | [] => []
  | .ev e :: r => e :: evs r
  | .eos :: r => evs r

@[simp] theorem evs_nil : evs [] = [] := rfl
@[simp] theorem evs_cons_ev (e : Ev) (r : List Item) : evs (.ev e :: r) = e :: evs r := rfl
@[simp] theorem evs_cons_eos (r : List Item) : evs (.eos :: r) = evs r := rfl

@[simp] theorem evs_append (a b : List Item) : evs (a ++ b) = evs a ++ evs b := by
  induction a with
  | nil => rfl
  | cons i r ih => cases i <;> simp [ih]

structure State where
  limit : Option Nat                 -- `settings.queueing.worker_limit`
  streams : Key → Option (List Item) -- `streams[key].backlog` contents; none = no entry
  pc : Wid → Option Pc               -- none = no such instance (not yet created / already gone)
  nextGen : Key → Nat                -- how many worker coroutines were created for the key so far
  pendingQ : List Wid                -- `Scheduler._pending_coros` (FIFO)
  running : List Wid                 -- `Scheduler._running_tasks`
  hand : Option (Key × Ev)           -- event taken from the watch stream, stream entry not yet made
  arrived : Key → List Ev            -- history: events the API delivered, per key
  started : Key → List Ev            -- history: events handed to the processor, per key
  processed : Key → List Ev          -- history: events whose processor call ended, per key
  failedK : Key → Bool               -- a worker of this key died with an exception (backlog dropped)
  dropped : Key → List Ev            -- history: events that were in the watcher's hand when it was cancelled
                                     -- (never happens in the real code: no suspension between `miss` and `insert`)
  closing : Bool                     -- the watcher left its `async for` (cancelled / stream over)
  closed : Bool                      -- `scheduler.close()` was called

def init (limit : Option Nat) : State :=
  { limit := limit, streams := fun _ => none, pc := fun _ => none, nextGen := fun _ => 0,
    pendingQ := [], running := [], hand := none,
    arrived := fun _ => [], started := fun _ => [], processed := fun _ => [],
    failedK := fun _ => false, dropped := fun _ => [], closing := false, closed := false }

inductive Label where
  | arrive (k : Key) (e : Ev)
  | miss (k : Key) (e : Ev)
  | insert
  | spawn
  | start (w : Wid)
  | take (w : Wid) (e : Ev)
  | finish (w : Wid)
  | fail (w : Wid)
  | timeoutTake (w : Wid) (e : Ev)
  | retire (w : Wid)
  | retireCheck (w : Wid)
  | retireErase (w : Wid)
  | eosExit (w : Wid)
  | left (w : Wid)
  | cancelWatcher
  | eosPut (k : Key)
  | close
  | kill (w : Wid)
  deriving DecidableEq, Repr

/-- raw events of an optional backlog ([] when there is no stream entry) -/
def backlogOf : Option (List Item) → List Ev
  | some b => evs b
  | none => []

@[simp] theorem backlogOf_none : backlogOf none = [] := rfl
@[simp] theorem backlogOf_some (b : List Item) : backlogOf (some b) = evs b := rfl

/-- the event in the watcher's hand, if it belongs to `k` -/
def handOf : Option (Key × Ev) → Key → List Ev
  | some (k', e), k => if k' = k then [e] else []
  | none, _ => []

@[simp] theorem handOf_none (k : Key) : handOf none k = [] := rfl
@[simp] theorem handOf_some (k' : Key) (e : Ev) (k : Key) :
    handOf (some (k', e)) k = if k' = k then [e] else [] := rfl

/-- the hand's event is lost when the watcher is cancelled with an event in its hand -/
def dropHand (s : State) : Key → List Ev := fun k => s.dropped k ++ handOf s.hand k

/-- `limit is None or len(running) < limit` -/
def canSpawn (s : State) : Bool :=
  match s.limit with
  | none => true
  | some n => s.running.length < n

/-- One atomic segment. `none` = the label is not enabled in `s`.
    `buggy = true` replaces the atomic `retire` by `retireCheck` ; `retireErase`. -/
def stepCore (buggy : Bool) (s : State) : Label → Option State
  | .arrive k e =>
    if s.closing = false ∧ s.hand = none then
      match s.streams k with
      | some b => some { s with streams := upd s.streams k (some (b ++ [.ev e])),
                                arrived := upd s.arrived k (s.arrived k ++ [e]) }
      | none => none
    else none
  | .miss k e =>
    if s.closing = false ∧ s.hand = none ∧ s.streams k = none then
      some { s with hand := some (k, e), arrived := upd s.arrived k (s.arrived k ++ [e]) }
    else none
  | .insert =>
    match s.hand with
    | some (k, e) =>
      let w : Wid := ⟨k, s.nextGen k⟩
      some { s with streams := upd s.streams k (some [.ev e]),
                    pc := upd s.pc w (some .pending),
                    nextGen := upd s.nextGen k (s.nextGen k + 1),
                    pendingQ := s.pendingQ ++ [w],
                    hand := none }
    | none => none
  | .spawn =>
    match s.pendingQ with
    | w :: rest =>
      if canSpawn s = true then
        some { s with pendingQ := rest, running := s.running ++ [w], pc := upd s.pc w (some .spawned) }
      else none
    | [] => none
  | .start w =>
    if s.closed = false ∧ s.pc w = some .spawned then
      some { s with pc := upd s.pc w (some .waiting) }
    else none
  | .take w e =>
    if s.closed = false ∧ s.pc w = some .waiting then
      match s.streams w.key with
      | some (.ev e' :: rest) =>
        if e' = e then
          some { s with streams := upd s.streams w.key (some rest),
                        pc := upd s.pc w (some (.busy e)),
                        started := upd s.started w.key (s.started w.key ++ [e]) }
        else none
      | _ => none
    else none
  | .finish w =>
    if s.closed = false then
      match s.pc w with
      | some (.busy e) =>
        some { s with pc := upd s.pc w (some .waiting),
                      processed := upd s.processed w.key (s.processed w.key ++ [e]) }
      | _ => none
    else none
  | .fail w =>
    if s.closed = false then
      match s.pc w with
      | some (.busy e) =>
        some { s with pc := upd s.pc w (some (.leaving true)),
                      processed := upd s.processed w.key (s.processed w.key ++ [e]),
                      streams := upd s.streams w.key none,
                      failedK := upd s.failedK w.key true }
      | _ => none
    else none
  | .timeoutTake w e =>
    if s.closed = false ∧ s.pc w = some .waiting then
      match s.streams w.key with
      | some (.ev e' :: rest) =>
        if e' = e then
          some { s with streams := upd s.streams w.key (some rest),
                        pc := upd s.pc w (some (.busy e)),
                        started := upd s.started w.key (s.started w.key ++ [e]) }
        else none
      | _ => none
    else none
  | .retire w =>
    if buggy = false ∧ s.closed = false ∧ s.pc w = some .waiting ∧ s.streams w.key = some [] then
      some { s with streams := upd s.streams w.key none, pc := upd s.pc w (some (.leaving false)) }
    else none
  | .retireCheck w =>
    if buggy = true ∧ s.closed = false ∧ s.pc w = some .waiting ∧ s.streams w.key = some [] then
      some { s with pc := upd s.pc w (some .checked) }
    else none
  | .retireErase w =>
    if buggy = true ∧ s.closed = false ∧ s.pc w = some .checked then
      some { s with streams := upd s.streams w.key none, pc := upd s.pc w (some (.leaving false)) }
    else none
  | .eosExit w =>
    if s.closed = false ∧ s.pc w = some .waiting then
      match s.streams w.key with
      | some (.eos :: _) =>
        some { s with streams := upd s.streams w.key none, pc := upd s.pc w (some (.leaving false)) }
      | _ => none
    else none
  | .left w =>
    match s.pc w with
    | some (.leaving f) =>
      some { s with pc := upd s.pc w none, running := s.running.filter (fun x => x ≠ w),
                    closing := s.closing || f,
                    dropped := if f then dropHand s else s.dropped,
                    hand := if f then none else s.hand }
    | _ => none
  | .cancelWatcher => some { s with closing := true, dropped := dropHand s, hand := none }
  | .eosPut k =>
    if s.closing = true ∧ s.closed = false then
      match s.streams k with
      | some b => if Item.eos ∈ b then none else some { s with streams := upd s.streams k (some (b ++ [.eos])) }
      | none => none
    else none
  | .close =>
    -- `scheduler.close()` is called exactly once, at the end of the watcher's `finally:`
    if s.closing = true ∧ s.closed = false then some { s with closed := true } else none
  | .kill w =>
    if s.closed = true then
      match s.pc w with
      | some .spawned => some { s with pc := upd s.pc w (some (.leaving false)) }
      | some .waiting | some (.busy _) | some .checked =>
        some { s with streams := upd s.streams w.key none, pc := upd s.pc w (some (.leaving false)) }
      | _ => none
    else none

/-- the model of the code as it is -/
def step : State → Label → Option State := stepCore false
/-- the deliberately broken variant (non-vacuity of the theorems) -/
def stepBuggy : State → Label → Option State := stepCore true

def runWith (f : State → Label → Option State) : State → List Label → Option State
  | s, [] => some s
  | s, l :: ls => match f s l with
    | some s' => runWith f s' ls
    | none => none

def run : State → List Label → Option State := runWith step
def runBuggy : State → List Label → Option State := runWith stepBuggy

/-- `s` is reached from the initial state (with the given worker limit) by the label list `ls` -/
def Reach (limit : Option Nat) (ls : List Label) (s : State) : Prop := run (init limit) ls = some s
def ReachBuggy (limit : Option Nat) (ls : List Label) (s : State) : Prop :=
  runBuggy (init limit) ls = some s

/-- Labels the system performs by itself (everything except what the environment decides:
    an event arriving, the watcher being cancelled). -/
def Label.internal : Label → Bool
  | .arrive _ _ | .miss _ _ | .cancelWatcher => false
  | _ => true

/-- No internal label is enabled. -/
def Quiescent (f : State → Label → Option State) (s : State) : Prop :=
  ∀ l, l.internal = true → f s l = none

/-- the event (if any) being processed right now for key `k`: what was started but not finished -/
def inflight (s : State) (k : Key) : List Ev := (s.started k).drop (s.processed k).length


/-! ### A termination measure for the internal labels

`measure s` counts, with weights, the work the system still has to do *by itself*: the event in the
watcher's hand, every worker instance according to its program counter, every queued item of the
stream a live instance serves (+1 while the EOS marker has not yet been put), and the pending
`scheduler.close()`. `Props/C01.internal_terminates` shows that every internal label strictly decreases
it — so without new arrivals the system reaches quiescence after at most `measure s` segments. -/

def itemW : Item → Nat
  | .ev _ => 2
  | .eos => 0

def pcW : Pc → Nat
  | .pending => 4
  | .spawned => 3
  | .waiting => 2
  | .busy _ => 3
  | .checked => 2
  | .leaving _ => 1

def streamW : Option (List Item) → Nat
  | none => 0
  | some b => (b.map itemW).sum + (if Item.eos ∈ b then 0 else 1)

/-- weight of one worker instance: its program counter, plus (while it is live) its key's backlog -/
def instW (s : State) (w : Wid) : Nat :=
  match s.pc w with
  | none => 0
  | some p => pcW p + (if p.live then streamW (s.streams w.key) else 0)

def sumW (f : Wid → Nat) (l : List Wid) : Nat := (l.map f).sum

/-- the instances (of a list) whose key satisfies `φ` -/
def onKeys (φ : Key → Bool) (l : List Wid) : List Wid := l.filter (fun w => φ w.key)

/-- weight of the event in the watcher's hand, if its key satisfies `φ` -/
def handW (φ : Key → Bool) (s : State) : Nat :=
  match s.hand with
  | some (k, _) => if φ k then 8 else 0
  | none => 0

/-- the outstanding work of the keys selected by `φ` -/
def measureOn (φ : Key → Bool) (s : State) : Nat :=
  handW φ s + sumW (instW s) (onKeys φ s.pendingQ) + sumW (instW s) (onKeys φ s.running)

/-- the outstanding work of the whole system (all keys, plus the pending `scheduler.close()`) -/
def measure (s : State) : Nat := measureOn (fun _ => true) s + (if s.closed then 0 else 1)

/-- the outstanding work of ONE key: its event in the watcher's hand, its worker instances, its backlog -/
def kmeasure (s : State) (k : Key) : Nat := measureOn (fun j => j == k) s

/-- the key a label acts on in state `s` (`none`: the watcher-wide `cancelWatcher` / `close`) -/
def Label.key? (s : State) : Label → Option Key
  | .arrive k _ | .miss k _ | .eosPut k => some k
  | .insert => s.hand.map (·.1)
  | .spawn => s.pendingQ.head?.map (·.key)
  | .start w | .take w _ | .timeoutTake w _ | .finish w | .fail w | .retire w | .retireCheck w
  | .retireErase w | .eosExit w | .left w | .kill w => some w.key
  | .cancelWatcher | .close => none

/-- how many segments of key `k` a run contains -/
def kSteps (k : Key) : State → List Label → Nat
  | _, [] => 0
  | s, l :: ls =>
    match step s l with
    | some s' => (if l.key? s = some k then 1 else 0) + kSteps k s' ls
    | none => 0

/-- no label of the list is an arrival (`arrive` / `miss`) for key `k` -/
def NoArrivalFor (k : Key) (ls : List Label) : Prop :=
  ∀ l ∈ ls, ∀ e, l ≠ .arrive k e ∧ l ≠ .miss k e

/-- events of the backlog of `k` -/
def backlogEvs (s : State) (k : Key) : List Ev := backlogOf (s.streams k)

/-- the event in the watcher's hand, if it belongs to `k` -/
def handEvs (s : State) (k : Key) : List Ev := handOf s.hand k

/-! ### The event → key map: the watcher's bookmark filter and `get_uid`

What decides which per-object queue a raw event goes to (before any label of the LTS above):
`Bookmark.*` markers and `type == 'BOOKMARK'` events are skipped; otherwise the key is `metadata.uid`
when the field is present, else `'//'.join(s or '-' for s in (kind, apiVersion, name, namespace,
creationTimestamp))`. `keyOf` returns the components before the join (the join is injective as long as no
component contains "//": Kubernetes names, kinds, versions and RFC 3339 timestamps never do). -/

structure RawId where
  bookmark : Bool            -- `isinstance(raw_event, Bookmark)` or `raw_event['type'] == 'BOOKMARK'`
  uid : Option String        -- `metadata['uid']` when the field is present
  kind : Option String
  apiVersion : Option String
  name : Option String
  ns : Option String
  ts : Option String
  deriving DecidableEq, Repr

/-- `s or '-'` -/
def orDash : Option String → String
  | some s => if s = "" then "-" else s
  | none => "-"

/-- `none`: the event is not multiplexed at all -/
def keyOf (r : RawId) : Option (List String) :=
  if r.bookmark then none
  else match r.uid with
    | some u => some [u]
    | none => some [orDash r.kind, orDash r.apiVersion, orDash r.name, orDash r.ns, orDash r.ts]

/-- an identity field as the API sends it: absent, or a non-empty string other than "-" -/
def FieldOK : Option String → Prop
  | some s => s ≠ "" ∧ s ≠ "-"
  | none => True

end Kopf.C01
