/-
  C03 model — the closed loop of ONE object once the environment is silent:

    watch event → `process_resource_event`: cause detection (C05) on (stored last-handled essence,
    current essence, memory flags) → handler selection → one handling pass (C02 `cycle`) →
    on `done or skip`: last-handled := essence, `fully_handled_once` := True →
    `application.apply`: a non-empty patch → ONE PATCH, its echo is the next watch event;
    else delays → sleep min(delays) (capped by WAITING_KEEPALIVE_INTERVAL) → the touch-dummy PATCH,
    its echo is the next watch event; else nothing: no event is pending, the loop is quiescent.

  The per-object worker is sequential (`queueing.worker`) and, while nobody else writes, every event
  it receives is the echo of its own last PATCH: so the closed loop of one object is a *function*
  `loopStep`. Time is integer ticks. Core Lean only.

  Deliberately NOT in this model (other properties own them): the finalizer add/remove cycles and the
  deletion branch (C06), daemons/timers and their delays (C09/C10), the consistency wait for the echo
  (C07), the patch transport (C08). The object is alive and unmarked: `deleted = marked = blocked = false`.
-/
import Kopf.Model.C05_Cause
import Kopf.Model.C02_Cycle
import Kopf.Model.C14_Resume
namespace Kopf.C03
open Kopf

abbrev Id := C02.Id
abbrev Tick := C02.Tick

/-- What stays constant while the environment is silent. -/
structure Env where
  owned : List Id                      -- `get_resource_handlers(resource)`
  subs : List Id                       -- ids of sub-handlers that may carry records (a PATCH can purge them)
  sel : C05.Cause → List Id            -- `get_handlers(cause)`: gate + filters; filters read only the essence
  limits : Id → C02.Limits
  lifecycle : C02.Lifecycle
  exec : Id → Nat → C02.Outcome        -- what invoking handler `i` with `retry = n` yields
  prematch : Bool                      -- some changing handler's filters accept the object at all
  lat : Tick                           -- PATCH round trip + delivery delay of its echo
  cap : Tick                           -- `application.WAITING_KEEPALIVE_INTERVAL`

/-- One object + the operator's memory of it + the one possibly pending watch event. -/
structure State (E : Type) where
  P : C02.Store            -- progress records the object carries
  base : Option E          -- stored last-handled essence (diff-base)
  ess : E                  -- the object's essence: constant while the environment is silent
  noticed : Bool           -- `memory.noticed_by_listing`
  fullyHandled : Bool      -- `memory.fully_handled_once`
  now : Tick
  pending : Bool           -- a watch event (listing, echo of the last PATCH, or touch) is waiting
  writes : Nat             -- PATCH requests issued by the framework so far

variable {E : Type} [DecidableEq E]

/-- `_detect_causes` for a live, unmarked object. -/
def causeOf (s : State E) : C05.Cause :=
  C05.detect { deleted := false, marked := false, blocked := false,
               oldAbsent := s.base.isNone, diffNonEmpty := decide (s.base ≠ some s.ess),
               initial := s.noticed && !s.fullyHandled }

def cfgOf (env : Env) (s : State E) : C02.Cfg :=
  let c := causeOf s
  { owned := env.owned, selected := env.sel c, limits := env.limits,
    reason := C14.reasonStr c.reason, lifecycle := env.lifecycle }

/-- the handling pass of this event (handlers are instantaneous: both clock readings coincide) -/
def pass (env : Env) (s : State E) : C02.CycleResult :=
  C02.cycle (cfgOf env s) s.P s.now s.now env.exec

/-- `min(delays) if delays else None` -/
def minDelay : List Tick → Option Tick
  | [] => none
  | d :: ds => match minDelay ds with
    | none => some d
    | some m => some (if d ≤ m then d else m)

/-- every id a PATCH of the framework can touch -/
def ids (env : Env) : List Id := env.owned ++ env.subs

/-- One turn of the closed loop: consume the pending event, process it, `apply`. -/
def loopStep (env : Env) (s : State E) : State E :=
  if !s.pending then s                                  -- quiescent: nothing arrives, nothing happens
  else if !env.prematch then { s with pending := false }  -- "be blind to it, store no state"
  else
    let r := pass env s
    let base' := if r.closed then some s.ess else s.base
    let fh' := s.fullyHandled || r.closed
    let changed := (ids env).any (fun i => r.P' i != s.P i) || decide (base' ≠ s.base)
    if changed then
      -- patch is non-empty: PATCH; a pending sleep is skipped; the echo re-triggers the loop
      { s with P := r.P', base := base', fullyHandled := fh', now := s.now + env.lat,
               pending := true, writes := s.writes + 1 }
    else
      match minDelay r.delays with
      | some d =>
          -- nothing to patch, but delayed handlers: sleep (capped), then the touch-dummy PATCH
          let sl := if d > env.cap then env.cap else d
          { s with P := r.P', base := base', fullyHandled := fh', now := s.now + sl + env.lat,
                   pending := true, writes := s.writes + 1 }
      | none =>
          { s with P := r.P', base := base', fullyHandled := fh', pending := false }

/-- `n` turns of the loop -/
def iter (env : Env) : Nat → State E → State E
  | 0, s => s
  | n + 1, s => iter env n (loopStep env s)

/-- A new operator process meets the object (graceful restart, or kill at any point): its memory is
    empty, the object is seen in the initial listing. What the object carries (`P`, `base`) is
    whatever the server holds; the clock has moved on. -/
def restart (s : State E) (t : Tick) : State E :=
  { s with noticed := true, fullyHandled := false, now := t, pending := true }

end Kopf.C03
