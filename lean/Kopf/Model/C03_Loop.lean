/-
  C03 model — the closed loop of ONE object once the environment is silent:

    watch event → `process_resource_event`: cause detection (C05) on (stored last-handled essence,
    current essence, deletion mark, own finalizer, memory flags) → the finalizer decision block (C06
    `decision`: add the finalizer / remove the unneeded one — both skip the handlers this turn / release)
    → handler selection → one handling pass (C02 `cycle`) →
    on `done or skip`: last-handled := essence, `fully_handled_once` := True →
    `application.apply`: a non-empty patch → PATCH, its echo is the next watch event;
    else delays → sleep min(delays) (capped by WAITING_KEEPALIVE_INTERVAL) → the touch-dummy PATCH,
    its echo is the next watch event; else nothing: no event is pending, the loop is quiescent.
    A marked object whose own finalizer is removed (and no foreign finalizer holds it) is gone.
    An object in deletion that only somebody else's finalizer holds (cause FREE, repo fix 40d09eb) gets no handlers,
    but the leftover progress records PRESENT on it are purged (`purgeTurn`: one PATCH, its echo finds nothing to
    purge). An object no handler's filters accept ("blind") is not written to at all (`blindTurn`; repo fix 423b86f
    had purged its leftovers too, ad4ec08 took that back: the records are recognised by handler id and prefix only,
    which every deployment of the same operator code shares — C15-F9): whatever records it carries stay.
    One id registered for several causes (stacked decorators): the handler declared for the current reason does not
    inherit the progress its namesake recorded for another cause (repo fix f7d6401: `vis`, `Env.boundH`).

  The per-object worker is sequential (`queueing.worker`) and, while nobody else writes, every event
  it receives is the echo of its own last PATCH: so the closed loop of one object is a *function*
  `loopStep`. Around it, `act`/`runActs` let an adversarial environment interleave turns (with any
  handler outcomes), external edits, deletion requests and operator restarts/kills: the histories the
  property quantifies over. Time is integer ticks. Core Lean only.

  Deliberately NOT in this model (other properties own them): daemons/timers and their delays (C09/C10:
  `spawning = false` in the finalizer decision), whether the consistency barrier is up (C07: `consistent =
  true` in `loopStep`; what a held-back turn does to the loop is `loopStepI`), the patch transport and its
  conflicts (C08; what a cycle that starts with a carried patch does to the loop is `loopStepC`), foreign
  finalizer edits (C06; a constant `foreignFins` says whether somebody else's finalizer holds the object).
-/
import Kopf.Model.C05_Cause
import Kopf.Model.C02_Cycle
import Kopf.Model.C14_Resume
import Kopf.Model.C06_Finalizer
namespace Kopf.C03
open Kopf

abbrev Id := C02.Id
abbrev Tick := C02.Tick

/-- What stays constant while the environment is silent.

    GUARD (`FiltersStable` below): `sel`, `prematch`, `changeReq` and `exec` do not depend on what the
    framework itself writes to the object (progress records, last-handled state, touch-dummy, finalizer,
    `status.<handler>` results): kopf's filters (`labels=`, `annotations=`, `field=`, `when=`) are
    evaluated on the whole body, so a filter that reads the framework's own annotations or the status
    would make the selection change between two turns of a silent tail. Theorems about `loopStep env`
    are about operators whose filters read the essence only. -/
structure Env where
  owned : List Id                      -- `get_resource_handlers(resource)`
  subs : List Id                       -- ids of sub-handlers that may carry records (a PATCH can purge them)
  sel : C05.Cause → List Id            -- `get_handlers(cause)`: gate + filters
  initialH : Id → Bool                 -- `handler.initial`: a resuming handler (`@kopf.on.resume`)
  boundH : C05.Cause → Id → Bool       -- `handler.reason is not None` of the handler selected under this id for the cause:
                                       -- declared for this very reason (on.create / on.update / on.delete), as opposed to
                                       -- the mix-in handlers (resuming, field). One id may stand for several registrations
                                       -- (stacked decorators on one function): they share ONE progress record
  limits : Id → C02.Limits
  lifecycle : C02.Lifecycle
  exec : Id → Nat → C02.Outcome        -- what invoking handler `i` with `retry = n` yields
  prematch : Bool                      -- some changing handler's filters accept the object at all
  changeReq : Bool                     -- `registry._changing.requires_finalizer(cause)`: a mandatory deletion handler prematches
  foreignFins : Bool                   -- somebody else's finalizer is on the object (it survives our release)
  constPatch : Bool                    -- every cycle's patch carries content that changes nothing on the server
                                       -- (e.g. the constant result of an `on.event` handler, stored again each time).
                                       -- NOT modelled: after a keepalive touch that wakes nobody, that patch goes out
                                       -- together with the touch-dummy cleanup, which does change the object (one more
                                       -- PATCH + echo per keepalive round)
  lat : Tick                           -- PATCH round trip + delivery delay of its echo
  rtt : Tick                           -- PATCH round trip alone (what a patch without an echo costs)
  cap : Tick                           -- `application.WAITING_KEEPALIVE_INTERVAL`

/-- One object + the operator's memory of it + the one possibly pending watch event. -/
structure State (E : Type) where
  P : C02.Store            -- progress records the object carries
  base : Option E          -- stored last-handled essence (diff-base)
  ess : E                  -- the object's essence: constant while the environment is silent
  marked : Bool            -- `metadata.deletionTimestamp` is set (a deletion was requested)
  blocked : Bool           -- the framework's own finalizer is in `metadata.finalizers`
  gone : Bool              -- the object does not exist any more
  noticed : Bool           -- `memory.noticed_by_listing`
  fullyHandled : Bool      -- `memory.fully_handled_once`
  resumed : List Id        -- `memory.resumed_handlers`: resuming handlers that reached a final outcome for the
                           -- object in this process while its cycle is still open (repo fix 6c4463d)
  now : Tick
  pending : Bool           -- a watch event (listing, echo of the last PATCH, or touch) is waiting
  writes : Nat             -- PATCH requests issued by the framework so far

variable {E : Type} [DecidableEq E]

/-- `_detect_causes` for an existing object (the event is not DELETED). -/
def causeOf (s : State E) : C05.Cause :=
  C05.detect { deleted := false, marked := s.marked, blocked := s.blocked,
               oldAbsent := s.base.isNone, diffNonEmpty := decide (s.base ≠ some s.ess),
               initial := s.noticed && !s.fullyHandled }

/-- the handler still has to reach a final outcome -/
def unfin (P : C02.Store) (i : Id) : Bool :=
  match P i with | some r => !r.finished | none => true

/-- `cause_handlers`: the registry's selection for the cause, without the resuming handlers that have
    already finished for this object in this process -/
def selOf (env : Env) (s : State E) : List Id :=
  (env.sel (causeOf s)).filter (fun i => !(env.initialH i && s.resumed.contains i))

def cfgOf (env : Env) (s : State E) : C02.Cfg :=
  { owned := env.owned, selected := selOf env s, limits := env.limits,
    reason := C14.reasonStr (causeOf s).reason, lifecycle := env.lifecycle }

/-- The records the handling pass takes over (repo fix f7d6401, formerly finding C03-N3): for a handler reason, the record
    of a selected handler that is declared for this very reason but carries ANOTHER cause's purpose is its namesake's
    (one id registered for several causes) and is left out — that handler starts from scratch. Everything else, and
    everything for an informational cause, is taken as it is. -/
def vis (env : Env) (s : State E) : C02.Store :=
  C02.taken (cfgOf env s) (env.boundH (causeOf s)) s.P

/-- the handling pass of this event (handlers are instantaneous: both clock readings coincide): `process_changing_cause`
    as of f7d6401, `C02.cycleB (cfgOf env s) (env.boundH (causeOf s)) s.P …` — which IS C02's `cycle` over the records
    taken over (`Kopf.C02.cycleB_eq_cycle_taken`; stated for this loop as `Kopf.C03.pass_is_cycleB`) -/
def pass (env : Env) (s : State E) : C02.CycleResult :=
  C02.cycle (cfgOf env s) (vis env s) s.now s.now env.exec

/-- `min(delays) if delays else None` -/
def minDelay : List Tick → Option Tick
  | [] => none
  | d :: ds => match minDelay ds with
    | none => some d
    | some m => some (if d ≤ m then d else m)

/-- every id a PATCH of the framework can touch (GUARD: `subs` lists every sub-handler id that occurs
    in a stored record's or an outcome's `subrefs`; otherwise `writes` can miss a purge-only PATCH) -/
def ids (env : Env) : List Id := env.owned ++ env.subs

/-- `State.from_storage(body, handlers=owned).purge(body, patch, handlers=owned)`: the progress records of the
    resource's handlers (and of their sub-handlers, by the records' `subrefs`) that are PRESENT on the object are
    patched away. What the no-op cause does since d1b2dc4 (C02 `cycle`, reason "noop") and, since 40d09eb, the cause
    FREE (C02 `cycleB`'s FREE pass: `Kopf.C03.free_turn_is_cycleB`). (423b86f had the blind branch of
    `process_resource_causes` do the same; ad4ec08 took that back.) -/
def purged (env : Env) (s : State E) : C02.Store :=
  C02.purge s.P (C02.fromStorage s.P env.owned) env.owned env.owned

/-- does that purge find anything to patch away? ("nothing to purge -- nothing to patch") -/
def leftovers (env : Env) (s : State E) : Bool := (ids env).any (fun i => purged env s i != s.P i)

/-- what the finalizer decision block of `process_resource_causes` reads (C06), for this loop:
    no daemons, a consistent view; `chgDelays` = the handling pass left delays -/
def finIn (env : Env) (s : State E) (chgDelays : Bool) : C06.In :=
  { spawning := false, spawnReq := false, changing := env.prematch, changeReq := env.changeReq,
    isBlocked := s.blocked, isOngoing := s.marked, deletedEvent := false, consistent := true,
    spawnDelays := false, changeDelays := chgDelays,
    deadline := false, paused := false, carried := false }   -- read at the early exit only (`loopStepI`, `loopStepC`)

/-- the decision of this turn -/
def decisionOf (env : Env) (s : State E) : C06.Decision :=
  C06.decision (finIn env s (!(pass env s).delays.isEmpty))

/-- requests that change nothing: the constant part of the patch, sent when nothing else goes with it -/
def cp (env : Env) : Nat := if env.constPatch then 1 else 0

/-- from the end of the sleep to the next event: (the no-op patch was sent before the sleep, if any) + touch + echo -/
def latS (env : Env) : Tick := (if env.constPatch then env.rtt else 0) + env.lat

/-- did the handling pass put anything into the patch that CHANGES the object (records or last-handled)? -/
def changedOf (env : Env) (s : State E) : Bool :=
  (ids env).any (fun i => (pass env s).P' i != s.P i) ||
    decide ((if (pass env s).closed then some s.ess else s.base) ≠ s.base)

/-- `memory.resumed_handlers` after the pass: the selected resuming handlers that got a final outcome in it
    are added; the set is dropped when the cycle closes -/
def resumedAfter (env : Env) (s : State E) : List Id :=
  if (pass env s).closed then []
  else s.resumed ++ (selOf env s).filter (fun i => env.initialH i && unfin (vis env s) i && !unfin (pass env s).P' i)

/-- the state after a turn that ran the handling pass -/
def nextState (env : Env) (s : State E) (now' : Tick) (pend : Bool) (w : Nat) : State E :=
  { s with P := (pass env s).P', base := (if (pass env s).closed then some s.ess else s.base),
           fullyHandled := (s.fullyHandled || (pass env s).closed),
           resumed := resumedAfter env s, now := now', pending := pend, writes := w }

/-- A turn in which `process_changing_cause` is reached and the object is not released: the pass, then
    `application.apply` (as of repo fix 7224f57): a patch that CHANGED the object → its echo is the next
    event, a pending sleep is skipped; otherwise (no patch, a patch that changed nothing, or — as of repo
    fix b7bf39c, formerly finding C03-N1 — a non-empty patch of transformation functions that yield no
    operation, for which no request is sent at all: not told apart from "no patch" here) delays → sleep
    (capped) → the touch-dummy PATCH → its echo; else nothing is pending. -/
def handleTurn (env : Env) (s : State E) : State E :=
  if changedOf env s then
    nextState env s (s.now + env.lat) true (s.writes + 1)
  else
    match minDelay (pass env s).delays with
    | some d =>
        nextState env s (s.now + (if d > env.cap then env.cap else d) + latS env) true (s.writes + cp env + 1)
    | none => nextState env s s.now false (s.writes + cp env)

/-- The closing pass of a deletion: the patch (records purged, last-handled) is merge-patched if it has
    content (one more round trip), then the JSON patch removes the own finalizer; with no other finalizer the
    object is gone, else the echo of the second request is the next event. -/
def releaseTurn (env : Env) (s : State E) : State E :=
  { nextState env s (s.now + (if changedOf env s || env.constPatch then env.rtt else 0) + env.lat) env.foreignFins
      (s.writes + (if changedOf env s then 2 else cp env + 1)) with
    blocked := false, gone := !env.foreignFins }

/-- A turn without handlers on an object in deletion that the own finalizer does not hold and somebody else's does (cause
    FREE; repo fix 40d09eb): the leftover records present on the object are purged — one PATCH that changes the object,
    its echo is the next event and finds nothing to purge; with nothing to purge nothing is written (but the constant
    part of the patch) and no event follows. The last-handled state is left alone. -/
def purgeTurn (env : Env) (s : State E) : State E :=
  if leftovers env s then
    { s with P := purged env s, now := s.now + env.lat, pending := true, writes := s.writes + 1 }
  else { s with pending := false, writes := s.writes + cp env }

/-- A turn on an object the framework is BLIND to (no changing handler's filters accept it): "be blind to it, store no
    state" — nothing is read, nothing is written (but the constant part of the patch), no event follows; whatever
    progress records and last-handled state the object carries stay (as before repo fix 423b86f, again since ad4ec08). -/
def blindTurn (env : Env) (s : State E) : State E :=
  { s with pending := false, writes := s.writes + cp env }

/-- The turn that removes the finalizer nobody needs ("Removing the finalizer, as there are no handlers requiring
    it"): no handlers this turn, the records are left alone (also on a blind object: ad4ec08). -/
def remState (env : Env) (s : State E) (g : Bool) : State E :=
  { s with blocked := false, gone := g, now := s.now + latS env, pending := !g, writes := s.writes + cp env + 1 }

/-- One turn of the closed loop: consume the pending event, process it, `apply`. -/
def loopStep (env : Env) (s : State E) : State E :=
  if !s.pending then s                                  -- quiescent: nothing arrives, nothing happens
  else if s.gone then { s with pending := false }       -- the DELETED event: forget, log, nothing else
  else
    let d := decisionOf env s
    if d.add then
      -- "Adding the finalizer, thus preventing the actual deletion": no handlers this turn
      { s with blocked := true, now := s.now + latS env, pending := true, writes := s.writes + cp env + 1 }
    else if d.removeUnneeded then
      -- "Removing the finalizer, as there are no handlers requiring it": no handlers this turn
      remState env s (s.marked && !env.foreignFins)
    else if !d.handlersRun then blindTurn env s          -- "be blind to it, store no state"
    else if d.release then releaseTurn env s
    else if (causeOf s).reason = .free then purgeTurn env s   -- "Deletion, but we are done with it": leftovers purged
    else handleTurn env s

/-- `n` turns of the loop -/
def iter (env : Env) : Nat → State E → State E
  | 0, s => s
  | n + 1, s => iter env n (loopStep env s)

/-- A new operator process meets the object (graceful restart, or kill at any point): its memory is
    empty, the object (if it still exists) is seen in the initial listing. What the object carries
    (`P`, `base`, deletion mark, finalizer) is whatever the server holds; the clock has moved on. -/
def restart (s : State E) (t : Tick) : State E :=
  { s with noticed := true, fullyHandled := false, resumed := [], now := t, pending := !s.gone }

/-! ### the environment as an adversary: histories -/

/-- What can happen to the object and the operator, one action at a time. -/
inductive Act (E : Type) where
  | turn (exec : Id → Nat → C02.Outcome)   -- the operator processes the pending event; handlers behave as `exec`
  | edit (e : E) (t : Tick)                -- an external write makes the essence `e`; its event is delivered at `t`
  | delete (t : Tick)                      -- an external deletion request
  | restart (t : Tick)                     -- the operator is stopped or killed, a new process starts at `t`
  | lostWrite (exec : Id → Nat → C02.Outcome) (t : Tick)
      -- kill BEFORE the in-flight write reached the server: the turn's handlers ran, nothing was persisted,
      -- a new process starts at `t` (kill AFTER the server applied it = `turn` followed by `restart`)

def act (env : Env) (s : State E) : Act E → State E
  | .turn x => loopStep { env with exec := x } s
  | .edit e t => if s.gone then s else { s with ess := e, now := t, pending := true }
  | .delete t =>
      if s.gone then s
      else if s.blocked || env.foreignFins then { s with marked := true, now := t, pending := true }
      else { s with marked := true, gone := true, now := t, pending := true }
  | .restart t => restart s t
  | .lostWrite _ t => restart s t

def runActs (env : Env) (s : State E) (acts : List (Act E)) : State E := acts.foldl (act env) s

/-- A history in which the operator's configuration as seen by this object may differ from action to action
    (a label edit changes which handlers match, whether any prematches, whether a finalizer is required; an
    operator upgrade changes limits and lifecycle): every action comes with the environment in force. -/
def runActsV (s : State E) (hist : List (Env × Act E)) : State E :=
  hist.foldl (fun st ea => act ea.1 st ea.2) s

/-- a freshly created object nobody has handled yet, its ADDED event pending -/
def created (e : E) (t : Tick) : State E :=
  { P := fun _ => none, base := none, ess := e, marked := false, blocked := false, gone := false,
    noticed := false, fullyHandled := false, resumed := [], now := t, pending := true, writes := 0 }

/-- external edits while no operator runs: only the essence moves -/
def applyEdits (s : State E) (es : List E) : State E :=
  es.foldl (fun st e => { st with ess := e }) s

/-! ### filters that may read what the framework writes -/

/-- The loop of an operator whose environment (selection, prematch, finalizer requirement, handler
    behaviour) is recomputed from the whole state on every turn. -/
def loopStepG (envOf : State E → Env) (s : State E) : State E := loopStep (envOf s) s

def iterG (envOf : State E → Env) : Nat → State E → State E
  | 0, s => s
  | n + 1, s => iterG envOf n (loopStepG envOf s)

/-- GUARD "filters do not read what the framework writes": along the silent tail from `s` the
    environment stays what it is at `s`. It holds whenever `envOf` depends on the essence, the deletion
    mark and the foreign finalizers only (`filtersStable_of_essence` in Props). -/
def FiltersStable (envOf : State E → Env) (s : State E) : Prop :=
  ∀ n, envOf (iterG envOf n s) = envOf s

/-! ### vocabulary of the statements -/

/-- well-formed environment: selected handlers are registered ones; latency ≥ 0; keepalive cap > 0 -/
structure WF (env : Env) : Prop where
  sub : ∀ c, ∀ i ∈ env.sel c, i ∈ env.owned
  lat : 0 ≤ env.lat
  rtt : 0 ≤ env.rtt
  cap : 0 < env.cap

/-- every handler the pass of THIS turn runs gets a final outcome from its script (no retry is asked for) -/
def PassFinal (env : Env) (s : State E) : Prop :=
  ∀ p ∈ (pass env s).invoked, (env.exec p.1 p.2).final = true

/-- this turn reaches `process_changing_cause` and `apply` (no finalizer adjustment, not blind, not the release) -/
def handlesNow (env : Env) (s : State E) : Bool :=
  s.pending && !s.gone && !(decisionOf env s).add && !(decisionOf env s).removeUnneeded &&
    (decisionOf env s).handlersRun && !(decisionOf env s).release

/-- This turn is a handling turn whose pass runs a handler with a non-final scripted outcome: a retry is asked
    for — ONE failure of the scripts is consumed. -/
def FailsNow (env : Env) (s : State E) : Prop := handlesNow env s = true ∧ ¬ PassFinal env s

/-- "handlers stop failing": from now on every invocation yields a final outcome (success, permanent
    failure; exhausted retries/timeouts are final by themselves) -/
def AllFinal (env : Env) : Prop := ∀ i n, (env.exec i n).final = true

/-- "handlers stop failing" as the property's quantifier has it — "every handler outcome script with FINITELY MANY
    failures": from some retry number on, every invocation of every handler yields a final outcome. (`AllFinal` is
    the case `N = 0`.) -/
def FinitelyFailing (env : Env) : Prop := ∃ N : Nat, ∀ i n, N ≤ n → (env.exec i n).final = true

/-- All stored records of the owned handlers carry the same purpose: an invariant of every handling
    pass (`Kopf.C02.uniform_preserved`), true of an object without records. (Same as `C02.UniformOn`.) -/
def Uniform (env : Env) (s : State E) : Prop :=
  ∃ p : String, ∀ i ∈ env.owned, ∀ r, s.P i = some r → r.purpose = some p

/-- the handler is due at `now`: no record yet, or an unfinished record that is not sleeping -/
def awakeP (P : C02.Store) (now : Tick) (i : Id) : Bool :=
  match P i with | some r => r.awakened now | none => true

/-- keepalive rounds still needed before the handler's delay can be slept in one piece -/
def slack (cap : Tick) (P : C02.Store) (now : Tick) (i : Id) : Nat :=
  match P i with
  | some r => if r.finished then 0 else
      match r.delayed with
      | some d => (d - now).toNat / cap.toNat
      | none => 0
  | none => 0

def Uv (l : List Id) (P : C02.Store) : Nat := (l.filter (unfin P)).length
def Av (l : List Id) (P : C02.Store) (t : Tick) : Nat := if l.any (awakeP P t) then 0 else 1
def Cv (cap : Tick) (l : List Id) (P : C02.Store) (t : Tick) : Nat := (l.map (slack cap P t)).sum

/-- the cause has a handler reason (creation, update, deletion, resuming) -/
def isHandler (s : State E) : Bool := C02.handlerReasons.contains (C14.reasonStr (causeOf s).reason)

/-- `state.extras` is non-empty: some stored record carries a superseded purpose -/
def extrasOf (env : Env) (s : State E) : Bool :=
  C02.hasExtras (C02.withHandlers (C02.fromStorage (vis env s) env.owned) (selOf env s)
    (C14.reasonStr (causeOf s).reason) s.now) (C02.known (cfgOf env s)) (C14.reasonStr (causeOf s).reason)

/-- this turn only adjusts the finalizer (adds it, or removes the one nobody needs) -/
def adjusting (env : Env) (s : State E) : Bool :=
  (decisionOf env s).add || (decisionOf env s).removeUnneeded

/-- turns still needed by the handling proper (all over the records TAKEN OVER, `vis`: a handler whose id carries only
    its namesake's record counts as unfinished and due):
    2·(selected handlers still unfinished) + (1 if none of them is due now) + (1 if superseded records
    are still to be re-purposed) + 1 (the echo of the closing PATCH) + the keepalive rounds of delays
    longer than the cap; for a blind object 1; for an informational cause or a FREE object 1, or 2 if leftover
    records are purged first. -/
def core (env : Env) (s : State E) : Nat :=
  if !env.prematch then 1
  else if decide ((causeOf s).reason = .free) then (if leftovers env s then 2 else 1)
  else if !isHandler s then (if changedOf env s then 2 else 1)
  else 2 * Uv (selOf env s) (vis env s) + Av (selOf env s) (vis env s) s.now
       + (if extrasOf env s then 1 else 0) + 1
       + Cv env.cap (selOf env s) (vis env s) s.now

/-- Upper bound on the number of further turns of the loop. A function of the state only. -/
def bound (env : Env) (s : State E) : Nat :=
  if !s.pending then 0
  else if s.gone then 1
  else (if adjusting env s then 1 else 0) + core env s

/-- invocations of the next `n` turns, up to and including the closing pass -/
def invsOf (env : Env) : Nat → State E → List (List (Id × Nat))
  | 0, _ => []
  | n + 1, s => (pass env s).invoked ::
      (if (pass env s).closed then [] else invsOf env n (loopStep env s))

/-- the clock reading and the selection of the next `n` turns (the rest of a C02 `StepV` is in `env`) -/
def stepsOf (env : Env) : Nat → State E → List (Tick × List Id)
  | 0, _ => []
  | n + 1, s => (s.now, selOf env s) :: stepsOf env n (loopStep env s)

/-- how many of the next `n` turns close a handling cycle (write the last-handled state) -/
def closings (env : Env) : Nat → State E → Nat
  | 0, _ => 0
  | n + 1, s =>
      (if s.pending && !s.gone && (decisionOf env s).handlersRun && (pass env s).closed then 1 else 0)
        + closings env n (loopStep env s)

/-! ### C08's carried patch, as far as this loop is concerned -/

/-- `memory.remaining_patch` at the start of a cycle: transformation functions of a HANDLER (`patch.fns`) whose
    JSON-patch was rejected with HTTP 422 in the cycle before (the framework's own finalizer functions are not carried
    since repo fix 1c8f3dd). HOW it gets there is C08's transport and not modelled; here only what the cycle that
    starts with it does to the loop. `ops`: the functions still yield operations on the newer body; `noop`: they
    yield none (the change they conflicted with has fulfilled them). -/
inductive Carried where
  | none | ops | noop
  deriving DecidableEq, Repr

/-- One turn of the loop that starts with a carried patch. `patch_initially_empty` is false, so — unless the turn is
    dedicated to the finalizer, or the framework is blind to the object — `process_resource_causes` skips the
    state-dependent handlers ("exit to PATCHing": the re-sent patch is expected to bring the next event): no pass, no
    release — and (repo fix 02af7ce, the rework of 608a57d) returns a ZERO delay for the sake of the carried patch. `application.apply`
    then sends the functions' JSON-patch (`ops`: one request that changes the object, its echo is the next event, the
    zero delay is not slept) or has nothing to send (`noop`: the functions are re-evaluated on the freshest state and are
    fulfilled already): the zero delay is "slept" and the object is TOUCHED — the touch's echo is the next event, an
    ordinary turn in which the handlers run. The carried patch is cleared either way; records and last-handled state
    are as they were. -/
def loopStepC (env : Env) (c : Carried) (s : State E) : State E :=
  if c = .none || !s.pending || s.gone || adjusting env s || !env.prematch then loopStep env s
  else if c = .ops then
    { s with now := s.now + (if env.constPatch then env.rtt else 0) + env.lat, pending := true,
             writes := s.writes + cp env + 1 }
  else { s with now := s.now + latS env, pending := true, writes := s.writes + cp env + 1 }

/-! ### C07's consistency wait, as far as this loop is concerned -/

/-- the part of the consistency wait that `apply` sleeps before it touches the object: `max(0, deadline − now)`,
    capped by the keepalive interval like every delay -/
def waitOf (env : Env) (dl : Tick) (s : State E) : Tick :=
  let d := if s.now < dl then dl - s.now else 0
  if d > env.cap then env.cap else d

/-- One turn on an event that is NOT the echo the worker awaits: it still awaits the version of the framework's own
    last PATCH, the consistency deadline `dl` lies ahead. Whether the barrier is up is C07's subject and not modelled
    (`loopStep` has `consistent = true`); here only what such a turn does to the loop. A turn dedicated to the
    finalizer, or on an object the framework is blind to, requires no consistency. Otherwise, with no patch
    accumulated before the state-dependent part (`nonEmpty = false`) the processor sleeps till the deadline, assumes
    the consistency and goes on: `loopStep` at the deadline. With a patch accumulated (`nonEmpty = true`: an on.event
    handler's result or its transformation functions) it neither sleeps nor runs the handlers ("exit to PATCHing") —
    but since repo fix 30557a0 it returns the remaining waiting time as a delay: in this loop the patches of that kind
    change nothing (`constPatch`: one request without effect; functions without operations: no request), so `apply`
    sleeps that time, touches the object, and the touch's echo — the version the worker then awaits — is the next
    event: an ordinary turn after the deadline. Records and last-handled state are as they were. -/
def loopStepI (env : Env) (nonEmpty : Bool) (dl : Tick) (s : State E) : State E :=
  if !s.pending || s.gone || adjusting env s || !env.prematch then loopStep env s
  else if nonEmpty then
    { s with now := s.now + waitOf env dl s + latS env, pending := true, writes := s.writes + cp env + 1 }
  else loopStep env { s with now := if s.now < dl then dl else s.now }

/-! ### the turns as they were BEFORE the repairs 40d09eb, 608a57d + 02af7ce, 30557a0 (for the regression theorems) -/

/-- `loopStep` before 40d09eb: a FREE object is left alone, whatever records it carries (C02's `cycle` purges for the
    reason "noop" only) — like a blind one. -/
def loopStepOld (env : Env) (s : State E) : State E :=
  if !s.pending then s
  else if s.gone then { s with pending := false }
  else
    let d := decisionOf env s
    if d.add then
      { s with blocked := true, now := s.now + latS env, pending := true, writes := s.writes + cp env + 1 }
    else if d.removeUnneeded then
      let g := s.marked && !env.foreignFins
      { s with blocked := false, gone := g, now := s.now + latS env, pending := !g, writes := s.writes + cp env + 1 }
    else if !d.handlersRun then { s with pending := false, writes := s.writes + cp env }
    else if d.release then releaseTurn env s
    else handleTurn env s

def iterOld (env : Env) : Nat → State E → State E
  | 0, s => s
  | n + 1, s => iterOld env n (loopStepOld env s)

/-- `loopStepC` before 608a57d / 02af7ce: a carried no-op makes the cycle skip the handlers and send nothing; there
    are no delays either (the handlers did not run): NO EVENT FOLLOWS. -/
def loopStepCOld (env : Env) (c : Carried) (s : State E) : State E :=
  if c = .none || !s.pending || s.gone || adjusting env s || !env.prematch then loopStep env s
  else if c = .ops then
    { s with now := s.now + (if env.constPatch then env.rtt else 0) + env.lat, pending := true,
             writes := s.writes + cp env + 1 }
  else { s with pending := false, writes := s.writes + cp env }

/-- `loopStepI` before 30557a0: with a patch accumulated the wait AND the handlers are skipped, the patch changes
    nothing: NO EVENT FOLLOWS, and the worker exits at the deadline. -/
def loopStepIOld (env : Env) (nonEmpty : Bool) (dl : Tick) (s : State E) : State E :=
  if !s.pending || s.gone || adjusting env s || !env.prematch then loopStep env s
  else if nonEmpty then { s with pending := false, writes := s.writes + cp env }
  else loopStep env { s with now := if s.now < dl then dl else s.now }

/-! ### instances shared by the witnesses in Props and the driver -/

def okOutcome : C02.Outcome := { final := true, delay := none, error := false, subrefs := [] }

/-- a freshly created live object nobody has handled yet -/
def stateN : State Nat :=
  { P := fun _ => none, base := none, ess := 0, marked := false, blocked := false, gone := false,
    noticed := false, fullyHandled := false, resumed := [], now := 0, pending := true, writes := 0 }

/-- An operator with ONE mandatory deletion handler whose filter reads the framework's own finalizer: it matches
    only while the object carries no finalizer (`@kopf.on.delete(..., field='metadata.finalizers',
    value=kopf.ABSENT)`): prematch and the finalizer requirement follow `blocked`. The environment is a function
    of the state: outside the guard `FiltersStable`. -/
def envOfU (s : State Nat) : Env :=
  { owned := ["d0"], subs := [], sel := fun c => if c.reason = .delete then ["d0"] else [],
    initialH := fun _ => false, boundH := fun _ _ => true,
    limits := fun _ => ⟨none, none⟩, lifecycle := .asap, exec := fun _ _ => okOutcome,
    prematch := !s.blocked, changeReq := !s.blocked, foreignFins := false, constPatch := false,
    lat := 1, rtt := 1, cap := 38400 }

end Kopf.C03
