/-
  C20 model — the operator's root-task choreography. Core Lean only.

  Mirrors `kopf/_core/reactor/running.py` (`spawn_tasks`, `run_tasks`, `stop_flag_checker`,
  `ultimate_termination`, `startup_cleanup_activities`), `kopf/_cogs/aiokits/aiotasks.py`
  (`guard`, `wait`, `stop`, `reraise`), `orchestration.orchestrator` (ensemble tasks), `queueing.watcher`
  (worker failure → `exception_handler` → the watcher cancels itself → `RuntimeError`),
  `daemons.daemon_killer`, `peering.keepalive` (withdrawal in `finally:`).

  A labelled transition system; a label is one atomic code segment between two suspension points.

  * Tasks. Root tasks (`Root`, the list `spawn_tasks` returns), the one "core" task (`authenticator`),
    the orchestrator's ensemble tasks (`Task.sub i`: resource watchers, peering watchers, peering
    keep-alives), per-object workers owned by a watcher, daemons, the `stop-flag waiter` helper, and
    "orphans": helper tasks a cancelled root task leaves behind (the `as_completed` children of
    `scan_resources`, the scheduler tasks of a crashed `daemon_killer`) — they can still act, and are hung
    tasks for `run_tasks`. Every guarded task starts in `waitingFlag` (`guard(flag=started_flag)`), the three
    unguarded ones (`stop_flag_checker`, `ultimate_termination`, `startup_cleanup_activities`) in `running`.
  * `task.cancel()` is a REQUEST (`creq`); the task acts on it in a later segment of its own:
    a flag-waiting guard ends `cancelled` without ever running its coroutine; `stop_flag_checker` and
    `ultimate_termination` swallow the cancellation and end `done`; a watcher goes through its
    `finally:` (`stopping`: depletion of the workers for at most `exit_timeout`, then
    `scheduler.close()`); a keep-alive withdraws the peering record in its `finally:`; the
    orchestrator stops its ensemble IN ORDER (`stop_in_order`, since /repo 26a293c): first it cancels and awaits the
    STREAMS (resource watchers, peering observers: `rootStopping orchestrator`), and only when the last of them has
    ended it cancels and awaits the KEEP-ALIVES (`orchStopPingers`, flag `orchPing`) — the handling stops first,
    the peering record is withdrawn last; `daemon_killer` spawns the exit stoppers and awaits them
    (`stopping`, at most `D`) — or crashes there (`stopping true`: "dictionary changed size during
    iteration", finding C20-F4) and ends `failed`.
  * Escalation edges AS THE CODE HAS THEM:
      worker failed     → its watcher (`werr`; `creq` when it streams, `stopping true` when it is already depleting its
        workers — `cfg.deplEscalates = true`, since /repo 69d1957)  → the watcher ends `failed` (RuntimeError);
      watcher of a root observer failed  = that root task failed → `run_tasks` stops everything;
      ensemble task failed → the orchestrator (its done-callback): it is cancelled, stops the streams and ends
        `failed` with that error — `cfg.fixed = true`, THE MODEL OF THE CURRENT TREE (since /repo 9ef1bcb);
        exempt: a watcher that ended with HTTP 404 (`gone`: its resource was deleted) — not a failure; tasks that
        exited on their own are cleaned up by `terminate_redundancies` (`subCancel` for their key-mates) and
        spawned anew while the key is served (`subSpawn`).
    `cfg.fixed = false` is the HISTORICAL variant (before 9ef1bcb): nobody looked at the ensemble tasks.
  * Time. `delay n` is the only label that lets time pass. It is disabled while anything
    "instantaneous" is pending (`urgent`): an undelivered cancellation of a live task (tasks honour
    cancellation), a wait whose condition already holds, a timed wait whose deadline is reached.
    The timed waits of the shutdown path: worker depletion (`E` = `settings.queueing.exit_timeout`),
    peering withdrawal (`W`), exit stoppers of daemons (`D` = max `cancellation_backoff +
    cancellation_timeout`), the cleanup activity (`C`, an ASSUMED bound: kopf sets none),
    hung tasks (`H` = the hard-coded 5 s of `run_tasks`).
  Cancellations of `operator()` itself, AS THE CURRENT TREE HANDLES THEM (`rtCancel`): while `run_tasks` waits for the first
  root task (or `spawn_tasks` sits in its final `sleep(0)`: since /repo d6da86b the same two stops follow), while it waits
  for the hung tasks, and — since /repo 883284c, `cfg.stopSwept` — while it stops the root tasks after a stop flag or a
  failure: `stop(root_tasks, cancelled=True)` cancels every root task that is still alive A SECOND TIME. What that does,
  per task, as in the code: `queueing.watcher` (observers, ensemble watchers) and — since /repo ab6fb15,
  `cfg.orchShielded` — the orchestrator shield their `finally:` / `except:` and suppress it; the daemon killer's
  `finally:` (`await scheduler.wait()`) is interrupted: it ends CANCELLED at once and leaves its exit stoppers behind
  as hung tasks (`rootEnd daemonKiller cancelled` from `stopping`, ghost `killerCut`); `startup_cleanup_activities`
  is interrupted wherever it waits (`scCut`: "Cleanup activity is not executed at all / only partially executed due to
  cancellation") — the cleanup handlers are skipped or cut short BY DESIGN (deviation C20-D4).
  HISTORICAL variants (`Label.leaves`: the labels `orchAbandon`, `spawnCancel`, `stopCancel` set the flag `abandoned`
  and the model describes nothing after them): `orchShielded = false` (before ab6fb15, finding C20-F8: a SECOND
  cancellation of the orchestrator while it stops its ensemble), `spawnSwept = false` (before d6da86b, C20-F10: a
  cancellation of `operator()` inside `spawn_tasks`), `stopSwept = false` (before 883284c, C20-F11: … while `run_tasks`
  stops the root tasks), `deplEscalates = false` (before 69d1957, C20-F5: a worker failing while its watcher depletes
  is only logged). None of these labels is enabled in the model of the current tree (`head_never_abandoned`).
  THE CURRENT TREE leaves the model at ONE label: `orchCrash` (`cfg.orchSwept = false`, open finding C20-F12) — the orchestrator's
  OWN loop raises; it handles only `CancelledError`, ends failed at once and orphans its ensemble. Every statement about the
  current tree is a statement about runs WITHOUT that label (`head_abandoned_only_by_orchestrator_failure`).
  Not modelled: a cancellation of `startup_cleanup_activities` inside `stop(core_tasks)` after a FAILED startup (it would
  replace the startup failure), a further cancellation of an `operator()` that is already inside one of its `stop(…, cancelled=True)`
  (`aiotasks.stop` gives up by design: "double-cancelling") or inside the final `stop(hung_pending)` (instantaneous
  in a cooperative run), the liveness endpoint and `_command` tasks,
  `settings.process.ultimate_exiting_timeout` (the armed SIGKILL of `ultimate_termination`), what follows a failure of the
  orchestrator's own loop (`orchCrash`), which worker spawned which daemon, which root task left which orphan behind.
-/
namespace Kopf.C20

/-- The root tasks of `spawn_tasks` (default configuration: no liveness endpoint, no `_command`). -/
inductive Root where
  | stopFlag | ultimate | startupCleanup
  | coreWatcher   -- the root task in its role "awaits the core tasks" (since /repo ed52a1a: the stop-flag checker, when it
                  -- ends because of a core task); a phantom in the historical variant `coreWatched := false`
  | daemonKiller | poster | admChain | admValidating | admMutating | admServer
  | resObserver | nsObserver | orchestrator
  deriving DecidableEq, Repr

def Root.all : List Root :=
  [.stopFlag, .ultimate, .startupCleanup, .coreWatcher, .daemonKiller, .poster, .admChain, .admValidating,
   .admMutating, .admServer, .resObserver, .nsObserver, .orchestrator]

theorem Root.mem_all (r : Root) : r ∈ Root.all := by cases r <;> simp [Root.all]

inductive RKind where
  | flagChecker | ultimate | startupCleanup
  | coreWatch     -- unguarded; awaits the core tasks (FIRST_COMPLETED) and re-raises their errors
  | simple        -- guarded; a cancellation ends it at once
  | killer        -- guarded; `daemon_killer`: on cancellation spawns the exit stoppers and awaits them
  | observer      -- guarded; runs `queueing.watcher` itself (CRDs / namespaces)
  | orchestrator  -- guarded; owns the ensemble tasks
  deriving DecidableEq, Repr

def Root.kind : Root → RKind
  | .stopFlag => .flagChecker
  | .ultimate => .ultimate
  | .startupCleanup => .startupCleanup
  | .coreWatcher => .coreWatch
  | .daemonKiller => .killer
  | .poster | .admChain | .admValidating | .admMutating | .admServer => .simple
  | .resObserver | .nsObserver => .observer
  | .orchestrator => .orchestrator

/-- created with `create_guarded_task(flag=started_flag)` -/
def Root.guarded (r : Root) : Bool :=
  match r.kind with
  | .simple | .killer | .observer | .orchestrator => true
  | _ => false

/-- Status of a task. -/
inductive TS where
  | absent                                    -- (ensemble tasks) not spawned yet
  | waitingFlag                               -- inside `guard`: `await flag.wait()`
  | running
  | stopping (fail : Bool) (dl : Option Nat)  -- in its `finally:`; ends `failed` iff `fail`
  | failed | cancelled | done
  deriving DecidableEq, Repr

def TS.ended : TS → Bool
  | .failed | .cancelled | .done => true
  | _ => false

def TS.live : TS → Bool
  | .waitingFlag | .running | .stopping _ _ => true
  | _ => false

/-- past the `started_flag` guard and not yet finished -/
def TS.active : TS → Bool
  | .running | .stopping _ _ => true
  | _ => false

/-- in its `finally:` / `except CancelledError:` — stopping what it owns -/
def TS.isStopping : TS → Bool
  | .stopping _ _ => true
  | _ => false

inductive SubKind where
  | watcher | peerWatcher | pinger
  deriving DecidableEq, Repr

inductive Task where
  | root (r : Root)
  | sub (i : Nat)
  deriving DecidableEq, Repr

inductive WS where
  | running | done | failed | cancelled
  deriving DecidableEq, Repr

inductive DS where
  | absent | running | ended
  deriving DecidableEq, Repr

/-- how `startup_cleanup_activities` is going to end (`none` = normally) -/
inductive Pend where
  | none | failed | cancelled
  deriving DecidableEq, Repr

def Pend.ts : Pend → TS
  | .none => .done
  | .failed => .failed
  | .cancelled => .cancelled

/-- program counter of `startup_cleanup_activities` -/
inductive Sc where
  | init                   -- task created
  | startup                -- in `run_activity(STARTUP)`
  | startupOk              -- the activity returned; next: `started_flag.set()`
  | flagged                -- next: `raise_flag(ready_flag)`
  | sleeping               -- `await asyncio.Event().wait()`
  | waitRoots              -- woken by the cancellation; `await wait(other root tasks)`
  | stopCore (p : Pend)    -- `finally:` next: `stop(core_tasks)`
  | coreStopping (p : Pend) -- inside `stop(core_tasks)`
  | cleanup (since : Nat)  -- in `run_activity(CLEANUP)`
  | closing                -- next: `vault.close()`
  | over (p : Pend)        -- the coroutine is finished
  deriving DecidableEq, Repr

/-- program counter of `run_tasks` -/
inductive Rt where
  | waiting                -- `wait(root_tasks, FIRST_COMPLETED)`
  | stoppingRoots          -- `stop(root_pending)`
  | hungWait (dl : Nat)    -- `wait(hung_tasks, timeout=5)`
  | stoppingHung           -- `stop(hung_pending)`
  | cStoppingRoots         -- cancelled: `stop(root_tasks, cancelled=True)`
  | cStoppingHung          -- cancelled: `stop(hung_tasks, cancelled=True)`
  | exited
  deriving DecidableEq, Repr

inductive Res where
  | returned | raised | cancelled
  deriving DecidableEq, Repr

inductive Actor where
  | task (t : Task)
  | worker (w : Nat)
  | orphan              -- a helper task left behind by a cancelled root task
  deriving DecidableEq, Repr

structure Cfg where
  fixed : Bool   -- the variant with the edge "failed ensemble task → orchestrator"
  coreWatched : Bool  -- the edge "failed core task → a root task": TRUE is the current tree (since /repo ed52a1a, C20-F6)
  orchShielded : Bool -- the orchestrator shields the stop of its ensemble from a SECOND cancellation, as `queueing.watcher`
                      -- shields its depletion: TRUE is the current tree (since /repo ab6fb15, repair of C20-F8)
  spawnSwept : Bool   -- `spawn_tasks` stops the tasks it has created when it is cancelled in its final `sleep(0)`, and
                      -- `operator()` sweeps their leftovers: TRUE is the current tree (since /repo d6da86b, repair of C20-F10)
  stopSwept : Bool    -- `run_tasks` handles a cancellation that comes while it stops the root tasks (`stop(root_pending)`):
                      -- TRUE is the current tree (since /repo 883284c, repair of C20-F11)
  deplEscalates : Bool -- `queueing.watcher` re-checks `worker_error` after the depletion of its workers and raises the
                      -- RuntimeError it has not raised yet: TRUE is the current tree (since /repo 69d1957, repair of C20-F5)
  orchSwept : Bool    -- the orchestrator stops its ensemble on EVERY exit of its loop, also when the loop itself raises (not
                      -- only in `except CancelledError:`): FALSE IS THE CURRENT TREE (open finding C20-F12: its own failure ends
                      -- it at once, the ensemble is orphaned); true with proposals/fix-C20-F12
  E : Nat        -- settings.queueing.exit_timeout
  W : Nat        -- bound of the peering withdrawal (retries of one PATCH)
  D : Nat        -- bound of one exit stopper: max (cancellation_backoff + cancellation_timeout) over daemons
  C : Nat        -- assumed bound of the cleanup activity
  H : Nat        -- hung-tasks grace of `run_tasks` (5 s)
  deriving Repr

def upd {α : Type} {β : Type} [DecidableEq α] (f : α → β) (a : α) (b : β) : α → β :=
  fun x => if x = a then b else f x

@[simp] theorem upd_same {α β : Type} [DecidableEq α] (f : α → β) (a : α) (b : β) :
    upd f a b a = b := by simp [upd]

@[simp] theorem upd_other {α β : Type} [DecidableEq α] (f : α → β) (a x : α) (b : β) (h : x ≠ a) :
    upd f a b x = f x := by simp [upd, h]

structure State where
  now : Nat
  st : Task → TS
  creq : Task → Bool              -- `task.cancel()` requested, not yet acted upon
  werr : Task → Bool              -- the watcher's `worker_error is not None`
  kind : Nat → SubKind
  nSubs : Nat
  withdrawn : Nat → Bool          -- the keep-alive sent its `lifetime=0` PATCH (an ATTEMPT: kopf ignores its failure)
  withdrawnOk : Nat → Bool        -- ... and the API accepted it
  gone : Nat → Bool               -- the watcher ended with HTTP 404: its resource is gone (e.g. CRD deleted)
  wk : Nat → Option (Task × WS)   -- workers: owner and status
  nWorkers : Nat
  dm : Nat → DS
  nDaemons : Nat
  coop : Nat → Bool               -- the daemon exits when its stopper asks it to (flag, or cancellation within the timeout)
  stopReq : Nat → Bool            -- `daemon_killer` has spawned an exit stopper for this daemon
  core : TS
  coreCreq : Bool
  started : Bool                  -- `started_flag`
  ready : Bool                    -- `ready_flag`
  sc : Sc
  rt : Rt
  stopFlagSet : Bool
  waiter : Bool                   -- the `stop-flag waiter` helper task is alive
  orphans : Nat                   -- helper tasks left behind by cancelled root tasks (e.g. `as_completed` children)
  killed : Bool                   -- `daemon_killer`'s `finally:` ran (exit stoppers spawned)
  killerCut : Bool                -- ghost: `daemon_killer`'s `finally:` was interrupted by a SECOND cancellation (it did not
                                  -- wait for its exit stoppers)
  orchErr : Bool                  -- (fixed variant) the orchestrator was cancelled by a failed ensemble task
  orchPing : Bool                 -- the exiting orchestrator has begun its SECOND stop: the streams are over, the keep-alives
                                  -- are cancelled (`stop_in_order`, since /repo 26a293c)
  t0 : Option Nat                 -- when `run_tasks` began to stop the root tasks
  abandoned : Bool                -- (HISTORICAL variants only) the run has LEFT THE MODEL: the orchestrator was cancelled a SECOND
                                  -- time while stopping its ensemble (`orchAbandon`, C20-F8), `operator()` was cancelled inside
                                  -- `spawn_tasks` (`spawnCancel`, C20-F10) or while `run_tasks` was stopping the root tasks
                                  -- (`stopCancel`, C20-F11): from here on the model does NOT describe the (old) code
  tFail : Option Nat              -- ghost: when the first ESCALATING failure of a task happened (see `markFail`)
  failWho : Option Task           -- ghost: whose failure that was (startup: `startupCleanup`; core task: `coreWatcher`)
  orchStopAt : Option Nat         -- ghost: when the orchestrator began to stop its ensemble
  exitAt : Option Nat
  result : Option Res
  -- history (ghost) variables
  acts : Nat                      -- API requests / handler calls so far
  startupDone : Bool              -- the startup activity returned successfully
  startupFailed : Bool            -- the startup activity raised or was cancelled
  startupRaised : Bool            -- the startup activity raised (a startup handler failed for good)
  cleanupBegun : Bool
  rootFailed : Bool               -- some root task ended with an exception
  hungFailed : Bool               -- some HUNG task (daemon, orphaned helper) ended with an exception: re-raised as well

def initSt : Task → TS
  | .root r => if r.guarded then .waitingFlag else .running
  | .sub _ => .absent

def init : State :=
  { now := 0, st := initSt, creq := fun _ => false, werr := fun _ => false,
    kind := fun _ => .watcher, nSubs := 0, withdrawn := fun _ => false, gone := fun _ => false,
    wk := fun _ => none, nWorkers := 0, dm := fun _ => .absent, nDaemons := 0,
    coop := fun _ => false, stopReq := fun _ => false, withdrawnOk := fun _ => false, abandoned := false, tFail := none, failWho := none, orchStopAt := none,
    core := .waitingFlag, coreCreq := false, started := false, ready := false,
    sc := .init, rt := .waiting, stopFlagSet := false, waiter := true, orphans := 0, killed := false, killerCut := false,
    orchErr := false, orchPing := false, t0 := none, exitAt := none, result := none,
    acts := 0, startupDone := false, startupFailed := false, startupRaised := false, cleanupBegun := false,
    rootFailed := false, hungFailed := false }

inductive Label where
  | delay (n : Nat)
  | setStopFlag
  -- startup_cleanup_activities
  | scStartupBegin
  | scStartupEnd (o : Pend)
  | setStarted
  | ready
  | scWake
  | scWaitRootsEnd
  | scCut
  | scStopCore
  | scCoreStopped
  | scCleanupEnd (o : Pend)
  | vaultClosed
  -- guarded root tasks and the core task
  | enter (r : Root)
  | coreEnter
  | coreEnd (how : TS)
  | rootStopping (r : Root) (fail : Bool)
  | rootEnd (r : Root) (how : TS)
  -- the orchestrator's ensemble
  | subSpawn (k : SubKind)
  | subStopping (i : Nat) (fail : Bool)
  | subGone (i : Nat)
  | subCancel (i : Nat)
  | withdraw (i : Nat) (ok : Bool)
  | subEnd (i : Nat) (how : TS)
  | orchStopPingers
  -- workers, daemons, helper
  | workerStart (o : Task)
  | workerEnd (w : Nat) (how : WS)
  | daemonSpawn (coop : Bool)
  | daemonExit (d : Nat)
  | waiterEnd
  | orphan
  | orphanEnd
  | act (a : Actor)
  -- run_tasks
  | orchAbandon
  | orchCrash
  | spawnCancel
  | stopCancel
  | hungFail
  | rtStopRoots
  | rtCancel
  | rtHungWait
  | rtStopHung
  | rtCStopHung
  | rtExit (r : Res)
  deriving DecidableEq, Repr

/-! ### derived predicates -/

def allRootsEnded (s : State) : Bool := Root.all.all (fun r => (s.st (.root r)).ended)
def anyRootEnded (s : State) : Bool := Root.all.any (fun r => (s.st (.root r)).ended)
def othersEnded (s : State) : Bool :=
  Root.all.all (fun r => r == .startupCleanup || (s.st (.root r)).ended)
def noLiveSub (s : State) : Bool := (List.range s.nSubs).all (fun i => !(s.st (.sub i)).live)
/-- no STREAM of the ensemble (resource watcher, peering observer — everything but the keep-alives) is alive -/
def noLiveStream (s : State) : Bool :=
  (List.range s.nSubs).all (fun i => s.kind i == .pinger || !(s.st (.sub i)).live)

def workerOf (s : State) (o : Task) (w : Nat) : Bool :=
  match s.wk w with
  | some (o', .running) => o' == o
  | _ => false
def noLiveWorkerOf (s : State) (o : Task) : Bool :=
  (List.range s.nWorkers).all (fun w => !workerOf s o w)
def workerLive (s : State) (w : Nat) : Bool :=
  match s.wk w with
  | some (_, .running) => true
  | _ => false
def anyLiveWorker (s : State) : Bool := (List.range s.nWorkers).any (workerLive s)
def anyDaemonRunning (s : State) : Bool := (List.range s.nDaemons).any (fun d => s.dm d == .running)
/-- the hung tasks `run_tasks` finds after the root tasks are gone -/
def hungLive (s : State) : Bool := s.waiter || anyDaemonRunning s || decide (0 < s.orphans)

/-- a task that runs `queueing.watcher` (owns workers) -/
def watcherLike (s : State) : Task → Bool
  | .root r => r.kind == .observer
  | .sub i => s.kind i != .pinger

/-- the bounded wait of a task's `finally:` -/
def grace (cfg : Cfg) (s : State) : Task → Nat
  | .root r => if r.kind == .killer then cfg.D else cfg.E
  | .sub i => if s.kind i == .pinger then cfg.W else cfg.E

/-- `for task in tasks: task.cancel()` over the live root tasks
    (a cancellation reaches a task only while it waits for its flag or runs: a task that is already in its `finally:`
    shields its depletion / stopping and suppresses further cancellations) -/
def cancelRoots (s : State) : Task → Bool
  | .root r => s.creq (.root r) || decide (s.st (.root r) = .running) || decide (s.st (.root r) = .waitingFlag)
  | t => s.creq t

/-- what `run_tasks`' `stop(root tasks)` reaches, per task as in the code: `queueing.watcher` (observers, ensemble watchers)
    shields its `finally:` and suppresses a repeated cancellation; so does the ORCHESTRATOR (which may already be stopping its
    ensemble — cancelled by the done-callback of a failed ensemble task) in the variant `orchShielded` (the current tree);
    `daemon_killer`'s `finally:` is NOT shielded: a repeated cancellation (`rtCancel` while `run_tasks` stops the root
    tasks — on the first call the killer cannot be in its `finally:` yet) reaches it -/
def cancelRootsV (cfg : Cfg) (s : State) : Task → Bool
  | .root r => cancelRoots s (.root r)
      || (!cfg.orchShielded && decide (r = .orchestrator) && (s.st (.root .orchestrator)).isStopping)
      || (decide (r = .daemonKiller) && (s.st (.root .daemonKiller)).isStopping)
  | t => s.creq t

/-- the orchestrator's FIRST exit stop, `stop(others, title="streaming")`: every ensemble task but the keep-alives
    (`others = get_tasks(keys) - pingers`, since /repo 26a293c) -/
def cancelSubs (s : State) : Task → Bool
  | .sub i => s.creq (.sub i)
              || (decide (i < s.nSubs) && decide (s.kind i ≠ .pinger)
                  && (decide (s.st (.sub i) = .running) || decide (s.st (.sub i) = .waitingFlag)))
  | t => s.creq t

/-- the orchestrator's SECOND exit stop, `stop(pingers, title="pinging")`: the keep-alives -/
def cancelPingers (s : State) : Task → Bool
  | .sub i => s.creq (.sub i)
              || (decide (i < s.nSubs) && decide (s.kind i = .pinger)
                  && (decide (s.st (.sub i) = .running) || decide (s.st (.sub i) = .waitingFlag)))
  | t => s.creq t

def dlReached (now : Nat) : TS → Bool
  | .stopping _ (some dl) => decide (dl ≤ now)
  | _ => false

/-- `now + n` does not overrun the deadline of this status -/
def dlAllows (now n : Nat) : TS → Bool
  | .stopping _ (some dl) => decide (now + n ≤ dl)
  | _ => true

def taskUrgent (s : State) (t : Task) : Bool :=
  ((s.st t).live && s.creq t) || dlReached s.now (s.st t)

def scUrgent (cfg : Cfg) (s : State) : Bool :=
  match s.sc with
  | .init | .startupOk | .flagged | .closing | .stopCore _ | .coreStopping _ => true
  | .over _ => (s.st (.root .startupCleanup)).live
  | .waitRoots => othersEnded s
  | .cleanup since => decide (since + cfg.C ≤ s.now)
  | .startup | .sleeping => false

def rtUrgent (s : State) : Bool :=
  match s.rt with
  | .waiting => anyRootEnded s
  | .stoppingRoots | .cStoppingRoots => allRootsEnded s
  | .hungWait dl => !hungLive s || decide (dl ≤ s.now)
  | .stoppingHung | .cStoppingHung => true
  | .exited => true

/-- Something instantaneous is pending: time must not pass. -/
def urgent (cfg : Cfg) (s : State) : Bool :=
  rtUrgent s || scUrgent cfg s
  || Root.all.any (fun r => taskUrgent s (.root r))
  || (List.range s.nSubs).any (fun i => taskUrgent s (.sub i))
  || (s.core.live && s.coreCreq)
  || (s.started && (s.core == .waitingFlag || Root.all.any (fun r => s.st (.root r) == .waitingFlag)))
  || (s.stopFlagSet && s.st (.root .stopFlag) == .running)
  || (cfg.coreWatched && s.core == .failed && s.st (.root .coreWatcher) == .running)
  || (match s.st (.root .orchestrator) with | .stopping _ _ => noLiveSub s || (!s.orchPing && noLiveStream s) | _ => false)

def deadlinesAllow (cfg : Cfg) (s : State) (n : Nat) : Bool :=
  Root.all.all (fun r => dlAllows s.now n (s.st (.root r)))
  && (List.range s.nSubs).all (fun i => dlAllows s.now n (s.st (.sub i)))
  && (match s.rt with | .hungWait dl => decide (s.now + n ≤ dl) | _ => true)
  && (match s.sc with | .cleanup since => decide (s.now + n ≤ since + cfg.C) | _ => true)

def failTS (fail : Bool) : TS := if fail then .failed else .cancelled

/-- ghost: remember the time of the FIRST failure that the modelled code escalates (a failing stream or task whose
    owner is still listening; NOT an HTTP 404 of a gone resource, NOT a failing cleanup; a worker failing while its watcher
    is already in its `finally:` only in the variant `deplEscalates`, an ensemble task only in the variant `fixed`, the
    core task only in the variant `coreWatched`) -/
def markFail (s : State) : Option Nat :=
  match s.tFail with
  | some t => some t
  | none => some s.now

/-- ghost: … and whose failure it was -/
def markWho (s : State) (t : Task) : Option Task :=
  match s.tFail with
  | some _ => s.failWho
  | none => some t

/-- `daemon_killer`'s `finally:`: one exit stopper per daemon that is running now -/
def stopReqNow (s : State) : Nat → Bool :=
  fun d => s.stopReq d || (decide (d < s.nDaemons) && s.dm d == .running)

/-- the exit stoppers of the cooperative daemons are over (their daemons have exited) -/
def coopStopped (s : State) : Bool :=
  (List.range s.nDaemons).all (fun d => !(s.stopReq d && s.coop d && s.dm d == .running))

/-- time may pass by `n`: nothing instantaneous is pending, no active deadline is overrun. A run all of whose `delay`
    labels satisfy this is COOPERATIVE (`Coop`): tasks honour cancellation at once, waits end when their condition
    holds, and the timed waits (E, W, D, C, H) are kept. -/
def coopDelay (cfg : Cfg) (s : State) (n : Nat) : Bool :=
  !urgent cfg s && deadlinesAllow cfg s n

/-- One atomic segment. `none` = the label is not enabled in `s`. -/
def step (cfg : Cfg) (s : State) : Label → Option State
  | .delay n =>
    -- time passes, cooperatively or not (see `coopDelay`)
    if s.rt ≠ .exited ∧ 0 < n then some { s with now := s.now + n } else none
  | .setStopFlag =>
    -- external: the stop flag is raised; the `stop-flag waiter` task finishes
    if s.rt ≠ .exited ∧ s.stopFlagSet = false then
      some { s with stopFlagSet := true, waiter := false }
    else none
  -- ---------------------------------------------------------------- startup_cleanup_activities
  | .scStartupBegin =>
    if s.rt ≠ .exited ∧ s.sc = .init then some { s with sc := .startup } else none
  | .scStartupEnd o =>
    if s.rt ≠ .exited ∧ s.sc = .startup then
      match o with
      | .none => some { s with sc := .startupOk, startupDone := true }
      | .failed => some { s with sc := .stopCore .failed, startupFailed := true, startupRaised := true,
                                 tFail := markFail s, failWho := markWho s (.root .startupCleanup) }
      | .cancelled =>
        if s.creq (.root .startupCleanup) = true then
          some { s with sc := .stopCore .cancelled, startupFailed := true,
                        creq := upd s.creq (.root .startupCleanup) false }
        else none
    else none
  | .setStarted =>
    if s.rt ≠ .exited ∧ s.sc = .startupOk then some { s with sc := .flagged, started := true } else none
  | .ready =>
    if s.rt ≠ .exited ∧ s.sc = .flagged then some { s with sc := .sleeping, ready := true } else none
  | .scWake =>
    if s.rt ≠ .exited ∧ s.sc = .sleeping ∧ s.creq (.root .startupCleanup) = true then
      some { s with sc := .waitRoots, creq := upd s.creq (.root .startupCleanup) false }
    else none
  | .scWaitRootsEnd =>
    -- (a pending — repeated — cancellation wins over the end of the wait: `scCut`)
    if s.rt ≠ .exited ∧ s.sc = .waitRoots ∧ othersEnded s = true ∧ s.creq (.root .startupCleanup) = false then
      some { s with sc := .stopCore .none }
    else none
  | .scCut =>
    -- a REPEATED cancellation (the first one woke the task up) reaches `startup_cleanup_activities` where it waits:
    --   in `wait(other root tasks)`: "Cleanup activity is not executed at all due to cancellation." → `finally: stop(core_tasks)`;
    --   in `stop(core_tasks)`: the same message, the task ends at once (a core task still stopping is left to the hung-task stop);
    --   in `vault.close()`: "Cleanup activity is only partially executed due to cancellation."
    -- (in the cleanup activity itself: `scCleanupEnd cancelled`). The cleanup handlers are skipped BY DESIGN (deviation C20-D4).
    if s.rt ≠ .exited ∧ s.creq (.root .startupCleanup) = true then
      match s.sc with
      | .waitRoots => some { s with sc := .stopCore .cancelled, creq := upd s.creq (.root .startupCleanup) false }
      | .coreStopping p =>
        -- (NOT modelled: after a FAILED startup activity — `p = failed`, whose `finally:` is this very stop — the cancellation would
        --  replace the startup failure; the window is the one or two loop iterations the core task needs to end)
        if p ≠ .failed then some { s with sc := .over .cancelled, creq := upd s.creq (.root .startupCleanup) false } else none
      | .closing => some { s with sc := .over .cancelled, creq := upd s.creq (.root .startupCleanup) false }
      | _ => none
    else none
  | .scStopCore =>
    if s.rt ≠ .exited then
      match s.sc with
      | .stopCore p => some { s with sc := .coreStopping p, coreCreq := s.coreCreq || s.core.live }
      | _ => none
    else none
  | .scCoreStopped =>
    if s.rt ≠ .exited ∧ s.core.live = false then
      match s.sc with
      | .coreStopping .none =>
        -- as the code is, `reraise(core_done)` comes BEFORE the cleanup activity: a failed core task skips it
        if s.core = .failed ∧ cfg.coreWatched = false then some { s with sc := .over .failed }
        else some { s with sc := .cleanup s.now, cleanupBegun := true }
      | .coreStopping p => some { s with sc := .over p }
      | _ => none
    else none
  | .scCleanupEnd o =>
    if s.rt ≠ .exited then
      match s.sc, o with
      | .cleanup _, .none => some { s with sc := .closing }
      | .cleanup _, .failed => some { s with sc := .over .failed }
      | .cleanup _, .cancelled =>
        if s.creq (.root .startupCleanup) = true then
          some { s with sc := .over .cancelled, creq := upd s.creq (.root .startupCleanup) false }
        else none
      | _, _ => none
    else none
  | .vaultClosed =>
    -- (variant `coreWatched`: the errors of the core tasks are re-raised here, after the cleanup)
    if s.rt ≠ .exited ∧ s.sc = .closing then
      some { s with sc := .over (if s.core = .failed then .failed else .none) }
    else none
  -- ---------------------------------------------------------------- guarded tasks
  | .enter r =>
    if s.rt ≠ .exited ∧ s.st (.root r) = .waitingFlag ∧ s.started = true ∧ s.creq (.root r) = false then
      some { s with st := upd s.st (.root r) .running }
    else none
  | .coreEnter =>
    if s.rt ≠ .exited ∧ s.core = .waitingFlag ∧ s.started = true ∧ s.coreCreq = false then
      some { s with core := .running }
    else none
  | .coreEnd how =>
    if s.rt ≠ .exited ∧ s.core.live = true then
      match how with
      | .cancelled => if s.coreCreq = true then some { s with core := .cancelled, coreCreq := false } else none
      | .failed =>
        if s.core = .running then
          some { s with core := .failed, tFail := if cfg.coreWatched then markFail s else s.tFail,
                        failWho := if cfg.coreWatched then markWho s (.root .coreWatcher) else s.failWho }
        else none
      | _ => none
    else none
  | .rootStopping r fail =>
    if s.rt ≠ .exited ∧ s.st (.root r) = .running then
      match r.kind with
      | .observer =>
        -- the watcher's `finally:`: a stream failure or a failed worker (`fail`), or a plain cancellation
        if fail = true ∨ (s.creq (.root r) = true ∧ s.werr (.root r) = false) then
          some { s with st := upd s.st (.root r) (.stopping fail (some (s.now + cfg.E))),
                        creq := upd s.creq (.root r) false, tFail := if fail then markFail s else s.tFail,
                        failWho := if fail then markWho s (.root r) else s.failWho }
        else none
      | .killer =>
        -- `finally:` spawn an exit stopper per running daemon, `await scheduler.wait()`.
        -- `fail`: the loop over `running_daemons` raises — a daemon that exits meanwhile deletes itself
        -- from that dict ("dictionary changed size during iteration", finding C20-F4)
        if s.creq (.root r) = true then
          some { s with st := upd s.st (.root r) (.stopping fail (some (s.now + cfg.D))),
                        creq := upd s.creq (.root r) false, killed := true, stopReq := stopReqNow s }
        else none
      | .orchestrator =>
        -- `except CancelledError: await stop_in_order(); raise` — its first half: `stop(others, title="streaming")` cancels the
        -- watchers and the peering observers; the keep-alives go on (see `orchStopPingers`)
        if s.creq (.root r) = true ∧ fail = s.orchErr then
          some { s with st := upd s.st (.root r) (.stopping fail none),
                        creq := upd (cancelSubs s) (.root r) false, orchStopAt := some s.now }
        else none
      | _ => none
    else none
  | .rootEnd r how =>
    if s.rt ≠ .exited ∧ how.ended = true then
      let fin : State := { s with st := upd s.st (.root r) how, creq := upd s.creq (.root r) false,
                                  rootFailed := s.rootFailed || how == .failed,
                                  tFail := if how = .failed ∧ s.st (.root r) = .running then markFail s else s.tFail,
                                  failWho := if how = .failed ∧ s.st (.root r) = .running then markWho s (.root r)
                                             else s.failWho }
      match r.kind with
      | .flagChecker =>
        if s.st (.root r) = .running ∧ how = .done ∧ (s.stopFlagSet = true ∨ s.creq (.root r) = true) then some fin
        else none
      | .ultimate =>
        if s.st (.root r) = .running ∧ how = .done ∧ s.creq (.root r) = true then some fin else none
      | .startupCleanup =>
        match s.sc with
        | .over p =>
          if s.st (.root r) = .running ∧ how = p.ts then some { fin with tFail := s.tFail, failWho := s.failWho }
          else none
        | _ => none
      | .coreWatch =>
        -- `stop_flag_checker`: `await wait(flags + core_tasks, FIRST_COMPLETED); await future` (variant `coreWatched`)
        if s.st (.root r) = .running ∧ how = .cancelled ∧ s.creq (.root r) = true then some fin
        else if s.st (.root r) = .running ∧ how = .failed ∧ cfg.coreWatched = true ∧ s.core = .failed then
          some { fin with tFail := s.tFail, failWho := s.failWho }
        -- a core task that was stopped (a failed startup stops the core tasks before any root task has ended) ends the
        -- wait as well: the watcher returns normally — a root task is over, `run_tasks` stops the rest
        else if s.st (.root r) = .running ∧ how = .done ∧ cfg.coreWatched = true ∧ s.core = .cancelled then some fin
        else none
      | .simple =>
        if (s.st (.root r) = .waitingFlag ∨ s.st (.root r) = .running) ∧ how = .cancelled ∧ s.creq (.root r) = true then
          some fin
        else if s.st (.root r) = .running ∧ how = .failed then some fin
        else none
      | .killer =>
        match s.st (.root r) with
        | .waitingFlag => if how = .cancelled ∧ s.creq (.root r) = true then some fin else none
        | .running =>
          -- no daemon to stop: the `finally:` is over at once
          if how = .cancelled ∧ s.creq (.root r) = true ∧ anyDaemonRunning s = false then some { fin with killed := true }
          else if how = .failed then some fin
          else none
        -- `await scheduler.wait()`: until every exit stopper is over — a cooperative daemon has exited by then,
        -- the others are given up ("orphaned") after their timeouts; a crashed `finally:` (C20-F4) awaits nothing
        | .stopping f _ =>
          if how = failTS f ∧ (f = false → coopStopped s = true) then some fin
          -- a REPEATED cancellation interrupts `await scheduler.wait()`: the killer ends cancelled at once, its exit stoppers
          -- (and the daemons they are stopping) are left to the hung-task stop of `run_tasks`
          else if how = .cancelled ∧ f = false ∧ s.creq (.root r) = true then some { fin with killerCut := true }
          else none
        | _ => none
      | .observer =>
        if noLiveWorkerOf s (.root r) = true then
          match s.st (.root r) with
          | .waitingFlag => if how = .cancelled ∧ s.creq (.root r) = true then some fin else none
          | .running =>
            if how = .failed then some fin
            else if how = .cancelled ∧ s.creq (.root r) = true ∧ s.werr (.root r) = false then some fin
            else none
          | .stopping f _ => if how = failTS f then some fin else none
          | _ => none
        else none
      | .orchestrator =>
        match s.st (.root r) with
        | .waitingFlag => if how = .cancelled ∧ s.creq (.root r) = true then some fin else none
        -- (both stops of `stop_in_order` are over: the second one has begun — `orchPing` — and no ensemble task is alive)
        | .stopping f _ => if how = failTS f ∧ noLiveSub s = true ∧ s.orchPing = true then some fin else none
        | _ => none
    else none
  -- ---------------------------------------------------------------- ensemble tasks
  | .subSpawn k =>
    if s.rt ≠ .exited ∧ s.st (.root .orchestrator) = .running then
      some { s with st := upd s.st (.sub s.nSubs) .running, kind := upd s.kind s.nSubs k,
                    creq := upd s.creq (.sub s.nSubs) false, werr := upd s.werr (.sub s.nSubs) false,
                    withdrawn := upd s.withdrawn s.nSubs false, withdrawnOk := upd s.withdrawnOk s.nSubs false,
                    gone := upd s.gone s.nSubs false,
                    nSubs := s.nSubs + 1 }
    else none
  | .subStopping i fail =>
    if s.rt ≠ .exited ∧ i < s.nSubs ∧ s.st (.sub i) = .running
        ∧ (fail = true ∨ (s.creq (.sub i) = true ∧ s.werr (.sub i) = false)) then
      some { s with st := upd s.st (.sub i) (.stopping fail (some (s.now + grace cfg s (.sub i)))),
                    creq := upd s.creq (.sub i) false,
                    tFail := if fail = true ∧ cfg.fixed = true then markFail s else s.tFail,
                    failWho := if fail = true ∧ cfg.fixed = true then markWho s (.sub i) else s.failWho }
    else none
  | .subGone i =>
    -- the (re-)listing of the watcher got HTTP 404 (`APINotFoundError`): the resource is gone, e.g. its CRD was
    -- deleted and the watcher noticed before the resource observer did. The task ends with that exception,
    -- but this is NOT a failure for the orchestrator (see `subEnd`).
    -- A pending cancellation wins over the 404 (`Task.cancel()` makes the next step raise CancelledError whatever
    -- the awaited request returned), so a watcher whose worker has failed cannot end this way.
    if s.rt ≠ .exited ∧ i < s.nSubs ∧ s.st (.sub i) = .running ∧ s.kind i ≠ .pinger
        ∧ s.creq (.sub i) = false ∧ s.werr (.sub i) = false then
      some { s with st := upd s.st (.sub i) (.stopping true (some (s.now + grace cfg s (.sub i)))),
                    creq := upd s.creq (.sub i) false, gone := upd s.gone i true }
    else none
  | .subCancel i =>
    -- `terminate_redundancies`: the running orchestrator cancels the tasks of a key that is no longer served,
    -- or one of whose tasks has exited on its own (they are spawned anew if the key is still served: `subSpawn`).
    -- A task that is already in its `finally:` suppresses the cancellation.
    if s.rt ≠ .exited ∧ i < s.nSubs ∧ s.st (.root .orchestrator) = .running then
      match s.st (.sub i) with
      | .running => some { s with creq := upd s.creq (.sub i) true }
      | .stopping _ _ => some s
      | _ => none
    else none
  | .withdraw i ok =>
    -- the shielded `touch(lifetime=0)`; `ok = false`: the PATCH failed after its retries — logged and IGNORED by kopf
    if s.rt ≠ .exited ∧ i < s.nSubs ∧ s.kind i = .pinger then
      match s.st (.sub i) with
      | .stopping _ _ => some { s with withdrawn := upd s.withdrawn i true,
                                       withdrawnOk := upd s.withdrawnOk i (s.withdrawnOk i || ok), acts := s.acts + 1 }
      | _ => none
    else none
  | .subEnd i how =>
    if s.rt ≠ .exited ∧ i < s.nSubs then
      match s.st (.sub i) with
      | .stopping f _ =>
        if how = failTS f ∧ noLiveWorkerOf s (.sub i) = true ∧ (s.kind i = .pinger → s.withdrawn i = true) then
          let s1 : State := { s with st := upd s.st (.sub i) how }
          if cfg.fixed = true ∧ f = true ∧ s.gone i = false ∧ s.st (.root .orchestrator) = .running then
            -- the done-callback of the orchestrator: a failed ensemble task cancels it (HTTP 404 is exempt)
            some { s1 with creq := upd s.creq (.root .orchestrator) true, orchErr := true }
          else
            -- ... and when the orchestrator is already stopping its ensemble (`is_exiting`), the callback only records the
            -- error: the orchestrator will raise it after the stop instead of its cancellation
            match s.st (.root .orchestrator) with
            | .stopping _ _ =>
              if cfg.fixed = true ∧ f = true ∧ s.gone i = false then
                some { s1 with st := upd s1.st (.root .orchestrator) (.stopping true none), orchErr := true }
              else some s1
            | _ => some s1
        else none
      | _ => none
    else none
  | .orchStopPingers =>
    -- the second half of `stop_in_order` (since /repo 26a293c): `stop(others)` has returned — every watcher and peering
    -- observer of the ensemble has ended (its workers depleted or cancelled, hence every handler in flight over) —, now
    -- `stop(pingers, title="pinging")` cancels the keep-alives: their `finally:` withdraws the peering record (`withdraw`)
    if s.rt ≠ .exited ∧ s.orchPing = false ∧ noLiveStream s = true then
      match s.st (.root .orchestrator) with
      | .stopping _ _ => some { s with creq := cancelPingers s, orchPing := true }
      | _ => none
    else none
  -- ---------------------------------------------------------------- workers, daemons, helper
  | .workerStart o =>
    -- the coroutine was handed to the scheduler while the watcher ran; its first step may come when the
    -- watcher is already in its `finally:` (`close()` cancels such late starters)
    if s.rt ≠ .exited ∧ watcherLike s o = true ∧ (s.st o).active = true
        ∧ (match o with | .sub i => decide (i < s.nSubs) | .root _ => true) = true then
      some { s with wk := upd s.wk s.nWorkers (some (o, .running)), nWorkers := s.nWorkers + 1 }
    else none
  | .workerEnd w how =>
    if s.rt ≠ .exited ∧ w < s.nWorkers then
      match s.wk w with
      | some (o, .running) =>
        match how with
        | .running => none
        | .done => some { s with wk := upd s.wk w (some (o, .done)) }
        | .cancelled =>
          -- `scheduler.close()` in the watcher's `finally:`
          (match s.st o with
           | .stopping _ _ => some { s with wk := upd s.wk w (some (o, .cancelled)) }
           | _ => none)
        | .failed =>
          -- `_task_done_callback` → `exception_handler`: the first error cancels the watcher
          if s.st o = .running ∧ s.werr o = false then
            some { s with wk := upd s.wk w (some (o, .failed)), werr := upd s.werr o true,
                          creq := upd s.creq o true,
                          tFail := if (match o with | .root _ => true | .sub _ => cfg.fixed) = true then markFail s
                                   else s.tFail,
                          failWho := if (match o with | .root _ => true | .sub _ => cfg.fixed) = true then markWho s o
                                     else s.failWho }
          -- the watcher is already in its `finally:` (the cancellation by `exception_handler` is suppressed there): since /repo
          -- 69d1957 (`deplEscalates`) it re-checks `worker_error` after the depletion and raises the RuntimeError then — whatever
          -- exception was in flight (a cancellation, the stream's own error, HTTP 404: the watcher is not "gone" any more)
          else if cfg.deplEscalates = true ∧ s.werr o = false then
            match s.st o with
            | .stopping _ (some dl) =>      -- (a watcher's `finally:` always has its deadline: `exit_timeout`)
              some { s with wk := upd s.wk w (some (o, .failed)), werr := upd s.werr o true,
                            st := upd s.st o (.stopping true (some dl)),
                            gone := (match o with | .sub i => upd s.gone i false | .root _ => s.gone),
                            tFail := if (match o with | .root _ => true | .sub _ => cfg.fixed) = true then markFail s
                                     else s.tFail,
                            failWho := if (match o with | .root _ => true | .sub _ => cfg.fixed) = true then markWho s o
                                       else s.failWho }
            | _ => some { s with wk := upd s.wk w (some (o, .failed)) }
          -- a second error, or the historical variant: the failure is only logged
          else some { s with wk := upd s.wk w (some (o, .failed)) }
      | _ => none
    else none
  | .daemonSpawn c =>
    -- (the daemon's task is created by a worker; its handler begins a few loop iterations later — the worker may be over)
    -- since /repo 1d3a667 nothing is spawned once the daemon killer has done its final sweep (`mark_operator_exiting`)
    if s.rt ≠ .exited ∧ 0 < s.nWorkers ∧ s.killed = false then
      some { s with dm := upd s.dm s.nDaemons .running, coop := upd s.coop s.nDaemons c,
                    stopReq := upd s.stopReq s.nDaemons false, nDaemons := s.nDaemons + 1 }
    else none
  | .daemonExit d =>
    if s.rt ≠ .exited ∧ d < s.nDaemons ∧ s.dm d = .running then
      some { s with dm := upd s.dm d .ended }
    else none
  | .waiterEnd =>
    if s.waiter = true ∧ (s.rt = .stoppingHung ∨ s.rt = .cStoppingHung) then
      some { s with waiter := false }
    else none
  | .orphan =>
    if s.rt ≠ .exited ∧ s.started = true then some { s with orphans := s.orphans + 1 } else none
  | .orphanEnd =>
    if s.rt ≠ .exited ∧ 0 < s.orphans then some { s with orphans := s.orphans - 1 } else none
  | .act a =>
    if s.rt ≠ .exited then
      match a with
      | .task (.root r) =>
        if r.guarded = true ∧ (s.st (.root r)).active = true then some { s with acts := s.acts + 1 } else none
      | .task (.sub i) =>
        if i < s.nSubs ∧ (s.st (.sub i)).active = true then some { s with acts := s.acts + 1 } else none
      | .worker w =>
        if w < s.nWorkers ∧ workerLive s w = true then some { s with acts := s.acts + 1 } else none
      | .orphan =>
        if 0 < s.orphans then some { s with acts := s.acts + 1 } else none
    else none
  -- ---------------------------------------------------------------- run_tasks
  | .orchAbandon =>
    -- HISTORICAL (variant `orchShielded := false`, the tree before /repo ab6fb15; finding C20-F8): the second cancellation
    -- interrupted the orchestrator's `await aiotasks.stop(ensemble tasks)`: it ended CANCELLED at once, its ensemble was
    -- orphaned, the recorded `task_error` dropped. From here on the model does not follow that old code (the labels stay
    -- enabled as if the stop had been shielded; the trace comparison stops at this label).
    if s.rt ≠ .exited ∧ cfg.orchShielded = false ∧ (s.st (.root .orchestrator)).isStopping = true
        ∧ s.creq (.root .orchestrator) = true then
      some { s with abandoned := true, creq := upd s.creq (.root .orchestrator) false }
    else none
  | .orchCrash =>
    -- THE CURRENT TREE (variant `orchSwept := false`; open finding C20-F12): the orchestrator's OWN loop raises (an exception out of
    -- `adjust_tasks` — anything but a cancellation): `orchestrator()` handles only `CancelledError`, so it ends FAILED at once
    -- WITHOUT stopping its ensemble: the streams, their workers and the keep-alives are orphaned (hung tasks for `run_tasks`,
    -- cancelled 5 s after the root tasks are gone — beside the cleanup activity; with peering the withdrawal then waits for the
    -- closed vault for ever). The model does not describe the code beyond this label (the labels stay enabled as if nothing had
    -- happened; the trace comparison stops here). Not enabled in the variant `orchSwept := true` (the proposed repair: the own
    -- failure takes the path of a failed ensemble task).
    if s.rt ≠ .exited ∧ cfg.orchSwept = false ∧ s.st (.root .orchestrator) = .running then
      some { s with abandoned := true }
    else none
  | .spawnCancel =>
    -- HISTORICAL (variant `spawnSwept := false`, the tree before /repo d6da86b; finding C20-F10): `operator()` was cancelled while
    -- `spawn_tasks` sat in its final `await asyncio.sleep(0)` — one loop iteration after the call, before `run_tasks` exists (the
    -- tasks created a moment ago may already have run their first segments: the startup handlers, the guards): the cancellation
    -- ended `operator()` at once, the root tasks and the core task were returned to nobody and ran on. The model stops describing
    -- that old code. (In the current tree the same two stops follow as in `run_tasks`: the cancellation is an `rtCancel`.)
    if s.rt = .waiting ∧ cfg.spawnSwept = false ∧ s.now = 0 ∧ anyRootEnded s = false ∧ s.stopFlagSet = false then
      some { s with abandoned := true }
    else none
  | .stopCancel =>
    -- HISTORICAL (variant `stopSwept := false`, the tree before /repo 883284c; finding C20-F11): `operator()` was cancelled while
    -- `run_tasks` awaited `stop(root_pending)` (a stop flag or a failure first, the cancellation a moment later): that `await`
    -- was outside any `try`, `operator()` ended at once, the root tasks that were still stopping — and the cleanup activity — ran
    -- on after it had returned. The model stops describing that old code. (In the current tree: `rtCancel` from `stoppingRoots`.)
    if s.rt = .stoppingRoots ∧ cfg.stopSwept = false ∧ allRootsEnded s = false then
      some { s with abandoned := true }
    else none
  | .hungFail =>
    -- a task that is not a root task ends with an exception (e.g. the `stopped.wait(n)` helper of a daemon that is cancelled
    -- as a hung task): `run_tasks` re-raises the errors of the hung tasks too
    if s.rt ≠ .exited then some { s with hungFailed := true } else none
  | .rtStopRoots =>
    if s.rt = .waiting ∧ anyRootEnded s = true then
      some { s with rt := .stoppingRoots, creq := cancelRootsV cfg s, t0 := some s.now }
    else none
  | .rtCancel =>
    if s.rt = .waiting then
      some { s with rt := .cStoppingRoots, creq := cancelRootsV cfg s, t0 := some s.now }
    else
      -- a cancellation of `operator()` while `run_tasks` waits for the hung tasks (e.g. a stop flag first, the cancellation
      -- later): `except CancelledError: stop(hung_tasks, cancelled=True); raise`
      match s.rt with
      | .hungWait _ => some { s with rt := .cStoppingHung }
      -- … or while `run_tasks` stops the root tasks (a stop flag or a failure first, the cancellation a moment later): since
      -- /repo 883284c (`stopSwept`) `except CancelledError: stop(root_tasks, cancelled=True); stop(hung_tasks, cancelled=True);
      -- raise` — every root task that is still alive is cancelled AGAIN (see `cancelRootsV`, `scCut`, the killer's `rootEnd`).
      -- (`startup_cleanup_activities` has taken its first cancellation by then: the tasks cancelled by `stop(root_pending)` run
      -- before `run_tasks` itself is resumed with the CancelledError)
      | .stoppingRoots =>
        if cfg.stopSwept = true ∧ s.creq (.root .startupCleanup) = false then
          some { s with rt := .cStoppingRoots, creq := cancelRootsV cfg s }
        else none
      | _ => none
  | .rtHungWait =>
    if s.rt = .stoppingRoots ∧ allRootsEnded s = true then
      some { s with rt := .hungWait (s.now + cfg.H) }
    else none
  | .rtStopHung =>
    match s.rt with
    | .hungWait dl =>
      if hungLive s = false ∨ dl ≤ s.now then some { s with rt := .stoppingHung } else none
    | _ => none
  | .rtCStopHung =>
    if s.rt = .cStoppingRoots ∧ allRootsEnded s = true then some { s with rt := .cStoppingHung } else none
  | .rtExit r =>
    if hungLive s = false then
      match s.rt with
      | .stoppingHung =>
        if r = (if s.rootFailed || s.hungFailed then .raised else .returned) then
          some { s with rt := .exited, exitAt := some s.now, result := some r }
        else none
      | .cStoppingHung =>
        if r = .cancelled then some { s with rt := .exited, exitAt := some s.now, result := some r }
        else none
      | _ => none
    else none

/-! ### what the model claims about the CURRENT source (re-extracted from the AST on every run and proved
    equal in `Kopf/Tie/C20.lean`) -/

/-- the orchestrator attaches a done-callback to its ensemble tasks, which cancels it on a failure, and re-raises
    that failure after having stopped the streams: the edge guarded by `cfg.fixed` in `subEnd` -/
def headEscalates : Bool := true
/-- that callback passes over `APINotFoundError`: the `gone i = false` guard of the edge, label `subGone` -/
def headIgnoresNotFound : Bool := true
/-- `terminate_redundancies` treats keys with exited tasks as redundant (then spawned anew): `subCancel`, `subSpawn` -/
def headRestartsExited : Bool := true
/-- `scan_resources` gathers its requests and cancels them with itself: the observers leave no orphaned requests
    behind (the model still ALLOWS orphans — other helpers may be left behind —, so this is only tied, not used) -/
def headScanCancelsChildren : Bool := true

/-- `daemon_killer`'s `finally:` first marks the memories `operator_exiting` and `spawn_daemons` spawns nothing then: the
    guard `killed = false` of `daemonSpawn` (since /repo 1d3a667, repair of C20-F9 / C09-F13) -/
def headNoSpawnWhileExiting : Bool := true

/-- a root task awaits the core tasks and re-raises their errors (and `startup_cleanup_activities` re-raises them only
    after the cleanup activity): the edge guarded by `cfg.coreWatched`. TRUE of the current tree since /repo ed52a1a
    (repair of finding C20-F6; before it a failed credentials retriever was only logged) -/
def headWatchesCore : Bool := true

/-- the orchestrator's `except CancelledError:` shields the stop of its ensemble (`asyncio.shield` in a loop, as in
    `queueing.watcher`): the variant `cfg.orchShielded`. TRUE of the current tree since /repo ab6fb15 (repair of finding
    C20-F8: a stream failure followed by a stop request double-cancelled the orchestrator) -/
def headShieldsStop : Bool := true

/-- `spawn_tasks` wraps its final `await asyncio.sleep(0)` in a `try` that stops the created tasks on a cancellation: the
    variant `cfg.spawnSwept`. TRUE of the current tree since /repo d6da86b (repair of finding C20-F10) -/
def headSweepsSpawn : Bool := true

/-- `run_tasks` wraps `await aiotasks.stop(root_pending, …)` in a `try` that handles a cancellation of `operator()`: the
    variant `cfg.stopSwept`. TRUE of the current tree since /repo 883284c (repair of finding C20-F11) -/
def headSweepsStop : Bool := true

/-- `queueing.watcher` re-checks `worker_error` after the depletion of the workers (after `scheduler.close()`) and raises the
    RuntimeError if it has not been raised yet: the variant `cfg.deplEscalates`. TRUE of the current tree since /repo 69d1957
    (repair of finding C20-F5) -/
def headEscalatesDepletion : Bool := true

/-- the orchestrator's `except CancelledError:` stops its ensemble IN ORDER: inside the shielded task first
    `aiotasks.stop(<every task but the pinging ones>)`, then `aiotasks.stop(<the pinging tasks>)` — the two segments
    `rootStopping orchestrator` (`cancelSubs`: no keep-alive) and `orchStopPingers` (enabled only when `noLiveStream`).
    TRUE of the current tree since /repo 26a293c (repair of the findings C13-F7 / C13-F9: the record was withdrawn while the
    last handlers still ran); a reordering, or a return to one stop of everything, makes the tie theorem fail -/
def headStopsPingersLast : Bool := true

/-- the orchestrator's handler that stops its ensemble takes EVERY exception of its loop, not only `CancelledError`: the variant
    `cfg.orchSwept`. FALSE of the current tree (open finding C20-F12: `except asyncio.CancelledError:` only — the orchestrator's
    own failure orphans the ensemble); proposals/fix-C20-F12 makes it true, and this tie theorem fail until the model follows -/
def headSweepsOwnFailure : Bool := false

/-- the configuration of the model of the current tree -/
def headCfg (e w d c h : Nat) : Cfg :=
  { fixed := headEscalates, coreWatched := headWatchesCore, orchShielded := headShieldsStop,
    spawnSwept := headSweepsSpawn, stopSwept := headSweepsStop, deplEscalates := headEscalatesDepletion,
    orchSwept := headSweepsOwnFailure,
    E := e, W := w, D := d, C := c, H := h }

/-- the sum of the grace periods of the tasks' `finally:` blocks: depletion, withdrawal, exit stoppers -/
def G (cfg : Cfg) : Nat := cfg.E + cfg.W + cfg.D

/-- A label that is API activity / a handler call of some task. -/
def Label.isActivity : Label → Bool
  | .act _ | .withdraw _ _ => true
  | _ => false

/-- The labels at which a run leaves the model: of a HISTORICAL variant (`orchAbandon`, `spawnCancel`, `stopCancel` — each one a
    repaired finding: the old code went on in a way the model does not describe), and — IN THE CURRENT TREE — `orchCrash`
    (the orchestrator's own failure, open finding C20-F12); they set `abandoned` and nothing else. None is enabled when
    `cfg.orchShielded`, `cfg.spawnSwept`, `cfg.stopSwept` and `cfg.orchSwept` are true; in the model of the current tree
    (`orchSwept := false`) `orchCrash` is the only one. -/
def Label.leaves : Label → Bool
  | .orchAbandon | .orchCrash | .spawnCancel | .stopCancel => true
  | _ => false

/-- Replay a label list. -/
def run (cfg : Cfg) : State → List Label → Option State
  | s, [] => some s
  | s, l :: ls =>
    match step cfg s l with
    | some s' => run cfg s' ls
    | none => none

/-- `s` is reachable by some label list. -/
def Reach (cfg : Cfg) (s : State) : Prop := ∃ ls, run cfg init ls = some s

/-! ### cooperative runs: the explicit form of "tasks honour cancellation, waits end when their condition holds, the
    timed waits are kept" — time passes only where `coopDelay` allows it -/

/-- one step of a cooperative run -/
def stepC (cfg : Cfg) (s : State) : Label → Option State
  | .delay n => if coopDelay cfg s n = true then step cfg s (.delay n) else none
  | l => step cfg s l

def runC (cfg : Cfg) : State → List Label → Option State
  | s, [] => some s
  | s, l :: ls =>
    match stepC cfg s l with
    | some s' => runC cfg s' ls
    | none => none

/-- `s` is reachable by a cooperative run. -/
def ReachC (cfg : Cfg) (s : State) : Prop := ∃ ls, runC cfg init ls = some s

/-! ### internal steps: what the operator (and cooperative user code) does by itself -/

/-- The label is a step of the framework itself or of cooperative user code reacting to it — NOT an action of the
    environment: no new stop trigger (`setStopFlag`, `rtCancel`; but the reactions to a repeated cancellation — `scCut`, the
    killer's interrupted `finally:` — are internal), no new failure of a stream, task or handler (a task
    may end `failed` only as the consequence of an earlier failure: `stopping true`, a worker error, a failed core
    task), no new work (`subSpawn`, `workerStart`, `daemonSpawn`, `orphan`, `act`), no redundancy (`subGone`,
    `subCancel`). Used by the progress theorem `returns`: after a trigger the operator gets to `exited` on its own. -/
def internal (s : State) : Label → Bool
  | .delay _ => true
  | .scStartupBegin | .setStarted | .ready | .scWake | .scWaitRootsEnd | .scCut | .scStopCore | .scCoreStopped
  | .vaultClosed => true
  | .scStartupEnd o => o != .failed
  | .scCleanupEnd o => o == .none
  | .enter _ | .coreEnter => true
  | .coreEnd how => how == .cancelled
  | .rootStopping r fail => !fail || s.werr (.root r) || (r == .orchestrator && s.orchErr)
  | .rootEnd r how => how != .failed || s.st (.root r) != .running || r == .startupCleanup || r == .coreWatcher
  | .subStopping i fail => !fail || s.werr (.sub i)
  | .withdraw _ _ | .subEnd _ _ | .orchStopPingers => true
  | .workerEnd _ how => how != .failed
  | .daemonExit _ | .waiterEnd | .orphanEnd => true
  | .rtStopRoots | .rtHungWait | .rtStopHung | .rtCStopHung | .rtExit _ => true
  | .orchAbandon => true
  | _ => false

/-- a cooperative run of internal steps only -/
def runI (cfg : Cfg) : State → List Label → Option State
  | s, [] => some s
  | s, l :: ls =>
    if internal s l = true then
      match stepC cfg s l with
      | some s' => runI cfg s' ls
      | none => none
    else none

/-- something has happened after which the operator must shut down: a stop was requested, a root task has ended
    (for whatever reason), `run_tasks` is already past its first wait, or a failure that the code escalates has happened
    (`tFail`: a failed startup handler, a failing stream / ensemble task / core task, a worker failing under a streaming
    watcher) -/
def Triggered (s : State) : Prop :=
  s.rt ≠ .waiting ∨ anyRootEnded s = true ∨ s.stopFlagSet = true ∨ s.tFail.isSome = true

end Kopf.C20
