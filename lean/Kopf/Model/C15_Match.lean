/-
  C15 model — `kopf/_core/intents/registries.py`: `match`, `prematch`, the `_matches_*` predicates,
  `_deduplicated`, the `iter_handlers/get_handlers` of the resource registries, `requires_finalizer`,
  `ChangingRegistry.prematch`, and the part of `processing.process_resource_causes` that decides
  whether anything is queued for writing to the object. Core Lean only.

  The boolean skeleton of every predicate is a separate `…Core` function over a record of *atoms*
  (one Bool per Python sub-expression). The translator regenerates these skeletons from the AST
  (`Kopf/Extracted/C15.lean`) and `Kopf/Tie/C15.lean` proves them equal to the ones here.
  The model mirrors the code, quirks included:
    * `handler.value is None` on a field handler means "present in old or new";
    * for a ChangingCause the value criterion is tried on `[new, old]` -- also for resume/deletion
      handlers when the cause has a real old state (finding C15-F1, the residual) -- except that
      since /repo bd6cd41 a cause WITHOUT an old state (`cause.old is None`: a creation) is tried on
      `[new]` only, unless the handler is an update handler (`field_needs_change`: on.update/on.field,
      for which "absent before, present now" stays a match);
    * "the field actually changed" (`field_needs_change`) is decided as the diff decides it since /repo
      8d1358b: by identity when the private absent marker is on a side, else
      `bool(diffs.diff(old, new)) or old != new` (`fieldChanged`; `PyVal.same` = `diffs._same`: a boolean
      never equals a number); before, Python's `!=` alone (`fieldChangedBefore`);
    * field callbacks receive Python `None` for an absent field (since /repo 07968cf; before, the
      private `_UNSET.token`), i.e. an absent field and a present `null` look the same to them,
      label/annotation callbacks receive Python `None` (here: `none : Option String`);
    * the trailing `any(handler.value == value …)` also runs for `None`, tokens and callables, and
      makes the private token, used as a criterion, match an absent field.
-/
import Kopf.Base.J
import Kopf.Model.C05_Cause
namespace Kopf.C15

mutual
  /-- `diffs._same` (kopf 6b2e53c): equality as JSON values -- as Python `==` on parsed JSON (dicts as
      unordered maps, lists item by item), but a boolean never equals a number (`True == 1` in Python). -/
  def jsame : J → J → Bool
    | .null, .null => true
    | .bool a, .bool b => a == b
    | .num a, .num b => a == b
    | .str a, .str b => a == b
    | .arr a, .arr b => jsameList a b
    | .obj a, .obj b => a.length == b.length && jsameSub a b
    | _, _ => false
  def jsameList : List J → List J → Bool
    | [], [] => true
    | x :: xs, y :: ys => jsame x y && jsameList xs ys
    | _, _ => false
  /-- every binding of `a` has a `jsame` binding in `b` (with equal lengths and unique keys: equal dicts) -/
  def jsameSub : List (String × J) → List (String × J) → Bool
    | [], _ => true
    | (k, x) :: xs, b =>
        (match J.lookup k b with
         | some y => jsame x y
         | none => false) && jsameSub xs b
end

/-- Python values a field can hold: Python `==`, equality as JSON values (`diffs._same`: what an empty
    `diffs.diff(a, b)` means for two values), and Python `None`. -/
class PyVal (V : Type) where
  eq : V → V → Bool
  same : V → V → Bool
  null : V

instance : PyVal J := ⟨J.pyEq, jsame, J.null⟩

/-- Python `a == b` on *resolved* field values; `none` is the private `_UNSET.token`
    (an `enum` member: equal only to itself). -/
def reseq {V} [PyVal V] : Option V → Option V → Bool
  | none, none => true
  | some a, some b => PyVal.eq a b
  | _, _ => false

/-- `not diffs.diff(a, b)` on *resolved* field values that are both present; with the private token on a
    side the code compares by identity (`old is not new`): the token is only itself. -/
def ressame {V} [PyVal V] : Option V → Option V → Bool
  | none, none => true
  | some a, some b => PyVal.same a b
  | _, _ => false

/-- A label/annotation criterion (`filters.MetaFilter` value). -/
inductive MCrit where
  | value (v : String)
  | present
  | absent
  | callback (f : Option String → Bool)   -- receives `content.get(key, None)`

/-- A `value=` / `old=` / `new=` criterion (`filters.ValueFilter`). -/
inductive VCrit (V : Type) where
  | unset                                  -- Python `None`
  | present
  | absent
  | callback (f : Option V → Bool)         -- a function of the Python argument (`none` would be the
                                           -- private token: never passed since /repo 07968cf)
  | lit (x : Option V)                     -- any other object; `none` = `_UNSET.token` itself

/-- What `match()` reads of a cause. Field access is a function of the path:
    `body p = dicts.resolve(cause.body, p, absent)` etc.; `cause.old is None` is `noOld` (the harness
    and the driver then give `old p = none` for every path: `dicts.resolve(None, p, absent)`). -/
structure Cause (V : Type) where
  changing : Bool                          -- isinstance(cause, causes.ChangingCause)
  noOld : Bool                             -- `cause.old is None` (ChangingCause only): no old state at all
  labels : String → Option String          -- body.metadata.labels
  annotations : String → Option String
  body : List String → Option V
  old : List String → Option V
  new : List String → Option V
  kind : C05.Cause                         -- reason / initial / deletion mark (ChangingCause only)

/-- What `match()` and the registries read of a handler, relative to one cause. -/
structure Handler (V : Type) where
  fn : Nat                                 -- id(handler.fn): the identity of the registered *object*
  func : Nat                               -- the identity of the *function*: for a bound method
                                           -- (id(fn.__self__), id(fn.__func__)) -- `obj.method` is a new
                                           -- object on every access, so `fn` differs while `func` does not;
                                           -- for every other callable the same as `fn`
  id : String
  changing : Bool                          -- isinstance(handler, handlers.ChangingHandler)
  selector : Option Bool                   -- none: `selector is None`; some b: `selector.check(resource)`
  subresourceOk : Bool                     -- `_matches_subresource` (True for every non-webhook handler)
  labels : Option (List (String × MCrit))
  annotations : Option (List (String × MCrit))
  «when» : Option Bool                     -- none: `when is None`; some b: `when(**kwargs)`
  field : Option (List String)
  value : VCrit V
  old : VCrit V                            -- ChangingHandler only
  new : VCrit V                            -- ChangingHandler only
  fieldNeedsChange : Bool                  -- truthiness of `field_needs_change` (ChangingHandler only: the
                                           -- other handler classes have no such attribute)
  requiresFinalizer : Bool                 -- truthiness of `requires_finalizer`
  kind : C05.Handler                       -- reason / initial / deleted opt-in (ChangingHandler only);
                                           -- a sub-handler has `reason = none`, `initial = false`

-- ---------------------------------------------------------------------------------------------
-- _matches_resource / _matches_filter_callback

structure ResAtoms where
  selectorIsNone : Bool
  check : Bool

def resCore (a : ResAtoms) : Bool := a.selectorIsNone || a.check

def resAtoms {V} (h : Handler V) : ResAtoms :=
  { selectorIsNone := h.selector.isNone, check := h.selector.getD false }

def matchesResource {V} (h : Handler V) : Bool := resCore (resAtoms h)

structure WhenAtoms where
  whenIsNone : Bool
  result : Bool

def whenCore (a : WhenAtoms) : Bool := if a.whenIsNone then true else a.result

def whenAtoms {V} (h : Handler V) : WhenAtoms :=
  { whenIsNone := h.when.isNone, result := h.when.getD false }

def matchesWhen {V} (h : Handler V) : Bool := whenCore (whenAtoms h)

/-- `_matches_subresource` over its four atoms (webhook handlers are C18's subject; every other
    handler passes through the first guard). -/
structure SubAtoms where
  hWebhook : Bool
  cWebhook : Bool
  star : Bool
  same : Bool

def subCore (a : SubAtoms) : Bool :=
  if !a.hWebhook then true else if !a.cWebhook then true else a.star || a.same

-- ---------------------------------------------------------------------------------------------
-- _matches_metadata / _matches_labels / _matches_annotations

structure MetaAtoms where
  isAbsent : Bool      -- value is MetaFilterToken.ABSENT
  isPresent : Bool     -- value is MetaFilterToken.PRESENT
  keyIn : Bool         -- key in content
  isCallable : Bool    -- callable(value)
  cbResult : Bool      -- value(content.get(key, None), **kwargs)
  neq : Bool           -- value != content[key]

/-- one iteration of the loop: `true` = `continue`, `false` = `return False`. -/
def metaStep (a : MetaAtoms) : Bool :=
  if a.isAbsent && !a.keyIn then true
  else if a.isPresent && a.keyIn then true
  else if a.isCallable then (if a.cbResult then true else false)
  else if !a.keyIn then false
  else if a.neq then false
  else true

def metaAtoms (crit : MCrit) (x : Option String) : MetaAtoms :=
  { isAbsent := match crit with | .absent => true | _ => false
    isPresent := match crit with | .present => true | _ => false
    keyIn := x.isSome
    isCallable := match crit with | .callback _ => true | _ => false
    cbResult := match crit with | .callback f => f x | _ => false
    neq := match crit, x with
      | .value v, some s => v != s
      | _, _ => true }       -- a token never equals a label string; unreachable when the key is absent

/-- `for key, value in pattern.items(): …; return True` -/
def matchesMetadata (pattern : List (String × MCrit)) (content : String → Option String) : Bool :=
  pattern.all (fun kc => metaStep (metaAtoms kc.2 (content kc.1)))

/-- truthiness of an optional mapping: `None` and `{}` are falsy. -/
def truthyPattern {α} : Option (List α) → Bool
  | none => false
  | some [] => false
  | some (_ :: _) => true

structure GuardAtoms where
  patternTruthy : Bool
  metaOk : Bool

def guardCore (a : GuardAtoms) : Bool := !a.patternTruthy || a.metaOk

def matchesLabels {V} (h : Handler V) (c : Cause V) : Bool :=
  guardCore { patternTruthy := truthyPattern h.labels,
              metaOk := matchesMetadata (h.labels.getD []) c.labels }

def matchesAnnotations {V} (h : Handler V) (c : Cause V) : Bool :=
  guardCore { patternTruthy := truthyPattern h.annotations,
              metaOk := matchesMetadata (h.annotations.getD []) c.annotations }

-- ---------------------------------------------------------------------------------------------
-- field criteria

/-- truthiness of `handler.field`: `None` and `()` are falsy. -/
def hasField {V} (h : Handler V) : Bool :=
  match h.field with
  | none => false
  | some [] => false
  | some (_ :: _) => true

def path {V} (h : Handler V) : List String := h.field.getD []

def VCrit.isUnset {V} : VCrit V → Bool | .unset => true | _ => false
def VCrit.isPresent {V} : VCrit V → Bool | .present => true | _ => false
def VCrit.isAbsent {V} : VCrit V → Bool | .absent => true | _ => false
def VCrit.isCallable {V} : VCrit V → Bool | .callback _ => true | _ => false

/-- `crit(None if value is absent else value, **kwargs)` when the criterion is callable (guarded by
    `callable(...)` in the code): an absent field is passed as Python `None` (/repo 07968cf). -/
def VCrit.call {V} [PyVal V] : VCrit V → Option V → Bool
  | .callback f, x => f (some (x.getD PyVal.null))
  | _, _ => false

/-- Python `crit == value`: `None == v` iff `v is None`; enum tokens and functions equal no field
    value and not the private token; any other object by `==`. -/
def VCrit.pyEq {V} [PyVal V] : VCrit V → Option V → Bool
  | .unset, x => reseq (some PyVal.null) x
  | .lit y, x => reseq y x
  | _, _ => false

/-- which of old/new/body a value list entry is resolved from -/
inductive Src where
  | new | old | body
  deriving DecidableEq, Repr

/-- atoms of `current_only = cause.old is None and not getattr(handler, 'field_needs_change', False)`
    (/repo bd6cd41) -/
structure CurAtoms where
  oldIsNone : Bool     -- cause.old is None
  needsChange : Bool   -- getattr(handler, 'field_needs_change', False)

def currentOnlyCore (a : CurAtoms) : Bool := a.oldIsNone && !a.needsChange

/-- `values = [new] if current_only else [new, old]` for a ChangingCause ("keep new first"),
    `[val]` otherwise. -/
def valuesChanging (currentOnly : Bool) : List Src := if currentOnly then [.new] else [.new, .old]
def valuesOther : List Src := [.body]

def Cause.get {V} (c : Cause V) (p : List String) : Src → Option V
  | .new => c.new p
  | .old => c.old p
  | .body => c.body p

/-- `getattr(handler, 'field_needs_change', False)`: only a ChangingHandler has the attribute -/
def needsChangeAttr {V} (h : Handler V) : Bool := h.changing && h.fieldNeedsChange

def curAtoms {V} (h : Handler V) (c : Cause V) : CurAtoms :=
  { oldIsNone := c.noOld, needsChange := needsChangeAttr h }

def values {V} (h : Handler V) (c : Cause V) : List (Option V) :=
  (if c.changing then valuesChanging (currentOnlyCore (curAtoms h c)) else valuesOther).map (c.get (path h))

structure FVAtoms where
  hasField : Bool
  valIsNone : Bool
  valIsPresent : Bool
  valIsAbsent : Bool
  valCallable : Bool
  anyPresent : Bool    -- any(value is not absent for value in values)
  anyAbsent : Bool     -- any(value is absent for value in values)
  anyCb : Bool         -- any(handler.value(value, **kwargs) for value in values)
  anyEq : Bool         -- any(handler.value == value for value in values)

def fvCore (a : FVAtoms) : Bool :=
  if !a.hasField then true
  else (a.valIsNone && a.anyPresent) || (a.valIsPresent && a.anyPresent) ||
       (a.valIsAbsent && a.anyAbsent) || (a.valCallable && a.anyCb) || a.anyEq

def fvAtoms {V} [PyVal V] (h : Handler V) (c : Cause V) : FVAtoms :=
  let vs := values h c
  { hasField := hasField h
    valIsNone := h.value.isUnset
    valIsPresent := h.value.isPresent
    valIsAbsent := h.value.isAbsent
    valCallable := h.value.isCallable
    anyPresent := vs.any (·.isSome)
    anyAbsent := vs.any (·.isNone)
    anyCb := vs.any h.value.call
    anyEq := vs.any h.value.pyEq }

def matchesFieldValues {V} [PyVal V] (h : Handler V) (c : Cause V) : Bool := fvCore (fvAtoms h c)

/-- atoms of one side (`old=` against `old`, `new=` against `new`) of `_matches_field_changes` -/
structure SideAtoms where
  isNone : Bool        -- handler.old is None
  isAbsent : Bool      -- handler.old is filters.ABSENT
  isPresent : Bool     -- handler.old is filters.PRESENT
  callable : Bool      -- callable(handler.old)
  absentV : Bool       -- old is absent
  cb : Bool            -- handler.old(old, **kwargs)
  eq : Bool            -- handler.old == old

def sideCore (a : SideAtoms) : Bool :=
  a.isNone || (a.isAbsent && a.absentV) || (a.isPresent && !a.absentV) || (a.callable && a.cb) || a.eq

def sideAtoms {V} [PyVal V] (crit : VCrit V) (x : Option V) : SideAtoms :=
  { isNone := crit.isUnset, isAbsent := crit.isAbsent, isPresent := crit.isPresent,
    callable := crit.isCallable, absentV := x.isNone, cb := crit.call x, eq := crit.pyEq x }

/-- `changed = (old is not new) if (old is absent or new is absent) else bool(diffs.diff(old, new)) or old != new`
    (/repo 8d1358b: "the values are compared the same way as for the diffs: a boolean never equals a
    number"; before it: `old != new` alone, Python's `!=`) -/
structure ChangedAtoms where
  oldAbsent : Bool     -- old is absent
  newAbsent : Bool     -- new is absent
  identical : Bool     -- old is new   (looked at only with the token on a side: true iff both are the token)
  diffNonEmpty : Bool  -- bool(diffs.diff(old, new))   (looked at only with two present values)
  pyNe : Bool          -- old != new

def changedCore (a : ChangedAtoms) : Bool :=
  if a.oldAbsent || a.newAbsent then !a.identical else (a.diffNonEmpty || a.pyNe)

def changedAtoms {V} [PyVal V] (o n : Option V) : ChangedAtoms :=
  { oldAbsent := o.isNone, newAbsent := n.isNone, identical := o.isNone && n.isNone,
    diffNonEmpty := !ressame o n, pyNe := !reseq o n }

/-- "the field actually changed", as the code decides it since /repo 8d1358b -/
def fieldChanged {V} [PyVal V] (o n : Option V) : Bool := changedCore (changedAtoms o n)

/-- … and as it decided it before (Python's `!=` on the resolved values): kept for the regression theorem -/
def fieldChangedBefore {V} [PyVal V] (o n : Option V) : Bool := !reseq o n

structure ChangeAtoms where
  needsChange : Bool   -- handler.field_needs_change
  changed : Bool       -- changed

def changeCore (a : ChangeAtoms) : Bool := !a.needsChange || a.changed

structure FCAtoms where
  hChanging : Bool     -- isinstance(handler, handlers.ChangingHandler)
  cChanging : Bool     -- isinstance(cause, causes.ChangingCause)
  hasField : Bool
  changeOk : Bool
  oldOk : Bool
  newOk : Bool

def fcCore (a : FCAtoms) : Bool :=
  if !a.hChanging then true
  else if !a.cChanging then true
  else if !a.hasField then true
  else a.changeOk && a.oldOk && a.newOk

def matchesFieldChanges {V} [PyVal V] (h : Handler V) (c : Cause V) : Bool :=
  let o := c.old (path h)
  let n := c.new (path h)
  fcCore { hChanging := h.changing, cChanging := c.changing, hasField := hasField h
           changeOk := changeCore { needsChange := h.fieldNeedsChange, changed := fieldChanged o n }
           oldOk := sideCore (sideAtoms h.old o)
           newOk := sideCore (sideAtoms h.new n) }

-- ---------------------------------------------------------------------------------------------
-- match / prematch

structure MatchAtoms where
  resource : Bool
  subresource : Bool
  labels : Bool
  annotations : Bool
  fieldValues : Bool
  fieldChanges : Bool
  filterCallback : Bool

def matchCore (a : MatchAtoms) : Bool :=
  a.resource && a.subresource && a.labels && a.annotations && a.fieldValues && a.fieldChanges &&
    a.filterCallback

def prematchCore (a : MatchAtoms) : Bool :=
  a.resource && a.subresource && a.labels && a.annotations && a.fieldValues && a.filterCallback

def matchAtoms {V} [PyVal V] (h : Handler V) (c : Cause V) : MatchAtoms :=
  { resource := matchesResource h, subresource := h.subresourceOk,
    labels := matchesLabels h c, annotations := matchesAnnotations h c,
    fieldValues := matchesFieldValues h c, fieldChanges := matchesFieldChanges h c,
    filterCallback := matchesWhen h }

/-- `registries.match(handler, cause)` -/
def matchHandler {V} [PyVal V] (h : Handler V) (c : Cause V) : Bool := matchCore (matchAtoms h c)

/-- `registries.prematch(handler, cause)` -/
def prematchHandler {V} [PyVal V] (h : Handler V) (c : Cause V) : Bool := prematchCore (matchAtoms h c)

-- ---------------------------------------------------------------------------------------------
-- _deduplicated and the registries

/-- the fields `_deduplicated` builds its key from: `(id(handler.fn), handler.id)` -/
def dedupKeyFields : List String := ["func", "id"]

/-- `(fn_key, handler.id)` with `fn_key = (id(fn.__self__), id(fn.__func__))` for a bound method and
    `id(fn)` otherwise (/repo c47dbbf): the identity of the FUNCTION, not of the registered object -/
def Handler.key {V} (h : Handler V) : Nat × String := (h.func, h.id)

/-- the loop of `_deduplicated` with its `seen_ids` set; generic in the element type so that the
    driver can run the very same function on position-tagged handlers -/
def dedupByAux {α} (key : α → Nat × String) (seen : List (Nat × String)) : List α → List α
  | [] => []
  | h :: t => if seen.contains (key h) then dedupByAux key seen t
              else h :: dedupByAux key (key h :: seen) t

def dedupBy {α} (key : α → Nat × String) (l : List α) : List α := dedupByAux key [] l

def dedup {V} (l : List (Handler V)) : List (Handler V) := dedupBy Handler.key l

/-- atoms of the per-handler tests inside the registries' loops -/
structure SelAtoms where
  excluded : Bool            -- handler.id in excluded
  requiresFinalizer : Bool   -- handler.requires_finalizer
  matched : Bool             -- match(handler=handler, cause=cause)
  prematched : Bool          -- prematch(handler=handler, cause=cause)

def selPlainCore (a : SelAtoms) : Bool := !a.excluded && a.matched
def reqFinSpawningCore (a : SelAtoms) : Bool := !a.excluded && (a.requiresFinalizer && a.matched)
def reqFinChangingCore (a : SelAtoms) : Bool := !a.excluded && (a.requiresFinalizer && a.prematched)
def prematchAnyCore (a : SelAtoms) : Bool := a.prematched

def selAtoms {V} [PyVal V] (c : Cause V) (excluded : List String) (h : Handler V) : SelAtoms :=
  { excluded := excluded.contains h.id, requiresFinalizer := h.requiresFinalizer,
    matched := matchHandler h c, prematched := prematchHandler h c }

/-- the test inside Indexing/Watching/Spawning `iter_handlers` -/
def selPlain {V} [PyVal V] (c : Cause V) (excluded : List String) (h : Handler V) : Bool :=
  selPlainCore (selAtoms c excluded h)

def iterPlain {V} [PyVal V] (hs : List (Handler V)) (c : Cause V) (excluded : List String) :
    List (Handler V) :=
  hs.filter (selPlain c excluded)

/-- the chain of `ChangingRegistry.iter_handlers` before `match()`: the reason test and the three
    skips. It reads C05's records of the handler kind and the cause kind, and -- since /repo 17e5c42 --
    the handler's `field_needs_change` (a field of C15's `Handler`, so the gate is C15's own; before
    that commit it was `C05.gate h.kind c.kind`):
      * a handler bound to a reason runs only for it;
      * resuming handlers (`initial`) only in initial causes, on marked objects only with `deleted=True`;
      * FIELD handlers -- reason-less, not resuming, `field_needs_change` (`@kopf.on.field`; also the
        sub-handlers of `@kopf.on.field`/`@kopf.on.update`, which inherit the flag) -- never on an
        object marked for deletion.
    Every other reason-less non-resuming handler -- the SUB-HANDLERS made by `@kopf.subhandler` /
    `kopf.register` inside `on.create`/`on.delete`/`on.resume` handlers and by `kopf.execute(fns=…)`:
    `reason=None, initial=None, field_needs_change` falsy -- passes on every cause. (/repo 345a874 had
    skipped ALL reason-less non-resuming handlers on marked objects: finding C15-F8.) -/
def gate {V} (h : Handler V) (c : Cause V) : Bool :=
  (h.kind.reason == none || h.kind.reason == some c.kind.reason) &&
  !(h.kind.initial && !c.kind.initial) &&
  !(h.kind.initial && c.kind.marked && !h.kind.deletedOptIn) &&
  !(h.kind.reason == none && !h.kind.initial && h.fieldNeedsChange && c.kind.marked)

/-- atoms of the per-handler test inside `ChangingRegistry.iter_handlers` -/
structure ChgAtoms where
  excluded : Bool      -- handler.id in excluded
  reasonNone : Bool    -- handler.reason is None
  reasonEq : Bool      -- handler.reason == cause.reason
  hInitial : Bool      -- handler.initial
  cInitial : Bool      -- cause.initial
  cDeleted : Bool      -- cause.deleted
  hDeleted : Bool      -- handler.deleted
  needsChange : Bool   -- handler.field_needs_change (/repo 17e5c42)
  matched : Bool       -- match(handler=handler, cause=cause)

/-- the nested ifs of the loop body: excluded → reason → the skip chain (resuming handlers outside
    initial causes / on deletion without opt-in; FIELD handlers -- `field_needs_change` -- on deletion,
    /repo 345a874 narrowed by 17e5c42) → match -/
def selChangingCore (a : ChgAtoms) : Bool :=
  !a.excluded && ((a.reasonNone || a.reasonEq) &&
    (if a.hInitial && !a.cInitial then false
     else if a.hInitial && a.cDeleted && !a.hDeleted then false
     else if a.reasonNone && !a.hInitial && a.needsChange && a.cDeleted then false
     else if a.matched then true else false))

def chgAtoms {V} [PyVal V] (c : Cause V) (excluded : List String) (h : Handler V) : ChgAtoms :=
  { excluded := excluded.contains h.id, reasonNone := h.kind.reason == none,
    reasonEq := h.kind.reason == some c.kind.reason, hInitial := h.kind.initial, cInitial := c.kind.initial,
    cDeleted := c.kind.marked, hDeleted := h.kind.deletedOptIn, needsChange := h.fieldNeedsChange,
    matched := matchHandler h c }

/-- the test inside `ChangingRegistry.iter_handlers` (= `selChangingCore ∘ chgAtoms`, see
    `selChanging_eq_core` in Lemmas) -/
def selChanging {V} [PyVal V] (c : Cause V) (excluded : List String) (h : Handler V) : Bool :=
  !excluded.contains h.id && (gate h c && matchHandler h c)

def iterChanging {V} [PyVal V] (hs : List (Handler V)) (c : Cause V) (excluded : List String) :
    List (Handler V) :=
  hs.filter (selChanging c excluded)

def getHandlersPlain {V} [PyVal V] (hs : List (Handler V)) (c : Cause V) (ex : List String) :=
  dedup (iterPlain hs c ex)

def getHandlersChanging {V} [PyVal V] (hs : List (Handler V)) (c : Cause V) (ex : List String) :=
  dedup (iterChanging hs c ex)

/-- `ChangingRegistry.prematch(cause)` -/
def prematchAny {V} [PyVal V] (hs : List (Handler V)) (c : Cause V) : Bool :=
  hs.any (fun h => prematchAnyCore (selAtoms c [] h))

/-- `ChangingRegistry.requires_finalizer` (note: `prematch`, not `match`) -/
def requiresFinalizerChanging {V} [PyVal V] (hs : List (Handler V)) (c : Cause V)
    (ex : List String) : Bool :=
  hs.any (fun h => reqFinChangingCore (selAtoms c ex h))

/-- `SpawningRegistry.requires_finalizer` -/
def requiresFinalizerSpawning {V} [PyVal V] (hs : List (Handler V)) (c : Cause V)
    (ex : List String) : Bool :=
  hs.any (fun h => reqFinSpawningCore (selAtoms c ex h))

/-- `ResourceRegistry.has_handlers(resource)` -/
def hasHandlers {V} (hs : List (Handler V)) : Bool := hs.any matchesResource

-- ---------------------------------------------------------------------------------------------
-- processing.process_resource_event / process_resource_causes, as far as "is anything done to this
-- object" goes. The cycle's patch starts from `memory.remaining_patch`: the transformation functions
-- of an earlier cycle whose JSON-patch was rejected (HTTP 422). Since /repo 1c8f3dd these are the
-- *handlers'* functions only (the framework's own finalizer edits are dropped from what is carried).
-- `Obj.carried`: there are any; `Obj.carriedOps`: they still yield a JSON-patch operation on the body at
-- hand (else no request is sent for them). /repo 608a57d forgot the fulfilled ones before the cycle;
-- its rework 02af7ce keeps them in the patch and makes the early exit come back at once instead
-- (`Repairs`). /repo 423b86f made the "blind" branch (no changing handler prematches) purge the
-- progress records of the resource's handlers and of their sub-handlers that are PRESENT on the object
-- (`Obj.records`); /repo ad4ec08 took that purge out again (finding C15-F9: "its own" records were
-- recognised by name only, so one deployment purged the records of another): the blind branch writes
-- NOTHING, the variant with the purge is kept for the regression theorems. Consistency: pre-proven (`consistency_time is None`) or, with `Obj.timed`, a deadline
-- that is over already (both give `consistency_is_achieved = True` before the patch is looked at); since
-- /repo 30557a0 the early exit to PATCHing returns the remaining waiting time as a delay when there is
-- a deadline, since 02af7ce a zero delay when the cycle started with a non-empty patch.

structure Registry (V : Type) where
  watching : List (Handler V)
  spawning : List (Handler V)
  changing : List (Handler V)

/-- The three causes `_detect_causes` builds from one event (same body; kwargs differ). -/
structure Causes (V : Type) where
  watching : Cause V
  spawning : Cause V
  changing : Cause V

structure Obj where
  deletedEvent : Bool     -- raw_event['type'] == 'DELETED'
  ongoing : Bool          -- finalizers.is_deletion_ongoing(body)
  blocked : Bool          -- finalizers.is_deletion_blocked(body, finalizer): own finalizer present
  carried : Bool          -- `memory.remaining_patch is not None` (and not empty) when the event arrives
  carriedOps : Bool       -- `bool(patch.as_json_patch(body))`: the carried functions yield at least one
                          -- JSON-patch operation on the body of THIS event (else they are fulfilled already)
  lingering : Bool        -- in-memory residue of an earlier cycle: a daemon/timer of this object that is not
                          -- matched any more (or whose object is being deleted, or that matches AGAIN while its
                          -- stopped instance is escorted out: /repo ef26531) is still exiting, so `match_daemons` /
                          -- `stop_daemons` / `spawn_daemons` return a delay (daemon life cycles: C09)
  handlerDelays : Bool    -- `process_changing_cause` (if it runs) returns delays: a handler asked to be retried
  resumed : List String   -- `memory.resumed_handlers` (/repo 6c4463d): resuming handlers already finished here
  records : List (String × List String)
                          -- the progress records PRESENT on the object (annotations and/or status.kopf.progress):
                          -- handler id ↦ its `subrefs`, whoever wrote them (the model decides which are owned)
  timed : Bool            -- `consistency_time is not None` with the deadline over (`<= loop.time()`), operator
                          -- not paused; `false`: `consistency_time is None`

inductive Effect where
  | carried                              -- an earlier cycle's rejected transformation is RE-SENT (it still changes the object)
  | invokeWatching (ids : List String)   -- on.event handlers run (their results go to patch.status)
  | spawn (ids : List String)            -- daemons/timers matched for spawning
  | purge (ids : List String)            -- the blind branch of 423b86f: progress records of these ids are patched AWAY
  | addFinalizer                         -- patch.fns += block_deletion
  | removeFinalizer                      -- patch.fns += allow_deletion
  | handle (ids : List String)           -- process_changing_cause: handlers, progress & diff-base annotations
  | touch                                -- application.apply: sleep for the delay, then patch `touch-dummy`
  deriving DecidableEq, Repr

/-- an effect by which the object is written to in this cycle: the framework's finalizer and
    annotations, and the re-sent transformations of an earlier cycle. (on.event results and daemons
    write only when such a handler matched: `invokeWatching`/`spawn` name the handlers.) -/
def Effect.isFrameworkWrite : Effect → Bool
  | .carried => true
  | .purge _ => true
  | .addFinalizer => true
  | .removeFinalizer => true
  | .handle _ => true
  | .touch => true
  | _ => false

/-- a write that only takes the framework's own marks OFF the object: its finalizer, its leftover
    progress records (the clause "no annotations, no finalizer" is made true, not broken, by these) -/
def Effect.isRemoval : Effect → Bool
  | .purge _ => true
  | .removeFinalizer => true
  | _ => false

def ids {V} (hs : List (Handler V)) : List String := hs.map (·.id)

/-- the ids of `registry._changing.get_resource_handlers(resource)` (`_deduplicated` keeps the id set) -/
def ownedIds {V} (hs : List (Handler V)) : List String := ids (hs.filter matchesResource)

/-- (the blind purge of /repo 423b86f, reverted by ad4ec08; kept for the regression theorems and for
    checks against a tree that has it) `State.from_storage(handlers=owned).purge(handlers=owned)`: `storage.purge` patches a key away only
    if the body has it; the keys tried are the owned ids and the `subrefs` of the owned records found -/
def purgeIds {V} (hs : List (Handler V)) (records : List (String × List String)) : List String :=
  let owned := ownedIds hs
  let subs := (records.filter (fun r => owned.contains r.1)).flatMap (·.2)
  (records.map (·.1)).filter (fun i => owned.contains i || subs.contains i)

def purgeEffect (is : List String) : List Effect := if is.isEmpty then [] else [Effect.purge is]

/-- atoms of the finalizer decision block of `process_resource_causes` -/
structure FinAtoms where
  hasSpawning : Bool     -- spawning_cause is not None
  spawnReq : Bool        -- registry._spawning.requires_finalizer(cause, excluded=forever_stopped)
  changingLive : Bool    -- changing_cause is not None (after the prematch gate)
  changingReq : Bool     -- registry._changing.requires_finalizer(cause)
  blocked : Bool         -- deletion_is_blocked
  ongoing : Bool         -- deletion_is_ongoing

def mustBlockCore (a : FinAtoms) : Bool :=
  (a.hasSpawning && a.spawnReq) || (a.changingLive && a.changingReq)
def addingCore (a : FinAtoms) : Bool := mustBlockCore a && !a.blocked && !a.ongoing
def removingCore (a : FinAtoms) : Bool := !mustBlockCore a && a.blocked

/-- `if changing_cause is not None and not registry._changing.prematch(cause=changing_cause)` -/
structure BlindAtoms where
  hasChanging : Bool
  prematch : Bool
def blindCore (a : BlindAtoms) : Bool := a.hasChanging && !a.prematch

structure ReleaseAtoms where
  deleted : Bool
  ongoing : Bool
  blocked : Bool
  delays : Bool          -- truthiness of `delays`
def releaseCore (a : ReleaseAtoms) : Bool := !a.deleted && a.ongoing && a.blocked && !a.delays

/-- `consistency_is_achieved = consistency_is_achieved and patch_initially_empty` followed by
    `if consistency_is_required and not consistency_is_achieved: return …` (before the handling) -/
structure ExitAtoms where
  required : Bool        -- consistency_is_required = changing_cause is not None
  achievedBefore : Bool  -- consistency_is_achieved before the patch is looked at
  carried : Bool         -- not patch_initially_empty
def earlyExitCore (a : ExitAtoms) : Bool := a.required && !(a.achievedBefore && !a.carried)

/-- `process_resource_event` (/repo 608a57d):
    `if memory.remaining_patch is not None and not patch.as_json_patch(body): <forget it>` -/
structure ForgetAtoms where
  carriedNotNone : Bool  -- memory.remaining_patch is not None
  hasOps : Bool          -- bool(patch.as_json_patch(body))
def forgetCore (a : ForgetAtoms) : Bool := a.carriedNotNone && !a.hasOps

/-- which of today's repairs of `processing.py` are in the code (named variants: /repo as it is --
    `head`: ad4ec08, blind again --, 02af7ce with the blind purge of 423b86f -- `rework` --, 423b86f as
    first committed -- `at608` --, and the code BEFORE a repair for the regression theorems) -/
structure Repairs where
  forgetFulfilled : Bool   -- /repo 608a57d: carried transformations that are fulfilled already are forgotten
                           -- at the head of process_resource_event (removed again by the rework)
  blindPurge : Bool        -- /repo 423b86f: the blind branch purges the leftover progress records
                           -- (reverted by /repo ad4ec08: finding C15-F9)
  exitDeadline : Bool      -- /repo 30557a0: the early exit returns the remaining waiting time as a delay
  exitCarried : Bool       -- the rework of 608a57d: the early exit returns a zero delay when the cycle started
                           -- with a non-empty (carried) patch: a patch that sends nothing is followed by a touch
  deriving DecidableEq, Repr

/-- /repo 423b86f as first committed: with 608a57d's head block, before its rework -/
def Repairs.at608 : Repairs := ⟨true, true, true, false⟩
/-- /repo 02af7ce (on top of 423b86f): 608a57d's head block removed again, the early exit comes back at
    once; the blind branch still purges by name (finding C15-F9) -/
def Repairs.rework : Repairs := ⟨false, true, true, true⟩
/-- /repo ad4ec08, the code as it is: 02af7ce with 423b86f reverted -- the operator is blind again to the
    objects it does not match (no purge in the blind branch); 30557a0's deadline arm and 02af7ce's
    come-back-at-once stay -/
def Repairs.head : Repairs := ⟨false, false, true, true⟩

/-- what the blind branch patches away in variant `v` from an object that nothing prematches: the present
    records `purgeIds` names with 423b86f, nothing at all without it (the code as it is) -/
def blindPurged {V} (v : Repairs) (hs : List (Handler V)) (records : List (String × List String)) :
    List String :=
  if v.blindPurge then purgeIds hs records else []

/-- the early exit of `process_resource_causes`: is a delay returned besides the spawning delays?
    `if paused: pass / elif consistency_time is not None: [remaining] / elif not patch_initially_empty: [0.]`
    (before the rework: `if consistency_time is not None and not paused: [remaining]`) -/
structure WaitAtoms where
  timeNotNone : Bool     -- consistency_time is not None
  pausedNotNone : Bool   -- operator_paused is not None
  pausedOn : Bool        -- operator_paused.is_on()
  carried : Bool         -- not patch_initially_empty
def waitingCore (v : Repairs) (a : WaitAtoms) : Bool :=
  !(a.pausedNotNone && a.pausedOn) && ((v.exitDeadline && a.timeNotNone) || (v.exitCarried && a.carried))

/-- the filter of `process_changing_cause` on `cause_handlers` (/repo 6c4463d):
    `not (handler.initial and handler.id in memory.resumed_handlers)` -/
structure ResumedAtoms where
  initial : Bool
  inResumed : Bool
def resumedKeepCore (a : ResumedAtoms) : Bool := !(a.initial && a.inResumed)

/-- `cause_handlers` of `process_changing_cause`: `get_handlers(cause)` minus the finished resuming ones -/
def causeHandlers {V} [PyVal V] (hs : List (Handler V)) (c : Cause V) (resumed : List String) :
    List (Handler V) :=
  (getHandlersChanging hs c []).filter
    (fun h => resumedKeepCore { initial := h.kind.initial, inResumed := resumed.contains h.id })

/-- `application.apply`: with a delay and no patch that changes the object, sleep and then touch -/
structure TouchAtoms where
  delay : Bool           -- `delays` is not empty
  patched : Bool         -- `bool(patch)` (a patch that changes nothing is C08's subject)
def touchCore (a : TouchAtoms) : Bool := a.delay && !a.patched

/-- the decision tree of `application.apply` after the patch was sent -/
structure ApplyAtoms where
  delayTruthy : Bool     -- `delay` (not None and not 0)
  delayNotNone : Bool    -- `delay is not None`: `delays` was not empty
  changed : Bool         -- `changed`: a patch was sent and changed the object
  interrupted : Bool     -- `unslept_delay is not None`: a new event woke the sleep up
def applyTouchCore (a : ApplyAtoms) : Bool :=
  if a.delayTruthy && a.changed then false
  else if a.delayNotNone then
    (if a.changed && !a.delayTruthy then false else if a.interrupted then false else true)
  else false

/-- is the cycle's patch non-empty from the start (`patch_initially_empty = not patch` is false)? -/
def patchNonEmpty (v : Repairs) (o : Obj) : Bool :=
  o.carried && !(v.forgetFulfilled && forgetCore { carriedNotNone := o.carried, hasOps := o.carriedOps })

/-- the carried patch as a WRITE: something was carried over and it still yields an operation on the
    object at hand (else no request is sent for it: `as_json_patch` is empty) -/
def Obj.carriedEff (o : Obj) : Bool := o.carried && o.carriedOps

/-- the end of `process_resource_causes` + `application.apply`: the delays, the release, the touch.
    `patched₀`: a request that changes the object is due before the release is decided (an effective
    carried transformation, the purge, a finalizer edit); `nonEmpty`: `not patch_initially_empty` -/
def finishCycle (v : Repairs) (o : Obj) (hasS patched₀ nonEmpty early handled : Bool) : List Effect × Bool :=
  -- `delays`: from `match_daemons`/`stop_daemons` (only if a spawning cause exists), from the handling,
  -- and from the early exit (the remaining waiting time / zero for a carried patch)
  let waiting := early &&
    waitingCore v { timeNotNone := o.timed, pausedNotNone := false, pausedOn := false, carried := nonEmpty }
  let delays := (hasS && o.lingering) || (handled && o.handlerDelays) || waiting
  -- "Release the object if everything is done, and it is marked for deletion."
  let ra : ReleaseAtoms :=
    { deleted := o.deletedEvent, ongoing := o.ongoing, blocked := o.blocked, delays := delays }
  let releasing := !early && releaseCore ra
  let release := if releasing then [Effect.removeFinalizer] else []
  -- `application.apply` (not for DELETED events): with delays and no request that changed the object,
  -- sleep and touch. What `process_changing_cause` leaves in the patch is C02's subject, so the touch is
  -- modelled for cycles without handling only.
  let patched := patched₀ || releasing
  let touch := if !o.deletedEvent && !handled && touchCore { delay := delays, patched := patched }
               then [Effect.touch] else []
  (release ++ touch, delays)

/-- one cycle: the effects on the object, and whether `delays` (what `apply` gets) is non-empty -/
def cycleFull {V} [PyVal V] (v : Repairs) (r : Registry V) (cs : Causes V) (o : Obj) (stopped : List String) :
    List Effect × Bool :=
  let nonEmpty := patchNonEmpty v o
  let hasW := hasHandlers r.watching
  let hasS := hasHandlers r.spawning
  let hasC := hasHandlers r.changing
  let wIds := ids (getHandlersPlain r.watching cs.watching [])
  let watching := if hasW && !wIds.isEmpty then [Effect.invokeWatching wIds] else []
  let sIds := ids (getHandlersPlain r.spawning cs.spawning stopped)
  let spawning := if hasS && !o.ongoing && !sIds.isEmpty then [Effect.spawn sIds] else []
  -- `if changing_cause is not None and not registry._changing.prematch(...)`: be blind to it
  -- (the variants with 423b86f: but patch away the leftover progress records of the resource's handlers)
  let blind := blindCore { hasChanging := hasC, prematch := prematchAny r.changing cs.changing }
  let purged := if v.blindPurge && blind then purgeIds r.changing o.records else []
  let changing₁ := hasC && !blind
  let fa : FinAtoms :=
    { hasSpawning := hasS, spawnReq := requiresFinalizerSpawning r.spawning cs.spawning stopped,
      changingLive := changing₁, changingReq := requiresFinalizerChanging r.changing cs.changing [],
      blocked := o.blocked, ongoing := o.ongoing }
  let adding := addingCore fa
  let removing := removingCore fa
  let changing₂ := changing₁ && !adding && !removing
  let fin₁ := (if adding then [Effect.addFinalizer] else []) ++
              (if removing then [Effect.removeFinalizer] else [])
  -- a non-empty patch at the start makes the cycle "inconsistent": exit to PATCHing before handling and release
  let early := earlyExitCore { required := changing₂, achievedBefore := true, carried := nonEmpty }
  let handled := changing₂ && !early
  let handling := if handled then
      [Effect.handle (if C05.handlerReasons.contains cs.changing.kind.reason
                      then ids (causeHandlers r.changing cs.changing o.resumed) else [])]
    else []
  let fin := finishCycle v o hasS (o.carriedEff || !purged.isEmpty || adding || removing) nonEmpty early handled
  ((if o.carriedEff then [Effect.carried] else []) ++ watching ++ spawning ++ purgeEffect purged ++ fin₁ ++ handling
    ++ fin.1, fin.2)

/-- a variant of the code -/
def cycleAt {V} [PyVal V] (v : Repairs) (r : Registry V) (cs : Causes V) (o : Obj) (stopped : List String) :
    List Effect :=
  (cycleFull v r cs o stopped).1

def cycleDelaysAt {V} [PyVal V] (v : Repairs) (r : Registry V) (cs : Causes V) (o : Obj) (stopped : List String) :
    Bool :=
  (cycleFull v r cs o stopped).2

/-- the code as it is (/repo ad4ec08); every theorem that does not depend on the difference is proved
    for all variants, or for all variants without the blind purge -/
def cycle {V} [PyVal V] (r : Registry V) (cs : Causes V) (o : Obj) (stopped : List String) : List Effect :=
  cycleAt Repairs.head r cs o stopped

end Kopf.C15
