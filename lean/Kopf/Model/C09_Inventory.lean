/-
  C09 model, inventory level — the operator's exit as seen by ALL the memories at once.

  `Model/C09_Daemons.lean` is the life of ONE (object, handler id) pair; its label `exitBegin` marks the pair's memory
  (`exitAt := some now`) whatever the memory holds. That is a statement about a loop over MANY memories:

    daemon_killer's `finally:`            memories.mark_operator_exiting()
    ResourceMemories.mark_operator_exiting  self._operator_exiting = True; super().mark_operator_exiting()
    DaemonsMemoriesIterator.mark_…          for memory in self.iter_all_daemon_memories(): memory.operator_exiting = True
    ResourceMemories.iter_all_daemon_memories   for memory in self._items.values(): yield memory.daemons_memory
    ResourceMemories.recall                 a NEW memory gets `operator_exiting = self._operator_exiting`
    spawn_daemons                           `if memory.operator_exiting: return []`

  The view `iter_all_daemon_memories` is shared with the killer's stopping loops, for which a memory without running
  daemons is of no interest — for the MARK it is: a known object without an instance (never matched, stopped matching,
  its daemon exited by itself) may still have an event in its worker's backlog, processed after the final sweep.
  `viewAll` is the tree variant (tied to the AST by `Tie.views_every_memory`): `true` = every remembered object is in
  the view; `false` = only those with running daemons (seed C09g).
-/
import Kopf.Model.C09_Daemons
namespace Kopf.C09.Inv

abbrev Key := Nat

/-- what the exit mark and `spawn_daemons` read / write of a `DaemonsMemory` -/
structure Mem where
  running : Nat      -- len(memory.running_daemons)
  exiting : Bool     -- memory.operator_exiting
  deriving DecidableEq, Repr

/-- `ResourceMemories`: `_items`, `_operator_exiting`; ghost: how many instances were ever created -/
structure Inventory where
  items : List (Key × Mem)
  exitingLater : Bool
  spawns : Nat
  deriving DecidableEq, Repr

/-- the tree under test: `iter_all_daemon_memories` yields every remembered object's daemons-memory -/
def treeViewAll : Bool := true

/-- is the memory in the view `iter_all_daemon_memories`? -/
def inView (viewAll : Bool) (m : Mem) : Bool := viewAll || decide (0 < m.running)

/-- `iter_all_daemon_memories` -/
def view (viewAll : Bool) (inv : Inventory) : List (Key × Mem) := inv.items.filter (fun km => inView viewAll km.2)

def markOne (viewAll : Bool) (km : Key × Mem) : Key × Mem :=
  if inView viewAll km.2 then (km.1, { km.2 with exiting := true }) else km

/-- `ResourceMemories.mark_operator_exiting()` (the first statement of the killer's `finally:`) -/
def markExiting (viewAll : Bool) (inv : Inventory) : Inventory :=
  { inv with items := inv.items.map (markOne viewAll), exitingLater := true }

def get : List (Key × Mem) → Key → Option Mem
  | [], _ => none
  | (k', m) :: rest, k => if k' = k then some m else get rest k

def setRunning : List (Key × Mem) → Key → (Nat → Nat) → List (Key × Mem)
  | [], _, _ => []
  | (k', m) :: rest, k, f => if k' = k then (k', { m with running := f m.running }) :: rest else (k', m) :: setRunning rest k f

/-- `recall`: the remembered memory, or a new one that inherits `_operator_exiting` -/
def recall (inv : Inventory) (k : Key) : Inventory × Mem :=
  match get inv.items k with
  | some m => (inv, m)
  | none =>
    let m : Mem := { running := 0, exiting := inv.exitingLater }
    ({ inv with items := inv.items ++ [(k, m)] }, m)

/-- `spawn_daemons`' guard `if memory.operator_exiting: return []` -/
def spawnAllowed (m : Mem) : Bool := !m.exiting

/-- what the workers and the runners do to the inventory (in any order, any number of times — also after the killer is gone) -/
inductive Op where
  | cycle (k : Key) (n : Nat)   -- an event of object `k` is processed: `recall`, then `spawn_daemons` with `n` selected handlers whose id is free
  | deleted (k : Key)           -- its DELETED event: `forget`
  | ended (k : Key)             -- a runner's `finally:` — `running_daemons` of `k` loses an entry
  deriving DecidableEq, Repr

def stepOp (inv : Inventory) : Op → Inventory
  | .cycle k n =>
    let (inv1, m) := recall inv k
    if spawnAllowed m then { inv1 with items := setRunning inv1.items k (· + n), spawns := inv1.spawns + n } else inv1
  | .deleted k => { inv with items := inv.items.filter (fun km => km.1 != k) }
  | .ended k => { inv with items := setRunning inv.items k (· - 1) }

def runOps (inv : Inventory) : List Op → Inventory
  | [] => inv
  | o :: os => runOps (stepOp inv o) os

/-- every memory, remembered now or later, refuses to spawn -/
def Marked (inv : Inventory) : Prop := inv.exitingLater = true ∧ ∀ km ∈ inv.items, km.2.exiting = true

/-- the daemons the killer's stopping loops reach through the view (`for daemon in memory.running_daemons` over the view) -/
def reached (viewAll : Bool) (inv : Inventory) : Nat := ((view viewAll inv).map (fun km => km.2.running)).sum

end Kopf.C09.Inv
