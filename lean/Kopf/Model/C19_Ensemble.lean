/-
  C19 model, part 2 — `orchestration.adjust_tasks` over the insights (peering absent):

      terminate_redundancies(remaining_resources = insights.watched_resources,
                             remaining_namespaces = insights.namespaces | {None})
      spawn_missing_watchers(watched_resources × namespaces)

  * a key is `EnsembleKey(resource, namespace)`; `Resource.__eq__/__hash__` look at
    (group, version, plural) only — here `Res.name`; `namespaced` is an attribute, not identity;
  * redundant = `key.namespace not in remaining_namespaces or key.resource not in remaining_resources`
    — note the `| {None}`: a key with namespace None is never redundant by its namespace;
  * spawn: `for resource, namespace in product(watched_resources, namespaces)`,
    `namespace = namespace if resource.namespaced else None`, a task is created only if the key
    has none (`dkey not in ensemble.watcher_tasks`).

  A task is identified by its spawn number, so "kept" and "respawned" can be told apart.
  Core Lean only.
-/
namespace Kopf.C19.Ens

abbrev Ns := Option String      -- `None` = cluster-wide API calls

structure Res where
  name : String
  namespaced : Bool
  deriving DecidableEq, Repr

abbrev Key := String × Ns

structure Insights where
  watched : List Res
  namespaces : List Ns
  deriving DecidableEq, Repr

structure Ensemble where
  watchers : List (Key × Nat)   -- `ensemble.watcher_tasks`: key ↦ task (spawn number)
  next : Nat
  deriving Repr

def Ensemble.keys (e : Ensemble) : List Key := e.watchers.map (·.1)

def empty : Ensemble := { watchers := [], next := 0 }

/-- `not redundant` in `terminate_redundancies` -/
def remaining (ins : Insights) (k : Key) : Bool :=
  (ins.namespaces.contains k.2 || k.2 == none) && ins.watched.any (fun r => r.name == k.1)

def terminate (e : Ensemble) (ins : Insights) : Ensemble :=
  { e with watchers := e.watchers.filter (fun t => remaining ins t.1) }

/-- `namespace = namespace if resource.namespaced else None; dkey = EnsembleKey(resource, namespace)` -/
def dkey (r : Res) (n : Ns) : Key := (r.name, if r.namespaced then n else none)

def pairs (ins : Insights) : List (Res × Ns) :=
  ins.watched.flatMap (fun r => ins.namespaces.map (fun n => (r, n)))

def spawnOne (e : Ensemble) (p : Res × Ns) : Ensemble :=
  let k := dkey p.1 p.2
  if e.keys.contains k then e else { watchers := e.watchers ++ [(k, e.next)], next := e.next + 1 }

def spawn (e : Ensemble) (ps : List (Res × Ns)) : Ensemble := ps.foldl spawnOne e

/-- One `adjust_tasks`. -/
def adjust (e : Ensemble) (ins : Insights) : Ensemble := spawn (terminate e ins) (pairs ins)

/-- The orchestrator over a history of revised insights. -/
def runHist (e : Ensemble) : List Insights → Ensemble
  | [] => e
  | ins :: rest => runHist (adjust e ins) rest

/-- The watches the property asks for: one per served (resource, namespace) pair, with the
    namespace None for cluster-scoped resources. -/
def Target (ins : Insights) (k : Key) : Prop :=
  ∃ r ∈ ins.watched, ∃ n ∈ ins.namespaces, k = dkey r n

end Kopf.C19.Ens
