/-
  C19 model, part 2 — `orchestration.adjust_tasks` over the insights (peering absent):

      terminate_redundancies(remaining_resources = insights.watched_resources,
                             remaining_namespaces = insights.namespaces | {None})
      spawn_missing_watchers(watched_resources × namespaces)

  * a key is `EnsembleKey(resource, namespace)`; `Resource.__eq__/__hash__` look at
    (group, version, plural) only — here `Res.name`; `namespaced` is an attribute, not identity;
  * redundant = `key.namespace not in remaining_namespaces or key.resource not in remaining_resources
    or any(task.done() for task in ensemble.get_tasks({key}))` (the last since kopf 9ef1bcb: a task that
    exited on its own, e.g. a watcher that got HTTP 404 while its CRD was away, is cleaned up and
    spawned anew if the pair is still served) — note the `| {None}`: a key with namespace None is
    never redundant by its namespace;
  * spawn: `for resource, namespace in product(watched_resources, namespaces)`,
    `namespace = namespace if resource.namespaced else None`, a task is created only if the key
    has none (`dkey not in ensemble.watcher_tasks`).

  A task is identified by its spawn number, so "kept" and "respawned" can be told apart.
  Core Lean only.
-/
namespace Kopf.C19.Ens

abbrev Ns := Option String      -- `None` = cluster-wide API calls

structure Res where
  name : String
  namespaced : Bool
  deriving DecidableEq, Repr

abbrev Key := String × Ns

structure Insights where
  watched : List Res
  namespaces : List Ns
  deriving DecidableEq, Repr

structure Ensemble where
  watchers : List (Key × Nat)   -- `ensemble.watcher_tasks`: key ↦ task (spawn number)
  next : Nat
  dead : List Nat := []         -- tasks that have exited on their own (`task.done()`)
  deriving Repr

def Ensemble.keys (e : Ensemble) : List Key := e.watchers.map (·.1)

def empty : Ensemble := { watchers := [], next := 0, dead := [] }

/-- The task under key `k` exits on its own (e.g. HTTP 404 out of its stream). Nobody is notified. -/
def kill (e : Ensemble) (k : Key) : Ensemble :=
  match e.watchers.find? (fun t => t.1 == k) with
  | some t => { e with dead := t.2 :: e.dead }
  | none => e

/-- `not redundant` in `terminate_redundancies` -/
def remaining (ins : Insights) (k : Key) : Bool :=
  (ins.namespaces.contains k.2 || k.2 == none) && ins.watched.any (fun r => r.name == k.1)

def terminate (e : Ensemble) (ins : Insights) : Ensemble :=
  { e with watchers := e.watchers.filter (fun t => remaining ins t.1 && !e.dead.contains t.2) }

/-- `namespace = namespace if resource.namespaced else None; dkey = EnsembleKey(resource, namespace)` -/
def dkey (r : Res) (n : Ns) : Key := (r.name, if r.namespaced then n else none)

def pairs (ins : Insights) : List (Res × Ns) :=
  ins.watched.flatMap (fun r => ins.namespaces.map (fun n => (r, n)))

def spawnOne (e : Ensemble) (p : Res × Ns) : Ensemble :=
  let k := dkey p.1 p.2
  if e.keys.contains k then e else { e with watchers := e.watchers ++ [(k, e.next)], next := e.next + 1 }

def spawn (e : Ensemble) (ps : List (Res × Ns)) : Ensemble := ps.foldl spawnOne e

/-- One `adjust_tasks`. -/
def adjust (e : Ensemble) (ins : Insights) : Ensemble := spawn (terminate e ins) (pairs ins)

/-- The orchestrator over a history of revised insights. -/
def runHist (e : Ensemble) : List Insights → Ensemble
  | [] => e
  | ins :: rest => runHist (adjust e ins) rest

/-- Revisions of the insights (each followed by a pass) interleaved with tasks dying on their own. -/
inductive Ev where
  | pass (ins : Insights)
  | die (k : Key)
  deriving Repr

def runEvs (e : Ensemble) : List Ev → Ensemble
  | [] => e
  | .pass ins :: rest => runEvs (adjust e ins) rest
  | .die k :: rest => runEvs (kill e k) rest

def Ev.insights : Ev → List Insights
  | .pass ins => [ins]
  | .die _ => []

/-- A watcher of `k` that is still running. -/
def Live (e : Ensemble) (k : Key) : Prop := ∃ i, (k, i) ∈ e.watchers ∧ i ∉ e.dead

/-- The watches the property asks for: one per served (resource, namespace) pair, with the
    namespace None for cluster-scoped resources. -/
def Target (ins : Insights) (k : Key) : Prop :=
  ∃ r ∈ ins.watched, ∃ n ∈ ins.namespaces, k = dkey r n

end Kopf.C19.Ens
