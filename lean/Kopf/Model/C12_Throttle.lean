/-
  C12 model, part 2 — `kopf._core.actions.throttlers.throttled` as a step function on the
  `Throttler` state, one step per `async with throttled(...) as should_run:` cycle. Core Lean only.

  Mechanism mirrored (throttlers.py):
    if active_until is not None:                       -- 1st sleep
        unslept = await aiotime.sleep(active_until - clock(), wakeup)
        if unslept is None: active_until = None
    should_run = active_until is None
    try: yield should_run
    except Exception as e:
        if not isinstance(e, errors): raise
        if not should_run: raise
        if source_of_delays is None: source_of_delays = iter(delays)
        delay = next(source_of_delays, last_used_delay)
        if delay is not None: last_used_delay = delay; active_until = clock() + delay
    else:
        if should_run: source_of_delays = last_used_delay = None
    if active_until is not None and should_run:        -- 2nd sleep
        unslept = await aiotime.sleep(active_until - clock(), wakeup)
        if unslept is None: active_until = None
  `aiotime.sleep(d, wakeup)`: d ≤ 0 → None at once; otherwise waits for the event for at most d;
  returns None on the time-out, `max(0, d - elapsed)` when the event came first.
-/
namespace Kopf.C12

/-- `delays` as configured. A scalar is wrapped into a one-item list (`iter(delays if isinstance(delays,
    Iterable) else [delays])`, since 3ebc040 — finding F8 fixed), as `api.request` does for the backoffs. -/
inductive Delays where
  | scalar (d : Int)
  | seq (nth : Nat → Option Int)     -- finite list, tuple, or a RE-ITERABLE (possibly infinite) object;
                                     -- a one-shot generator shared by all objects is excluded (ASSUMPTIONS)
  deriving Inhabited

def Delays.ofList (l : List Int) : Delays := .seq (fun i => l[i]?)

/-- the `i`-th item of `iter(...)` over the configuration -/
def Delays.nth : Delays → Nat → Option Int
  | .scalar d => fun i => [d][i]?
  | .seq f => f

structure Throttler where
  src : Option Nat            -- `source_of_delays`: None, or how many items were consumed from it
  last : Option Int           -- `last_used_delay`
  activeUntil : Option Int    -- `active_until` (loop clock, ticks)
  deriving DecidableEq, Repr, Inhabited

def Throttler.fresh : Throttler := ⟨none, none, none⟩

/-- What the wrapped block does in one cycle. -/
inductive Body where
  | success                  -- leaves normally (also: skipped because `should_run` was False)
  | error (isOfInterest : Bool)   -- an `Exception`; is it an instance of `errors`?
  | baseExc                  -- a BaseException that is not an Exception (CancelledError, …)
  deriving DecidableEq, Repr, Inhabited

structure CycleIn where
  body : Body
  ran : Bool                 -- does the caller execute the block even when should_run = False?
  dur : Nat                  -- ticks the block takes when it is executed
  wake1 : Option Nat         -- the wake-up event fires this many ticks into the 1st sleep
  wake2 : Option Nat         -- … into the 2nd sleep
  deriving DecidableEq, Repr, Inhabited

inductive Escaped where
  | none_            -- nothing left the context manager
  | exception        -- the block's Exception was re-raised
  | baseException    -- the BaseException went through
  | typeError        -- (unused since 3ebc040: `iter(delays)` on a scalar used to raise)
  deriving DecidableEq, Repr, Inhabited

structure CycleOut where
  st : Throttler
  shouldRun : Bool
  escaped : Escaped
  activated : Option Int     -- the delay chosen in this cycle, if throttling was (re)activated
  sleep1 : Int               -- ticks actually spent in the 1st sleep
  sleep2 : Int               -- … in the 2nd sleep
  fin : Int                  -- clock when the context manager is left
  deriving DecidableEq, Repr, Inhabited

/-- `aiotime.sleep(remaining, wakeup)`: (ticks spent, completed i.e. returned None). -/
def aioSleep (remaining : Int) (wake : Option Nat) : Int × Bool :=
  if remaining ≤ 0 then (0, true)
  else match wake with
    | some w => if (w : Int) < remaining then (w, false) else (remaining, true)
    | none => (remaining, true)

/-- `next(source_of_delays, last_used_delay)` after `source_of_delays` was set to position `pos`. -/
def nextDelay (nth : Nat → Option Int) (pos : Nat) (last : Option Int) : Option Int × Nat :=
  match nth pos with
  | some d => (some d, pos + 1)
  | none => (last, pos)

/-- The 1st sleep: (ticks spent, throttler afterwards). -/
def phase1 (s : Throttler) (t : Int) (wake1 : Option Nat) : Int × Throttler :=
  match s.activeUntil with
  | some u =>
    let r := aioSleep (u - t) wake1
    (r.1, if r.2 then { s with activeUntil := none } else s)
  | none => (0, s)

/-- Everything after the 1st sleep: `s1` is the throttler then, `t1` the clock, `sl1` the time
    spent in the 1st sleep. -/
def phase2 (cfg : Delays) (s1 : Throttler) (t1 : Int) (sl1 : Int) (i : CycleIn) : CycleOut :=
  let shouldRun := s1.activeUntil.isNone
  let executed := shouldRun || i.ran
  let body := if executed then i.body else .success
  let t2 := if executed then t1 + i.dur else t1
  match body with
  | .baseExc => ⟨s1, shouldRun, .baseException, none, sl1, 0, t2⟩
  | .error ofInterest =>
    if !ofInterest then ⟨s1, shouldRun, .exception, none, sl1, 0, t2⟩
    else if !shouldRun then ⟨s1, shouldRun, .exception, none, sl1, 0, t2⟩
    else
      let nth := cfg.nth
      let nd := nextDelay nth (s1.src.getD 0) s1.last
      match nd.1 with
      | none =>
        -- no delays at all: throttling is not activated, and there is no 2nd sleep
        ⟨{ s1 with src := some nd.2 }, shouldRun, .none_, none, sl1, 0, t2⟩
      | some d =>
        let u := t2 + d
        -- 2nd sleep (should_run is True here)
        let r := aioSleep (u - t2) i.wake2
        ⟨⟨some nd.2, some d, if r.2 then none else some u⟩, shouldRun, .none_, some d, sl1, r.1, t2 + r.1⟩
  | .success =>
    if shouldRun then
      ⟨⟨none, none, none⟩, shouldRun, .none_, none, sl1, 0, t2⟩
    else
      -- still throttled: nothing is reset, and the 2nd sleep is skipped (`and should_run`)
      ⟨s1, shouldRun, .none_, none, sl1, 0, t2⟩

def cycle (cfg : Delays) (s : Throttler) (t : Int) (i : CycleIn) : CycleOut :=
  let p := phase1 s t i.wake1
  phase2 cfg p.2 (t + p.1) p.1 i

/-- A sequence of cycles on one throttler; the next cycle starts `gap` ticks after the previous
    one was left. Returns every cycle's output. -/
def cycles (cfg : Delays) : Throttler → Int → List (CycleIn × Nat) → List CycleOut
  | _, _, [] => []
  | s, t, (i, gap) :: rest =>
    let o := cycle cfg s t i
    o :: cycles cfg o.st (o.fin + gap) rest

/-- how long an uninterrupted `aiotime.sleep(d)` lasts -/
def pauseLen (d : Int) : Int := if d ≤ 0 then 0 else d

/-- the throttler after `p` consecutive (uninterrupted) errors under the list configuration `l`:
    not active, `p` (at most `len l`) items consumed, the last one remembered -/
def AfterErrors (l : List Int) (p : Nat) (s : Throttler) : Prop :=
  s.activeUntil = none ∧
  ((p = 0 ∧ s.src = none ∧ s.last = none) ∨
   (0 < p ∧ s.src = some (min p l.length) ∧ s.last = l[min p l.length - 1]?))

/-- Per-object containment: throttlers live in per-object memories (`ResourceMemory.error_throttler`),
    keyed by the object. One cycle of object `k` touches only `k`'s throttler. -/
def Memories := Nat → Throttler

def stepObject (cfg : Delays) (m : Memories) (k : Nat) (t : Int) (i : CycleIn) : Memories :=
  fun k' => if k' = k then (cycle cfg (m k) t i).st else m k'

/-- N objects on one clock: an arbitrary interleaving of cycles, each tagged with its object and
    its start time (the environment — the per-object workers of `queueing.py` — decides both).
    NB `settings.queueing.worker_limit = None` (the default): with a limit a sleeping worker keeps
    its slot and other objects' workers wait, by design of that setting. -/
structure Event where
  obj : Nat
  at_ : Int
  inp : CycleIn

def runProduct (cfg : Delays) : Memories → List Event → Memories × List (Nat × CycleOut)
  | m, [] => (m, [])
  | m, e :: rest =>
    let o := cycle cfg (m e.obj) e.at_ e.inp
    let r := runProduct cfg (stepObject cfg m e.obj e.at_ e.inp) rest
    (r.1, (e.obj, o) :: r.2)

/-- the same object alone: only its own events, on its own throttler -/
def runSolo (cfg : Delays) (k : Nat) : Throttler → List Event → Throttler × List CycleOut
  | s, [] => (s, [])
  | s, e :: rest =>
    if e.obj = k then
      let o := cycle cfg s e.at_ e.inp
      let r := runSolo cfg k o.st rest
      (r.1, o :: r.2)
    else runSolo cfg k s rest

end Kopf.C12
