/-
  C19 model, part 8 — the cluster → `Insights` layer for RESOURCE KINDS (`observation.resource_observer` and
  its event processor), as a consumer of the watch-stream of the CustomResourceDefinitions:

      await queueing.watcher(resource=CRDS, processor=process_discovered_resource_event)

      async def process_discovered_resource_event(*, raw_event, …):
          if raw_event['type'] is None:          # every item of every listing of the watch-stream
              return                             # … is thrown away (the start-up scan has seen those kinds)
          group = raw_event['object']['spec']['group']
          resources = await scanning.scan_resources(groups={group}, …)      # the API discovery of that group, NOW
          async with insights.revised:
              revise_resources(resources=resources, insights=insights, registry=registry, group=group)
              insights.revised.notify_all()

      def _update_resources(resources, selectors, *, group, source):
          group_resources = {resource for resource in resources if group in [None, resource.group]}
          resources.difference_update(group_resources)                      # forget the whole group …
          for selector in selectors: resources.update(selector.select(source))   # … take what the scan shows

  The processor looks at NOTHING of the event but its type (None or not) and the group of the CRD: not at the
  kind of change (ADDED / MODIFIED / DELETED), not at `metadata.generation`, not at the spec or the status.
  EVERY event of a CRD re-scans the API group of that CRD, and the served resources of that group become what
  the discovery shows at that moment. That is what lets a kind be found that becomes discoverable only when
  its CRD is ESTABLISHED — a status-only update of the CRD object (MODIFIED, the generation as it was), some
  time after the ADDED event whose own re-scan came too early and found nothing.

  An item carries what the adversary (the cluster) decides: the type, the CRD's name and generation, its API
  group, and `found` — the resources of that group which the scan made for this very item returns and the
  handlers' selectors pick (which ones they pick is Model/C19_Resources' subject; here they are opaque ids).

  `stepSkip` is a VARIANT (not the code as it is): a processor that remembers the generation of every CRD it
  has seen (the listing included) and drops the MODIFIED events whose generation it knows — "only the spec
  defines how a resource is served, and every change of the spec bumps the generation" (seeded change C19h).
  Core Lean only.
-/
namespace Kopf.C19.Disc

/-- `raw_event['type']`: `None` for an item of a listing, else the type of the watch event -/
inductive Ty where
  | listed | added | modified | deleted
  deriving DecidableEq, Repr

structure Item where
  ty : Ty
  name : Nat            -- metadata.name of the CRD
  gen : Nat             -- metadata.generation of the CRD
  group : Nat           -- spec.group
  found : List Nat      -- what the scan of that group, made for this item, shows and the selectors pick
  deriving Repr

/-- `insights.watched_resources`: (API group, resource) -/
abbrev Watched := List (Nat × Nat)

/-- `_update_resources(…, group=g, source=found)` -/
def rescan (w : Watched) (g : Nat) (found : List Nat) : Watched :=
  w.filter (fun r => r.1 != g) ++ found.map (fun r => (g, r))

/-- `process_discovered_resource_event` -/
def step (w : Watched) (it : Item) : Watched :=
  if it.ty = .listed then w else rescan w it.group it.found

def run (w : Watched) (its : List Item) : Watched := its.foldl step w

/-- the served resources of one API group -/
def part (w : Watched) (g : Nat) : Watched := w.filter (fun r => r.1 == g)

/-! ### the variant: known generations are skipped -/

structure Skip where
  watched : Watched
  gens : List (Nat × Nat)       -- `generations`: CRD name ↦ the generation last seen
  deriving DecidableEq, Repr

/-- `generations.get(name) == generation` -/
def known (gens : List (Nat × Nat)) (n g : Nat) : Bool := gens.any (fun p => p.1 == n && p.2 == g)
/-- `generations[name] = generation` -/
def remember (gens : List (Nat × Nat)) (n g : Nat) : List (Nat × Nat) := (n, g) :: gens.filter (fun p => p.1 != n)
/-- `generations.pop(name, None)` -/
def forget (gens : List (Nat × Nat)) (n : Nat) : List (Nat × Nat) := gens.filter (fun p => p.1 != n)

def stepSkip (s : Skip) (it : Item) : Skip :=
  let isKnown : Bool := if it.ty = .deleted then false else known s.gens it.name it.gen
  let gens' := if it.ty = .deleted then forget s.gens it.name else remember s.gens it.name it.gen
  if it.ty = .listed then { s with gens := gens' }
  else if it.ty = .modified ∧ isKnown = true then { s with gens := gens' }
  else { watched := rescan s.watched it.group it.found, gens := gens' }

def runSkip (s : Skip) (its : List Item) : Skip := its.foldl stepSkip s

end Kopf.C19.Disc
