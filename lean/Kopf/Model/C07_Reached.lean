/-
  C07 model, second part — WHICH dequeued version the worker takes for "my patch has come back".

  queueing.worker:
      if expected_version is not None and expected_version == get_version(raw_event):
          expected_version = None; consistency_time = None
  A resourceVersion is an opaque string for a client: the code compares it for EQUALITY (`arrive` in
  C07_Barrier). Here the test is a parameter `m seen expected` of the same worker, so that variants of that one
  line can be stated and compared:
    * `mEq`  — kopf: equality (`arriveBy mEq = arrive`, `execBy mEq = exec`: Lemmas/C07_Reached);
    * `mNum` — "the expected version or a NUMERICALLY later one";
    * `mStr` — "… or a later one" with Python's `>` on the two STRINGS (seeded change C07g): lexicographic order of
               the decimal digits, which is the numeric order only between numbers of the same width.
  `Sound m` = whatever `m` accepts is not older than the expected version. Everything else of the worker (the
  feedback of the patched version, the processor, retirements) is C07_Barrier's, unchanged.
  Core Lean only.
-/
import Kopf.Model.C07_Barrier
namespace Kopf.C07

/-- `if expected_version is not None and <m (get_version raw_event) expected_version>: reset both`.
    An event without a version matches nothing. -/
def arriveBy (m : Ver → Ver → Bool) (s : WState) (v : Option Ver) : WState :=
  match s.expected, v with
  | some e, some u => if m u e then WState.init else s
  | _, _ => s

def stepEventBy (m : Ver → Ver → Bool) (T : Int) (s : WState) (it : Iter) : WState × Outcome :=
  let s1 := arriveBy m s it.ver
  (feedback T s1 it, process s1.deadline it)

def nextBy (m : Ver → Ver → Bool) (T : Int) (c : Cfg) : Step → Cfg
  | .event it => { s := (stepEventBy m T c.s it).1, clock := it.tret }
  | .retire t => { s := WState.init, clock := t }
  | .background _ _ => c

def execBy (m : Ver → Ver → Bool) (T : Int) (c : Cfg) (l : List Step) : Cfg := l.foldl (nextBy m T) c

def outcomeAtBy (m : Ver → Ver → Bool) (T : Int) (c : Cfg) (it : Iter) : Outcome := (stepEventBy m T c.s it).2

def wfBy (m : Ver → Ver → Bool) (T idle : Int) : Cfg → List Step → Bool
  | _, [] => true
  | c, st :: rest => okStep idle c st && wfBy m T idle (nextBy m T c st) rest

/-- kopf's test: the very version. -/
def mEq (u e : Ver) : Bool := decide (u = e)

/-- "The expected version or a numerically later one" (regular versions only: the artificial
    `…~which~never~arrives` is matched exactly, i.e. never). -/
def mNum (u e : Ver) : Bool := decide (u = e) || (!u.never && !e.never && decide (e.n < u.n))

/-- Decimal digits, most significant first (`fuel` > number of digits). -/
def digitsAux : Nat → Nat → List Nat → List Nat
  | 0, _, acc => acc
  | fuel + 1, n, acc => if n < 10 then n :: acc else digitsAux fuel (n / 10) (n % 10 :: acc)

def digits (n : Nat) : List Nat := digitsAux (n + 1) n []

/-- Python's `<` on two strings of digits: lexicographic, a proper prefix is smaller. -/
def lexLt : List Nat → List Nat → Bool
  | [], [] => false
  | [], _ :: _ => true
  | _ :: _, [] => false
  | a :: as, b :: bs => decide (a < b) || (decide (a = b) && lexLt as bs)

/-- The value of a string of digits. -/
def valOf : List Nat → Nat
  | [] => 0
  | d :: ds => d * 10 ^ ds.length + valOf ds

/-- The seeded change C07g: `seen == expected or (both.isdigit() and seen > expected)` — on the strings. -/
def mStr (u e : Ver) : Bool :=
  decide (u = e) || (!u.never && !e.never && lexLt (digits e.n) (digits u.n))

/-- What a test must guarantee for the barrier: a version it accepts is not older than the expected one. -/
def Sound (m : Ver → Ver → Bool) : Prop := ∀ u e, m u e = true → e.n ≤ u.n

end Kopf.C07
