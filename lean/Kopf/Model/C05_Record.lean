/-
  C05 model — WHOSE record is it: where the fact "a last-handled state is stored" (`old is None` of
  `detect_changing_cause`) comes from. `processing._detect_causes` asks the configured diff-base storage:
  `old = settings.persistence.diffbase_storage.fetch(body=body)`.

  * `conventions.CollisionEvadingConvention.mark_key`: the names of the records of a ReplicaSet owned by a
    Deployment carry the mark "-ofDRS" — Kubernetes copies the Deployment's annotations (Kopf's records of the
    DEPLOYMENT among them) down to its ReplicaSets under the plain names;
  * `diffbase.AnnotationsDiffBaseStorage.fetch`: the first of the object's OWN names (`make_keys(key, body=body)`)
    whose annotation decodes to something other than JSON `null`;
  * `diffbase.StatusDiffBaseStorage.fetch`: the configured status field;
  * `diffbase.MultiDiffBaseStorage.fetch`: the first sub-storage that has something.
  How a name becomes full annotation keys (`make_keys`: prefix, V1/V2 forms, cuts and hashes) is a parameter
  here (`keysOf`): the theorems hold for every key former. Core Lean only.
-/
import Kopf.Model.C05_Cause
namespace Kopf.C05

/-- What the storages read of an object. `E` = decoded essences. An annotation's value is `none` when its
    text decodes to JSON `null` (`fetch` skips it like an absent one). -/
structure Obj (E : Type) where
  kind : String                              -- body.get('kind') ("" when absent)
  ownerKinds : List String                   -- [o['kind'] for o in metadata.ownerReferences]
  annotations : List (String × Option E)     -- metadata.annotations (a dict: the first entry of a key counts)
  statusRecord : Option E                    -- the status storage's field, decoded

/-- `kind == 'ReplicaSet' and any(owner['kind'] == 'Deployment' for owner in owners)` -/
def isDRS {E} (o : Obj E) : Bool :=
  o.kind == "ReplicaSet" && o.ownerKinds.any (· == "Deployment")

/-- `CollisionEvadingConvention.mark_key` -/
def markKey {E} (key : String) (o : Obj E) : String :=
  if isDRS o then key ++ "-ofDRS" else key

/-- `annotations.get(k)` followed by `json.loads`: absent and `null` alike give nothing. -/
def lookup {E} (k : String) : List (String × Option E) → Option E
  | [] => none
  | (k', v) :: rest => if k' == k then v else lookup k rest

/-- the first element for which `f` has something (`for … : if x is not None: return x`; `return None`) -/
def firstSome {α β} (f : α → Option β) : List α → Option β
  | [] => none
  | a :: rest => match f a with
    | some b => some b
    | none => firstSome f rest

/-- The object's OWN names of the record `key`: `make_keys(key, body=body)`. -/
def ownKeys {E} (keysOf : String → List String) (key : String) (o : Obj E) : List String :=
  keysOf (markKey key o)

/-- `AnnotationsDiffBaseStorage.fetch` -/
def fetchAnn {E} (keysOf : String → List String) (key : String) (o : Obj E) : Option E :=
  firstSome (fun k => lookup k o.annotations) (ownKeys keysOf key o)

/-- The variant of seeded change C05g (kept as the witness's subject): after the object's own names, the
    plain (unmarked) names are tried too. -/
def fetchAnnFallback {E} (keysOf : String → List String) (key : String) (o : Obj E) : Option E :=
  let marked := ownKeys keysOf key o
  firstSome (fun k => lookup k o.annotations) (marked ++ (keysOf key).filter (fun k => !marked.contains k))

/-- The storages kopf ships, `MultiDiffBaseStorage` being a list of the simple ones. -/
inductive Storage where
  | ann (keysOf : String → List String) (key : String)
  | status

def fetchSimple {E} : Storage → Obj E → Option E
  | .ann keysOf key, o => fetchAnn keysOf key o
  | .status, o => o.statusRecord

/-- `MultiDiffBaseStorage.fetch` (a single storage is the one-element list). -/
def fetchMulti {E} (ss : List Storage) (o : Obj E) : Option E :=
  firstSome (fun s => fetchSimple s o) ss

/-- The object carries no record of its own under storage `s`. -/
def NoOwnRecord {E} : Storage → Obj E → Prop
  | .ann keysOf key, o => ∀ k ∈ ownKeys keysOf key o, lookup k o.annotations = none
  | .status, o => o.statusRecord = none

/-- The six facts of an event, the fourth taken from the storage (`_detect_causes`). -/
def factsOf {E} (deleted marked blocked : Bool) (old : Option E) (diffNonEmpty initial : Bool) : In :=
  ⟨deleted, marked, blocked, old.isNone, diffNonEmpty, initial⟩

end Kopf.C05
