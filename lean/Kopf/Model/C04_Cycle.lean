/-
  C04 — model of the decisions a processing cycle takes FROM the two essences (old = the fetched
  last-handled state, new = the essence of the event's body):

  * `causes.detect_changing_cause` (the part decided by old/new/diff; deletion and resuming are other
    properties' subject): `old is None` → CREATE, `not diff` → NOOP, else UPDATE;
  * `processing.process_changing_cause`, after the handlers are done (or none matched), since kopf 8d1358b:
      `if cause.new is not None and (cause.old != cause.new or cause.diff): diffbase_storage.store(essence=cause.new)`
    — Python's `!=` OR a non-empty diff (the diff tells booleans from numbers: `diffs._same`, kopf 6b2e53c);
  * `registries._matches_field_changes` for `@on.update(field=…)` / `@on.field` (`field_needs_change`), since 8d1358b:
      `old = resolve(cause.old, field, absent); new = resolve(cause.new, field, absent)`
      `changed = (old is not new) if (old is absent or new is absent) else bool(diffs.diff(old, new)) or old != new`.

  `pyEq` is Python's `==` on parsed JSON (ints, no floats): as `same`, but `True == 1`, `False == 0`.
  The variants before 8d1358b (Python's `!=` alone: finding C04-F12) are kept as `storeGuardPy` /
  `afterCyclePy` / `fieldChangedPy` for the regression theorems.
-/
import Kopf.Base.J
import Kopf.Model.C04_Diff
namespace Kopf.C04
open Kopf Kopf.J

mutual
  /-- Python `==` on parsed JSON values (dicts as unordered maps, lists item by item, `bool` is an `int`). -/
  def pyEq : J → J → Bool
    | .null, .null => true
    | .bool a, .bool b => a == b
    | .num a, .num b => a == b
    | .bool a, .num b => (if a then (1 : Int) else 0) == b
    | .num a, .bool b => a == (if b then (1 : Int) else 0)
    | .str a, .str b => a == b
    | .arr a, .arr b => pyEqList a b
    | .obj a, .obj b => a.length == b.length && pyEqSub a b
    | _, _ => false
  def pyEqList : List J → List J → Bool
    | [], [] => true
    | x :: xs, y :: ys => pyEq x y && pyEqList xs ys
    | _, _ => false
  def pyEqSub : List (String × J) → List (String × J) → Bool
    | [], _ => true
    | (k, x) :: xs, b =>
        (match lookup k b with
         | some y => pyEq x y
         | none => false) && pyEqSub xs b
end

inductive Reason where
  | create | update | noop
  deriving DecidableEq, Repr

/-- `detect_changing_cause` for an object that is neither deleted nor being resumed. -/
def detect (old : Option J) (new : J) : Reason :=
  match old with
  | none => .create
  | some o => if (diff o new []).isEmpty then .noop else .update

/-- `cause.new is not None and (cause.old != cause.new or cause.diff)` (`None != {...}` is true). -/
def storeGuard (old : Option J) (new : J) : Bool :=
  match old with
  | none => true
  | some o => !pyEq o new || !(diff o new []).isEmpty

/-- the guard before kopf 8d1358b: `cause.new is not None and cause.old != cause.new`. -/
def storeGuardPy (old : Option J) (new : J) : Bool :=
  match old with
  | none => true
  | some o => !pyEq o new

/-- the stored last-handled state after a cycle whose handlers are all done (or none was selected):
    NOOP stores nothing; CREATE/UPDATE store `new` under the guard. -/
def afterCycle (old : Option J) (new : J) : Option J :=
  match detect old new with
  | .noop => old
  | _ => if storeGuard old new then some new else old

/-- `afterCycle` with the guard before kopf 8d1358b. -/
def afterCyclePy (old : Option J) (new : J) : Option J :=
  match detect old new with
  | .noop => old
  | _ => if storeGuardPy old new then some new else old

/-- `_matches_field_changes` (`field_needs_change`): the values at the field, resolved with an `absent`
    token: one side absent → changed iff not both; else `bool(diffs.diff(old, new)) or old != new`. -/
def fieldChanged (old new : J) (f : Path) : Bool :=
  match resolve? old f, resolve? new f with
  | none, none => false
  | some x, some y => !(diff x y []).isEmpty || !pyEq x y
  | _, _ => true

/-- the selection before kopf 8d1358b: Python's `old != new` alone. -/
def fieldChangedPy (old new : J) (f : Path) : Bool :=
  match resolve? old f, resolve? new f with
  | none, none => false
  | some x, some y => !pyEq x y
  | _, _ => true

/-- is an `@on.update(field=f)` / `@on.field(field=f)` handler called in the cycle of an existing object? -/
def selected (old new : J) (f : Path) : Bool :=
  (detect (some old) new == .update) && fieldChanged old new f

end Kopf.C04
