/-
  C19 model, part 5 — how the operator's pause reaches its watch-streams.

      running.spawn_tasks:              operator_paused = aiotoggles.ToggleSet(any)
      orchestration.orchestrator:       Ensemble(operator_paused=operator_paused, …)
      orchestration.spawn_missing_watchers:
                                        queueing.watcher(operator_paused=ensemble.operator_paused, …)
      queueing.watcher:                 watching.infinite_watch(operator_paused=operator_paused, …)
      watching.streaming_block:         `if operator_paused is not None and operator_paused.is_on(): …wait_for(False)`
                                        `operator_pause_waiter = create_task(operator_paused.wait_for(True))`
                                        (`operator_paused is None`: a dummy future that is never done)

  Every hand-over is a keyword argument with the default `None` ("for tests & observation": the meta-watchers of
  namespaces/CRDs run without it on purpose). A hand-over that is dropped is not an error anywhere: the stream
  simply never sees the pause. `Wiring` records the three hand-overs as read off the AST (Kopf/Extracted/C19.lean,
  proved all-true in Kopf/Tie/C19.lean); `opStep` is what a resource watch-stream of the operator makes of the
  OPERATOR's acts under a given wiring. Core Lean only.
-/
import Kopf.Model.C19_Watch
namespace Kopf.C19

structure Wiring where
  ensembleGetsToggles : Bool   -- orchestrator(): `Ensemble(operator_paused=operator_paused)`
  watcherGetsToggles : Bool    -- spawn_missing_watchers(): `queueing.watcher(operator_paused=ensemble.operator_paused)`
  streamGetsToggles : Bool     -- queueing.watcher(): `watching.infinite_watch(operator_paused=operator_paused)`
  deriving DecidableEq, Repr

def Wiring.wired (x : Wiring) : Bool :=
  x.ensembleGetsToggles && x.watcherGetsToggles && x.streamGetsToggles

/-- One act of the operator's world as seen by one of its resource watch-streams: with a dropped hand-over
    `operator_paused is None` inside `streaming_block`, so the toggle does not exist for the stream (its waiter is
    a dummy future: `notice` finds `paused = false` and does nothing). -/
def opStep (x : Wiring) (w : World) (a : Act) : World :=
  if x.wired then step w a
  else match a with
    | .pause => w
    | a => step w a

def opRun (x : Wiring) (w : World) : List Act → World
  | [] => w
  | a :: as => opRun x (opStep x w a) as

end Kopf.C19
