/-
  C06 model, part 3 — the task of a SYNCHRONOUS handler/daemon and its thread: the sync branch of
  `kopf/_core/actions/invocation.py::invoke`, and what `daemons.stop_daemons` concludes from the task.
  Core Lean only.

      future = loop.run_in_executor(executor, real_fn)          # the function runs in a real thread
      cancellation = None
      while not future.done():
          try:
              await asyncio.shield(future)                      # a cancel() of the task lands HERE
          except asyncio.CancelledError as e:
              cancellation = e                                  # ... and is postponed
      if cancellation is not None:
          raise cancellation
      result = future.result()

  The thread cannot be interrupted. The task (for a daemon: `Daemon.task`, the guard `_runner` around it)
  is what `stop_daemons` looks at: `daemon.task.done()` is its only evidence that "the daemon has exited";
  with no delays reported, `process_resource_causes` releases the finalizer. Hence the ordering law

      the task is not done before the function has returned — also when cancelled, repeatedly,

  on which "the finalizer stays while a daemon has neither exited nor been abandoned" rests.

  LTS: one label per real step.
    * `cancel`      — somebody calls `task.cancel()` (stop_daemons after the backoff; stop_daemon at exit;
                      the operator's shutdown; any number of times). Before the task's next step this only
                      arms the CancelledError (asyncio: the awaited outer future of `shield` is cancelled,
                      or `_must_cancel` is set when that future is already done).
    * `ret raised`  — the function returns (`raised` = with an exception) in its thread: the future is done.
    * `wake`        — the loop runs the task's next step: the `await` ends — with the armed CancelledError
                      (it takes precedence over a result that arrived at the same time; if the function
                      returned only AFTER the cancellation was armed, the step still sees `future.done()` False
                      and awaits once more: `late`), with the function's exception (NOT caught by `except
                      CancelledError`: it leaves `invoke` as it is, also after a postponed cancellation), or
                      with its value.
  `postpone = false` is the variant WITHOUT the loop (a single `await shield(future)`; CancelledError
  leaves `invoke` at once and the thread is left behind): the model of a detached thread.
-/
namespace Kopf.C06

/-- How `invoke` ended (= how the awaiting task ends when nothing around it catches). -/
inductive Fin where
  | value | error | cancelled
  deriving DecidableEq, Repr

structure Inv where
  fut : Option Bool := none        -- the executor's future: `none` = the function is still running in its thread; `some raised`
  armed : Bool := false            -- a CancelledError is about to be thrown into the task at its next step
  late : Bool := false             -- the function returned while a cancellation was already armed: in the loop's queue the
                                   -- task's step comes BEFORE the hand-over of the thread's outcome (`future.done()` is still False in it)
  cancellation : Bool := false     -- the local variable `cancellation` is not None
  fin : Option Fin := none         -- the task is done (`task.done()`), and how
  deriving DecidableEq, Repr

inductive ILabel where
  | cancel
  | ret (raised : Bool)
  | wake
  deriving DecidableEq, Repr

/-- `task.done()` -/
def Inv.done (s : Inv) : Bool := s.fin.isSome
/-- the function has returned in its thread -/
def Inv.returned (s : Inv) : Bool := s.fut.isSome

def istep (postpone : Bool) (s : Inv) : ILabel → Option Inv
  | .cancel =>
    -- `task.cancel()` on a finished task is a no-op (returns False)
    if s.done then some s else some { s with armed := true }
  | .ret raised =>
    -- a function returns once
    if s.returned then none else some { s with fut := some raised, late := s.armed }
  | .wake =>
    if s.done then none
    else if s.armed then
      -- `except asyncio.CancelledError as e: cancellation = e`, then the `while` condition
      if postpone then
        if s.returned && !s.late then some { s with armed := false, cancellation := true, fin := some .cancelled }
        else some { s with armed := false, cancellation := true, late := false }   -- `while not future.done()`: awaits again
      else some { s with armed := false, cancellation := true, fin := some .cancelled }
    else match s.fut with
      | none => none                              -- nothing wakes the task up
      | some true => some { s with fin := some .error }     -- `await shield(future)` raises the function's exception
      | some false => some { s with fin := some (if s.cancellation then .cancelled else .value) }

def irun (postpone : Bool) : Inv → List ILabel → Option Inv
  | s, [] => some s
  | s, l :: ls => (istep postpone s l).bind (fun s' => irun postpone s' ls)

/-- Reachable from the start of the sync branch (`run_in_executor` just called) by any label list. -/
def IReach (postpone : Bool) (s : Inv) : Prop := ∃ ls, irun postpone {} ls = some s

/-! ### what `stop_daemons` concludes for one daemon

      if daemon.task.done(): pass
      elif backoff is not None and age < backoff:            ... if not daemon.task.done(): delays.append(backoff - age)
      elif timeout is not None and age < timeout + (backoff or 0):
                                   daemon.task.cancel() ...  if not daemon.task.done(): delays.append(timeout + (backoff or 0) - age)
      elif timeout is not None:    DAEMON_ABANDONED (no delay)
      else:                        delays.append(polling)

  `done` = what the LAST reading of `daemon.task.done()` on the taken path returned (the task's state is
  monotone: an earlier reading that was true is true later). Times in any unit (`Nat`). A timer has neither
  backoff nor timeout. -/
def stopDelay (done : Bool) (backoff timeout : Option Nat) (age polling : Nat) : Option Nat :=
  if done then none
  else
    let b := backoff.getD 0
    match backoff, timeout with
    | some bb, t =>
      if age < bb then some (bb - age)
      else match t with
        | some tt => if age < tt + b then some (tt + b - age) else none
        | none => some polling
    | none, some tt => if age < tt + b then some (tt + b - age) else none
    | none, none => some polling

/-- Abandoned after its timeouts: a cancellation timeout is declared and backoff + timeout are over. -/
def abandoned (backoff timeout : Option Nat) (age : Nat) : Prop :=
  ∃ tt, timeout = some tt ∧ tt + backoff.getD 0 ≤ age

end Kopf.C06
