/-
  C08 — model of `kopf._cogs.clients.patching.patch_obj`, of the stateful API server it talks to,
  and of the carry-forward of `memory.remaining_patch` into the next cycle
  (`processing.process_resource_event`, `daemons._daemon/_timer`). Core Lean only.

  What is mirrored (read from the code, not from the property):
  * the patch is a dict of merge-patch fields plus a list of transformation functions (`Patch.fns`);
  * with a status subresource the `status` key is popped (with a dedicated `absent` sentinel, so
    `status: None` = "remove the whole status" counts) and sent to `/status` as `{status: …}`;
  * at most four requests, in this order: merge-patch of the body, merge-patch of the status,
    JSON-patch of the body, JSON-patch of the status. The JSON-patch ops are computed ONCE, by applying
    the fns to the freshest body (`patched_body or patch._original`), and split by path (`/status`);
    each JSON-patch starts with `test /metadata/resourceVersion` of the body the client saw last;
  * 404 on any request: `(None, None)`, silently; 422 on a JSON-patch: `(patched_body, Patch(fns=fns))`
    — ALL fns remain, also those of an already accepted body JSON-patch; 422 on a merge-patch is
    not caught (the exception propagates);
  * `process_resource_event` carries the remaining fns into the next cycle's patch EXCEPT the
    framework's own finalizer edits (`_is_finalizer_fn`), `_daemon/_timer` carry all of them;
  * commit 608a57d made `process_resource_event` forget the carried fns at the head of the next cycle when they
    yield no JSON-patch operation on that cycle's body (`settled`, `cycleForgetting`); that lost effects and was
    taken back by the rework that followed (findings C08-F4, C08-F5): kept as a named variant for regression theorems;
  * requests are addressed by namespace/name only: the server serves whatever object is stored under
    the name at that moment (`Server.obj`), whatever its uid.

  The JSON-patch is modelled by its effect ("set the finalizer list / the status to what the fns
  made of the fresh body, iff the server is still at the tested version"), not by its op syntax.
  System fields (name, uid, resourceVersion, deletionTimestamp, generation, …) and
  `metadata.finalizers` are kept out of `Obj.body`; merge-patch fields never address them
  (kopf's own never do; stated assumption of the tie).
-/
import Kopf.Base.J
import Kopf.Base.Merge
namespace Kopf.C08
open Kopf Kopf.J

abbrev Kvs := List (String × J)

/-! ## finalizers.py -/

/-- `finalizers.block_deletion`: append unless present. -/
def blockDeletion (f : String) (l : List String) : List String :=
  if f ∈ l then l else l ++ [f]

/-- `finalizers.allow_deletion`: remove every occurrence. -/
def allowDeletion (f : String) (l : List String) : List String :=
  l.filter (fun x => x != f)

/-- The transformation functions of a patch. `block`/`allow` are the framework's own
    (`functools.partial(finalizers.block_deletion/allow_deletion, …)`, queued by the decision block of
    `processing.py`); `userFin add f` is a handler-supplied function with the same effect on the
    finalizer list (add / remove `f`) but of another identity; `setStatus` stands for a handler-supplied
    function that writes below `/status` (`body.setdefault('status', {})[k] = v`) — the only way to
    reach the fourth request. -/
inductive Fn where
  | block (f : String)
  | allow (f : String)
  | userFin (add : Bool) (f : String)
  | setStatus (k : String) (v : J)
  /-- a handler-supplied function that is NOT safe to call repeatedly:
      `body.setdefault('status', {}).setdefault(k, []).append(v)` -/
  | appendStatus (k : String) (v : J)
  deriving Repr, Inhabited

/-- `processing._is_finalizer_fn`: the framework's own finalizer edits. -/
def Fn.isFramework : Fn → Bool
  | .block _ | .allow _ => true
  | _ => false

/-- One stored version of the object under the name. -/
structure Obj where
  uid : Nat
  rv : Nat
  marked : Bool            -- deletionTimestamp is set
  fins : List String
  body : Kvs               -- everything else (labels/annotations under "metadata", spec, status, …)
  deriving Repr, Inhabited

def setStatusKey (k : String) (v : J) (body : Kvs) : Kvs :=
  match lookup "status" body with
  | some (obj s) => insert "status" (obj (insert k v s)) body
  | _ => insert "status" (obj [(k, v)]) body

def appendStatusKey (k : String) (v : J) (body : Kvs) : Kvs :=
  match lookup "status" body with
  | some (obj s) =>
    match lookup k s with
    | some (arr xs) => setStatusKey k (arr (xs ++ [v])) body
    | _ => setStatusKey k (arr [v]) body
  | _ => setStatusKey k (arr [v]) body

def Fn.app : Fn → Obj → Obj
  | .block f, o => { o with fins := blockDeletion f o.fins }
  | .allow f, o => { o with fins := allowDeletion f o.fins }
  | .userFin true f, o => { o with fins := blockDeletion f o.fins }
  | .userFin false f, o => { o with fins := allowDeletion f o.fins }
  | .setStatus k v, o => { o with body := setStatusKey k v o.body }
  | .appendStatus k v, o => { o with body := appendStatusKey k v o.body }

/-- `for fn in self.fns: fn(body_to_be)` -/
def applyFns (fns : List Fn) (o : Obj) : Obj := fns.foldl (fun o f => f.app o) o

/-! ## the API server -/

def dropEmptyKey (k : String) (kvs : Kvs) : Kvs :=
  match lookup k kvs with
  | some (obj []) => erase k kvs
  | _ => kvs

def cleanMeta : J → J
  | obj kvs => obj (dropEmptyKey "labels" (dropEmptyKey "annotations" kvs))
  | j => j

/-- the metadata normalisation of a (null-free) body: empty labels/annotations are dropped. -/
def cleanStep (b : Kvs) : Kvs :=
  match lookup "metadata" b with
  | some m =>
      match cleanMeta m with
      | obj [] => erase "metadata" b      -- only system fields are left: they are not part of `body`
      | m' => insert "metadata" m' b
  | none => b

/-- what the server stores of a written body: nulls stripped, empty labels/annotations dropped. -/
def clean (body : Kvs) : Kvs := cleanStep (dropNullsKvs body)

def withStatus (body : Kvs) : Option J → Kvs
  | some v => insert "status" v body
  | none => erase "status" body

structure Server where
  clock : Nat               -- cluster-wide resourceVersion counter
  uids : Nat                -- uid counter
  obj : Option Obj          -- what is stored under the name now (none: nothing)
  deriving Repr, Inhabited

def sameContent (a b : Obj) : Bool :=
  a.marked == b.marked && a.fins == b.fins && J.beq (obj a.body) (obj b.body)

/-- Store `new` as the next version of `old`. A no-op write makes no version; removing the last
    finalizer of a marked object releases it (the response shows the version unchanged). -/
def Server.put (s : Server) (old new : Obj) : Server × Obj :=
  if sameContent old new then (s, old)
  else if new.marked && new.fins.isEmpty then
    ({ s with clock := s.clock + 1, obj := none }, { new with rv := old.rv })
  else
    ({ s with clock := s.clock + 1, obj := some { new with rv := s.clock + 1 } },
     { new with rv := s.clock + 1 })

/-- Writes of other actors. -/
inductive Foreign where
  | edit (p : Kvs)              -- merge-patch of anything but finalizers
  | setFins (l : List String)   -- finalizer edit
  | delete                      -- deletion request (marks if finalizers are present)
  | recreate (b : Kvs)          -- forced deletion + creation of a new object under the same name
  deriving Repr, Inhabited

def foreign (w : Foreign) (s : Server) : Server :=
  match w with
  | .recreate b =>
      let c := match s.obj with
        | some _ => s.clock + 1
        | none => s.clock
      { clock := c + 1, uids := s.uids + 1,
        obj := some { uid := s.uids + 1, rv := c + 1, marked := false, fins := [], body := b } }
  | .edit p =>
      match s.obj with
      | some o => (s.put o { o with body := clean (mergeKvs o.body p) }).1
      | none => s
  | .setFins l =>
      match s.obj with
      | some o => (s.put o { o with fins := l }).1
      | none => s
  | .delete =>
      match s.obj with
      | some o =>
          if o.fins.isEmpty then { s with clock := s.clock + 1, obj := none }
          else (s.put o { o with marked := true }).1
      | none => s

/-! ## requests -/

inductive Kind where
  | mergeBody | mergeStatus | jsonBody | jsonStatus
  deriving DecidableEq, Repr, Inhabited

def Kind.toStatus : Kind → Bool
  | .mergeStatus | .jsonStatus => true
  | _ => false

def Kind.isJson : Kind → Bool
  | .jsonBody | .jsonStatus => true
  | _ => false

inductive Fault where
  | none | notFound | unprocessable
  | error (code : Nat)      -- any other API error (403, 409, 5xx after the retries, …): an `APIError` is raised
  deriving DecidableEq, Repr, Inhabited

/-- the status code of a generic injected error: never one of the three codes with a meaning of their own -/
def errCode (c : Nat) : Nat := if c = 200 ∨ c = 404 ∨ c = 422 then 500 else c

inductive Payload where
  | merge (p : Kvs)
  /-- `[test resourceVersion == test] ++ ops`; the ops by effect: the finalizer list becomes `fins`
      (if given), the status becomes `status` (if given). -/
  | json (test : Nat) (fins : Option (List String)) (status : Option J)
  deriving Repr, Inhabited

structure Req where
  kind : Kind
  payload : Payload
  target : Option Nat        -- uid of the object the request was served on
  code : Nat                 -- 200 | 404 | 422
  deriving Repr, Inhabited

structure Env where
  slips : Kind → List Foreign       -- the foreign writes (in order) right before the request of that kind
  faults : Kind → Fault             -- an injected response instead of serving it

/-- the server after the foreign writes that slip in right before the request of kind `k`. -/
def slipped (env : Env) (k : Kind) (s : Server) : Server :=
  (env.slips k).foldl (fun s w => foreign w s) s

/-- the payload applied to the stored object; `none` = the `test` op fails (422). -/
def applyPayload (pl : Payload) (o : Obj) : Option Obj :=
  match pl with
  | .merge p => some { o with body := clean (mergeKvs o.body p) }
  | .json t fi st =>
      if o.rv != t then none
      else some { o with
        fins := fi.getD o.fins,
        body := match st with
          | some v => clean (insert "status" v o.body)
          | none => o.body }

/-- what the addressed (sub)resource lets a write change: with a status subresource the main
    resource ignores `status`, `/status` ignores everything else. -/
def route (sub toStatus : Bool) (old new : Obj) : Obj :=
  if sub then
    if toStatus then { old with body := withStatus old.body (lookup "status" new.body) }
    else { new with body := withStatus new.body (lookup "status" old.body) }
  else new

/-- One request: the slip (if any) happens first, then the fault (if any) answers instead of the
    server, else the object stored under the NAME is patched. -/
def step (sub : Bool) (env : Env) (k : Kind) (pl : Payload) (s : Server) : Server × Req × Option Obj :=
  let s1 := slipped env k s
  match env.faults k with
  | .notFound => (s1, ⟨k, pl, none, 404⟩, none)
  | .unprocessable => (s1, ⟨k, pl, none, 422⟩, none)
  | .error c => (s1, ⟨k, pl, none, errCode c⟩, none)
  | .none =>
    match s1.obj with
    | none => (s1, ⟨k, pl, none, 404⟩, none)
    | some o =>
      match applyPayload pl o with
      | none => (s1, ⟨k, pl, some o.uid, 422⟩, none)
      | some new =>
        let r := s1.put o (route sub k.toStatus o new)
        (r.1, ⟨k, pl, some o.uid, 200⟩, some r.2)

/-! ## patch_obj -/

structure Patch where
  fields : Kvs
  fns : List Fn
  deriving Repr, Inhabited

inductive Stop where
  | gone | raised | conflict
  deriving DecidableEq, Repr

/-- progress of one `patch_obj` call -/
structure St where
  server : Server
  reqs : List Req
  fresh : Option Obj        -- `patched_body`: the response of the last accepted request

abbrev M := Except (St × Stop)

def doReq (sub : Bool) (env : Env) (k : Kind) (pl : Payload) (st : St) : M St :=
  let r := step sub env k pl st.server
  let st' : St := { server := r.1, reqs := st.reqs ++ [r.2.1], fresh := st.fresh }
  if r.2.1.code = 200 then .ok { st' with fresh := r.2.2 }
  else if r.2.1.code = 404 then .error (st', .gone)
  else if r.2.1.code = 422 ∧ k.isJson = true then .error (st', .conflict)   -- `except APIUnprocessableEntityError`
  else .error (st', .raised)

def bodyPart (sub : Bool) (fields : Kvs) : Kvs :=
  if sub then erase "status" fields else fields

/-- `status_value = body_patch.pop('status', absent) if as_subresource else absent`: a dedicated
    sentinel, so `status: None` (remove the whole status) is a status patch like any other. -/
def statusPart (sub : Bool) (fields : Kvs) : Option J :=
  if sub then lookup "status" fields else none

def optBeq : Option J → Option J → Bool
  | none, none => true
  | some a, some b => J.beq a b
  | _, _ => false

def finsChanged (F T : Obj) : Bool := T.fins != F.fins
def statusChanged (F T : Obj) : Bool := !(optBeq (lookup "status" T.body) (lookup "status" F.body))

/-- `if body_patch:` merge-patch of the main resource -/
def stageMergeBody (sub : Bool) (p : Patch) (env : Env) (st : St) : M St :=
  if (bodyPart sub p.fields).isEmpty then pure st
  else doReq sub env .mergeBody (.merge (bodyPart sub p.fields)) st

/-- `if status_patch:` merge-patch of `/status` -/
def stageMergeStatus (sub : Bool) (p : Patch) (env : Env) (st : St) : M St :=
  match statusPart sub p.fields with
  | some v => doReq sub env .mergeStatus (.merge [("status", v)]) st
  | none => pure st

/-- the two merge-patches -/
def stageMerge (sub : Bool) (p : Patch) (env : Env) (st : St) : M St :=
  stageMergeBody sub p env st >>= stageMergeStatus sub p env

/-- the body JSON-patch the fns ask for on the fresh body `F` (none: no body ops). Our fns only
    touch the finalizers and the status; without a subresource the status ops are body ops. -/
def jsonBodyPayload (sub : Bool) (fns : List Fn) (F : Obj) : Option Payload :=
  let T := applyFns fns F
  let fi := if finsChanged F T then some T.fins else none
  let sb := if !sub && statusChanged F T then lookup "status" T.body else none
  if fi.isSome || sb.isSome then some (.json F.rv fi sb) else none

/-- the status ops (split off only with a subresource): the status the fns made of `F`. -/
def jsonStatusValue (sub : Bool) (fns : List Fn) (F : Obj) : Option J :=
  let T := applyFns fns F
  if sub && statusChanged F T then lookup "status" T.body else none

def stageJsonBody (sub : Bool) (p : Patch) (F : Obj) (env : Env) (st : St) : M St :=
  match jsonBodyPayload sub p.fns F with
  | some pl => doReq sub env .jsonBody pl st
  | none => pure st

/-- the status ops were computed on `F` too ("we DO NOT recalculate the diff"); only the tested
    version is that of the freshest response. -/
def stageJsonStatus (sub : Bool) (p : Patch) (F orig : Obj) (env : Env) (st : St) : M St :=
  match jsonStatusValue sub p.fns F with
  | some v => doReq sub env .jsonStatus (.json (st.fresh.getD orig).rv none (some v)) st
  | none => pure st

/-- the two JSON-patches: ops from the fns on the freshest body `F = patched_body or patch._original`,
    computed once. -/
def stageJson (sub : Bool) (p : Patch) (orig : Obj) (env : Env) (st : St) : M St :=
  stageJsonBody sub p (st.fresh.getD orig) env st >>= stageJsonStatus sub p (st.fresh.getD orig) orig env

inductive Outcome where
  | ok (remaining : Option (List Fn)) (body : Option Obj)   -- `(patched_body, remaining_patch)`
  | gone                                                    -- 404: `(None, None)`
  | raised                                                  -- any other API error (422 on a merge-patch included): exception
  deriving Repr, Inhabited

structure Result where
  reqs : List Req
  server : Server
  outcome : Outcome
  deriving Repr, Inhabited

def finish (p : Patch) : M St → Result
  | .ok st => ⟨st.reqs, st.server, .ok none st.fresh⟩
  | .error (st, .gone) => ⟨st.reqs, st.server, .gone⟩
  | .error (st, .conflict) => ⟨st.reqs, st.server, .ok (some p.fns) st.fresh⟩
  | .error (st, .raised) => ⟨st.reqs, st.server, .raised⟩

/-- `patching.patch_obj(resource, namespace, name, patch)`; `orig` = `patch._original`,
    the body the patch was computed for. -/
def patchObj (sub : Bool) (p : Patch) (orig : Obj) (env : Env) (s : Server) : Result :=
  finish p (stageMerge sub p env ⟨s, [], none⟩ >>= stageJson sub p orig env)

/-! ## the next cycle -/

/-- `patches.Patch(memory.remaining_patch, body=body)`, then the cycle adds its fields and fns. -/
def nextPatch (remaining : Option (List Fn)) (fields : Kvs) (fns : List Fn) : Patch :=
  { fields := fields, fns := remaining.getD [] ++ fns }

def Patch.isEmpty (p : Patch) : Bool := p.fields.isEmpty && p.fns.isEmpty

/-- What `process_resource_event` keeps of a remaining patch: the framework's own finalizer edits
    are dropped (they are decided anew in every cycle), handler-supplied fns are carried;
    `Patch(fns=carried_fns) if carried_fns else None`. -/
def carried : Option (List Fn) → Option (List Fn)
  | none => none
  | some l =>
    if (l.filter (fun f => !f.isFramework)).isEmpty then none
    else some (l.filter (fun f => !f.isFramework))

/-- `memory.remaining_patch` after the call (unchanged when the call raises). `daemon = true`:
    `_daemon/_timer`, which carry everything (`patches.Patch(remaining_patch, body=body)`). -/
def memoryAfter (daemon : Bool) (mem : Option (List Fn)) : Outcome → Option (List Fn)
  | .ok rem _ => if daemon then rem else carried rem
  | .gone => none
  | .raised => mem

/-- One cycle's patching (`patch_and_check`: nothing is sent for an empty patch) and the remaining
    patch it leaves for the next one. -/
def cycleOf (daemon : Bool) (sub : Bool) (mem : Option (List Fn)) (fields : Kvs) (fns : List Fn) (orig : Obj)
    (env : Env) (s : Server) : Result × Option (List Fn) :=
  let p := nextPatch mem fields fns
  if p.isEmpty then (⟨[], s, .ok none none⟩, none)
  else (patchObj sub p orig env s, memoryAfter daemon mem (patchObj sub p orig env s).outcome)

/-- `memories.recall(raw_body)`: the per-object memory (and `remaining_patch` in it) is kept under the object's
    uid — a cycle for an object of another uid (the name re-used) does not see it. `prev`: the uid the memory
    `mem` belongs to (`none`: the first cycle, `mem` is its own). -/
def recalled (prev : Option Nat) (orig : Obj) (mem : Option (List Fn)) : Option (List Fn) :=
  match prev with
  | none => mem
  | some u => if u = orig.uid then mem else none

/-- `not patch.as_json_patch(body)` for a patch of fns only (`Patch(memory.remaining_patch, body=body)`): one
    application of the fns to the body yields no JSON-patch operation — neither on the finalizers nor on the
    status, the only places the model's fns write to. -/
def noOps (fns : List Fn) (body : Obj) : Bool :=
  !(finsChanged body (applyFns fns body)) && !(statusChanged body (applyFns fns body))

/-- 608a57d (taken back since), the head of `process_resource_event`:
    `if memory.remaining_patch is not None and not patch.as_json_patch(body): memory.remaining_patch = None;
    patch = Patch(body=body)` — carried fns that yield no operation on the body of the new cycle are fulfilled
    already (e.g. by the change they conflicted with) and are forgotten BEFORE the cycle: the cycle proceeds as
    a normal one (its patch starts empty, the handlers are not skipped). -/
def settled (mem : Option (List Fn)) (body : Obj) : Option (List Fn) :=
  match mem with
  | none => none
  | some l => if noOps l body then none else some l

/-- `process_resource_event`: the cycle's patch always starts from the memory (`Patch(memory.remaining_patch,
    body=body)`), fulfilled or not; the patching evaluates the fns on the freshest body it has. -/
def cycle := cycleOf false
/-- The variant of commit 608a57d (in /repo for a few hours, taken back by the rework that followed it; kept for
    the regression theorems): what `settled` leaves opens the cycle's patch; an exception leaves the memory as
    `settled` made it. -/
def cycleForgetting (sub : Bool) (mem : Option (List Fn)) (fields : Kvs) (fns : List Fn) (orig : Obj)
    (env : Env) (s : Server) : Result × Option (List Fn) :=
  cycleOf false sub (settled mem orig) fields fns orig env s
/-- `_daemon` / `_timer` -/
def daemonCycle := cycleOf true

/-- The call left nothing to retry: every request was accepted (`(body, None)`), or the object is gone. -/
def Outcome.accepted : Outcome → Bool
  | .ok none _ => true
  | .gone => true
  | _ => false

/-- what one processing cycle of an object brings along: the fields and fns it accumulates (handler
    results, progress, the framework's finalizer decision, handler-supplied fns), the event body it
    works on, and what the rest of the world does meanwhile -/
structure CycleIn where
  fields : Kvs
  fns : List Fn
  orig : Obj
  env : Env

/-- consecutive cycles of one object in `process_resource_event`: memory and server after them -/
def run (sub : Bool) : Option (List Fn) → Server → List CycleIn → Option (List Fn) × Server
  | mem, s, [] => (mem, s)
  | mem, s, c :: cs =>
      run sub (cycle sub mem c.fields c.fns c.orig c.env s).2 (cycle sub mem c.fields c.fns c.orig c.env s).1.server cs

/-- none of these cycles' calls was accepted (each was refused with a remaining patch, or raised) -/
def allRefused (sub : Bool) : Option (List Fn) → Server → List CycleIn → Bool
  | _, _, [] => true
  | mem, s, c :: cs =>
      !(cycle sub mem c.fields c.fns c.orig c.env s).1.outcome.accepted &&
      allRefused sub (cycle sub mem c.fields c.fns c.orig c.env s).2 (cycle sub mem c.fields c.fns c.orig c.env s).1.server cs

/-- Consecutive invocations of ONE daemon or timer on one object (`_daemon/_timer`): the patch of an
    invocation is the handler's own — `cause.patch` starts as a `Patch(body=live_body)` made for this daemon
    alone in `spawn_daemons`, and is replaced by `Patch(remaining_patch, body=body)` after every delivery — so
    what an invocation sends is what THIS invocation accumulated (`c.fields`, `c.fns`) plus what remained of
    this daemon's previous delivery; nothing of another daemon, timer or changing handler of the object. -/
def daemonRun (sub : Bool) : Option (List Fn) → Server → List CycleIn → List (CycleIn × Result) × Option (List Fn) × Server
  | mem, s, [] => ([], mem, s)
  | mem, s, c :: cs =>
      let r := daemonCycle sub mem c.fields c.fns c.orig c.env s
      let rest := daemonRun sub r.2 r.1.server cs
      ((c, r.1) :: rest.1, rest.2)

/-- The whole life of a daemon whose function returns after the invocations `cs` (`_daemon`): the loop
    `while not stopper.is_set() and not state.done` is left right after the delivery of the last invocation;
    `cause.patch = Patch(remaining_patch, body=body)` is assigned once more, but no further delivery follows.
    Result: the server as the daemon leaves it, and the remaining patch that is dropped with the task.
    (`_timer` leaves its loop only when it is stopped: its remaining patch waits for the next tick.) -/
def daemonLife (sub : Bool) (s : Server) (cs : List CycleIn) : Server × Option (List Fn) :=
  ((daemonRun sub none s cs).2.2, (daemonRun sub none s cs).2.1)

/-- What `patch_obj` hands back to its caller: `(patched_body, remaining_patch)`. A vanished object gives
    `(None, None)` — and so does a call that sent nothing at all (`patched_body` stays `None`). -/
def Outcome.returned : Outcome → Option (Option Obj × Option (List Fn))
  | .ok rem body => some (body, rem)
  | .gone => some (none, none)
  | .raised => none

/-! ### several daemons/timers of one object, interleaved

  Each daemon/timer `d` of an object owns ONE `Patch` object at a time (`spawn_daemons` makes one per handler;
  `_daemon/_timer` replace it by `Patch(remaining_patch, body=body)` after every delivery). A handler invocation
  mutates its own patch while it runs (`write`), possibly across awaits during which other daemons write to and
  deliver THEIR patches; after the invocation the runner delivers the patch (`deliver`). -/

structure DaemonsState where
  server : Server
  fields : String → Kvs          -- the dict part of the Patch object daemon `d` holds now
  fns : String → List Fn         -- its fns: what remained of `d`'s last delivery ++ what `d`'s invocation appended

inductive DLabel where
  /-- the running invocation of `d` mutates its patch: any change of the dict, some fns appended -/
  | write (d : String) (upd : Kvs → Kvs) (fns : List Fn)
  /-- `patch_and_check(patch=cause.patch, body=body)` + `cause.patch = Patch(remaining_patch, body=body)` -/
  | deliver (d : String) (orig : Obj) (env : Env)

def DLabel.daemon : DLabel → String
  | .write d _ _ => d
  | .deliver d _ _ => d

def setAt {α : Type} (f : String → α) (d : String) (v : α) : String → α := fun x => if x = d then v else f x

/-- one step; for a delivery also the patch that was handed to `patch_obj` and the result -/
def dstep (sub : Bool) (st : DaemonsState) : DLabel → DaemonsState × Option (Patch × Result)
  | .write d upd fns =>
      ({ st with fields := setAt st.fields d (upd (st.fields d)), fns := setAt st.fns d (st.fns d ++ fns) }, none)
  | .deliver d orig env =>
      let p : Patch := ⟨st.fields d, st.fns d⟩
      if p.isEmpty then (st, some (p, ⟨[], st.server, .ok none none⟩))      -- `if patch:` — nothing to send
      else
        let r := patchObj sub p orig env st.server
        match r.outcome with
        | .raised => ({ st with server := r.server }, some (p, r))          -- the exception leaves `cause.patch` as it is
        | .ok rem _ => ({ server := r.server, fields := setAt st.fields d [], fns := setAt st.fns d (rem.getD []) }, some (p, r))
        | .gone => ({ server := r.server, fields := setAt st.fields d [], fns := setAt st.fns d [] }, some (p, r))

def drun (sub : Bool) : DaemonsState → List DLabel → DaemonsState
  | st, [] => st
  | st, l :: ls => drun sub (dstep sub st l).1 ls

/-- what daemon `d`'s own invocation wrote, in order — the writes of the others and everybody else's
    deliveries skipped -/
def ownAcc (d : String) : Kvs × List Fn → List DLabel → Kvs × List Fn
  | a, [] => a
  | a, .write d' upd fns :: ls => if d' = d then ownAcc d (upd a.1, a.2 ++ fns) ls else ownAcc d a ls
  | a, .deliver _ _ _ :: ls => ownAcc d a ls

/-- quiet environment: no slips, no faults -/
def Env.quiet : Env := { slips := fun _ => [], faults := fun _ => .none }

/-! ## vocabulary of the property statements -/

/-- the leaves of a patch dict: paths to non-object values (`null` = removal). -/
inductive Leaf : Kvs → List String → J → Prop where
  | here {kvs : Kvs} {k : String} {v : J} : lookup k kvs = some v → v.isObj = false → Leaf kvs [k] v
  | deeper {kvs sub : Kvs} {k : String} {p : List String} {v : J} :
      lookup k kvs = some (obj sub) → Leaf sub p v → Leaf kvs (k :: p) v

/-- every field of the patch is in the body: removed fields are absent, set fields have the value. -/
def Delivered (p body : Kvs) : Prop :=
  ∀ path v, Leaf p path v →
    (v = null → resolve? (obj body) path = none) ∧ (v ≠ null → resolve? (obj body) path = some v)

end Kopf.C08
