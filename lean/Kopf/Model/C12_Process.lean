/-
  C12 model, part 4 — the composition the property is about: one processing cycle of an object
  (`processing.process_resource_event`) whose work ends with an API call of its own (the cycle's PATCH:
  `application.apply` → `patching.patch_obj` → `api.patch` → `api.request` under `@authenticated`),
  inside `async with throttlers.throttled(throttler=memory.error_throttler,
  delays=settings.queueing.error_delays, wakeup=stream_pressure)`. Core Lean only; built from parts 1 and 2.

  Mechanism mirrored (processing.py):
    async with throttled(...) as should_run:       -- no `errors=`: the default `Exception`
        if should_run:
            ... handlers ...                        -- (take no time here; their own errors are C02's subject)
            await application.apply(...)            -- the PATCH; an escalation of api.request propagates
  Every escalation of `api.request` is an `Exception` (errors.APIError and its subclasses,
  aiohttp.ClientError, asyncio.TimeoutError), never a BaseException: for `throttled()` it is an error
  of interest. A cycle that is not allowed to run makes no request at all.
-/
import Kopf.Model.C12_Request
import Kopf.Model.C12_Throttle
namespace Kopf.C12

/-- what the outcome of the cycle's API call is for `throttled()` -/
def apiBody : Outcome → Body
  | .ok => .success
  | .escalated _ => .error true

/-- the block of a cycle that (if it runs) makes one API call starting at `t1` against the fault
    script `script`: it takes as long as the call with all its retries, and ends as the call ends -/
def apiCycleIn (bo : Backoffs) (enforce : Bool) (script : List Att) (t1 : Int)
    (wake1 wake2 : Option Nat) : CycleIn :=
  let r := request bo enforce script t1
  ⟨apiBody r.outcome, false, (r.fin - t1).toNat, wake1, wake2⟩

structure PassOut where
  run : Option Run       -- the API call, if the cycle was allowed to run
  out : CycleOut         -- what `throttled()` made of it
  deriving Repr

/-- One processing cycle of an object that starts at `t` (its worker got an event): the 1st sleep
    of `throttled()` (the rest of an interrupted pause); if that completes, the call starts at once. -/
def processCycle (bo : Backoffs) (enforce : Bool) (cfg : Delays) (s : Throttler) (t : Int)
    (script : List Att) (wake1 wake2 : Option Nat) : PassOut :=
  let p := phase1 s t wake1
  let t1 := t + p.1
  ⟨if p.2.activeUntil.isNone then some (request bo enforce script t1) else none,
   cycle cfg s t (apiCycleIn bo enforce script t1 wake1 wake2)⟩

/-- the cycles of one object that were given an event each, at the times `t` (the environment — the
    object's worker — decides them), each with the fault script its API call meets -/
def processCycles (bo : Backoffs) (enforce : Bool) (cfg : Delays) :
    Throttler → List (Int × List Att × Option Nat × Option Nat) → List PassOut
  | _, [] => []
  | s, (t, script, w1, w2) :: rest =>
    let o := processCycle bo enforce cfg s t script w1 w2
    o :: processCycles bo enforce cfg o.out.st rest

end Kopf.C12
