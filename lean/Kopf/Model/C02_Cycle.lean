/-
  C02 model — one pass of `process_changing_cause` over the persisted handler progress:
  `State.from_storage → with_purpose → with_handlers → (extras: re-purpose + purge) →
   execute_handlers_once (awakened → lifecycle plan → pre-checks → invoke) → with_outcomes → store →
   (done: purge)`. The same `execOnce` is what `subhandling.execute` runs for sub-handlers.
  Time is integer ticks. Core Lean only.
-/
namespace Kopf.C02

abbrev Id := String
abbrev Tick := Int

/-- The persisted progress record, as far as any decision reads it
    (`stopped`/`message` are written but never read by the framework). -/
structure Rec where
  started : Tick
  delayed : Option Tick
  purpose : Option String
  retries : Nat
  success : Bool
  failure : Bool
  subrefs : List Id
  deriving DecidableEq, Repr, Inhabited

def Rec.finished (r : Rec) : Bool := r.success || r.failure

def Rec.sleeping (r : Rec) (now : Tick) : Bool :=
  !r.finished && (match r.delayed with | some d => decide (d > now) | none => false)

def Rec.awakened (r : Rec) (now : Tick) : Bool := !r.finished && !r.sleeping now

/-- In-memory `HandlerState`: the record, the `active` flag, and whether `store()` would write it
    (`as_in_storage() != _origin`: fresh states and changed ones). -/
structure HS where
  r : Rec
  active : Bool
  dirty : Bool
  deriving DecidableEq, Repr

/-- What one execution of a handler yields (`execution.Outcome`). -/
structure Outcome where
  final : Bool
  delay : Option Tick
  error : Bool
  subrefs : List Id
  deriving DecidableEq, Repr

structure Limits where
  timeout : Option Tick
  retries : Option Nat
  deriving DecidableEq, Repr

inductive Lifecycle where
  | allAtOnce | oneByOne | asap
  deriving DecidableEq, Repr

abbrev Store := Id → Option Rec      -- what the object carries (P)
abbrev St := Id → Option HS          -- `progression.State._states`

structure Cfg where
  owned : List Id            -- `get_resource_handlers(resource)`
  selected : List Id         -- `get_handlers(cause)`: registry order, deduplicated
  limits : Id → Limits
  reason : String
  lifecycle : Lifecycle

def fresh (now : Tick) (reason : String) : Rec :=
  { started := now, delayed := none, purpose := some reason, retries := 0,
    success := false, failure := false, subrefs := [] }

/-- `State.from_storage(handlers=owned)` -/
def fromStorage (P : Store) (owned : List Id) : St := fun i =>
  if i ∈ owned then (P i).map (fun r => { r := r, active := false, dirty := false }) else none

/-- `.with_handlers(cause_handlers)` (after `.with_purpose(reason)`, which only sets the state's purpose) -/
def withHandlers (st : St) (selected : List Id) (reason : String) (now : Tick) : St := fun i =>
  if i ∈ selected then
    match st i with
    | some h => some { h with active := true }
    | none => some { r := fresh now reason, active := true, dirty := true }
  else st i

/-- `state.extras` is non-empty: some known state carries another (non-None) purpose. -/
def hasExtras (st : St) (ids : List Id) (reason : String) : Bool :=
  ids.any (fun i => match st i with
    | some h => h.r.purpose != none && h.r.purpose != some reason
    | none => false)

/-- `state.with_purpose(reason, handlers=cause_handlers)` -/
def repurpose (st : St) (selected : List Id) (reason : String) : St := fun i =>
  if i ∈ selected then
    match st i with
    | some h => some { h with r := { h.r with purpose := some reason },
                              dirty := h.dirty || h.r.purpose != some reason }
    | none => none
  else st i

/-- all sub-handler references recorded in the states of `ids` -/
def allSubrefs (st : St) (ids : List Id) : List Id :=
  ids.flatMap (fun i => match st i with | some h => h.r.subrefs | none => [])

/-- `state.purge(handlers=owned)`: owned ids, any other known state id, and all their subrefs. -/
def purge (P : Store) (st : St) (owned known : List Id) : Store := fun i =>
  if i ∈ owned || (known.any (fun k => k == i && (st k).isSome)) || i ∈ allSubrefs st known then none else P i

/-- the states that fell out of the current purpose (they carry another, non-empty one) -/
def fallen (st : St) (ids : List Id) (reason : String) : List Id :=
  ids.filter (fun i => match st i with
    | some h => h.r.purpose != none && h.r.purpose != some reason
    | none => false)

/-- The purge of a superseded cause's leftovers (/repo C02-F1 repair): only the handlers that fell out of the
    current purpose, with their sub-handlers; the re-purposed ones continue their series and keep their
    children's progress. -/
def purgeFallen (P : Store) (st : St) (ids : List Id) (reason : String) : Store := fun i =>
  if i ∈ fallen st ids reason || i ∈ allSubrefs st (fallen st ids reason) then none else P i

/-- pre-call checks of `execute_handler_once` (timeout first, then retries) -/
def precheckFails (l : Limits) (r : Rec) (now : Tick) : Bool :=
  (match l.timeout with | some t => decide (now - r.started ≥ t) | none => false) ||
  (match l.retries with | some n => decide (r.retries ≥ n) | none => false)

def retriesOf (st : St) (i : Id) : Nat := match st i with | some h => h.r.retries | none => 0

/-- first element with the minimal `retries` — `sorted(handlers, key=retries)[:1]` (Python's sort is stable). -/
def firstMin (st : St) : List Id → Option Id
  | [] => none
  | x :: xs =>
      match firstMin st xs with
      | none => some x
      | some y => if retriesOf st x ≤ retriesOf st y then some x else some y

/-- `lifecycle(handlers_todo, state=state)` for the three deterministic lifecycles. -/
def plan (lc : Lifecycle) (st : St) (todo : List Id) : List Id :=
  match lc with
  | .allAtOnce => todo
  | .oneByOne => todo.take 1
  | .asap => (firstMin st todo).toList

/-- `HandlerState.with_outcome` at time `now1` -/
def withOutcome (r : Rec) (o : Outcome) (now1 : Tick) : Rec :=
  { r with
    delayed := o.delay.map (fun d => now1 + d),
    success := o.final && !o.error,
    failure := o.final && o.error,
    retries := r.retries + 1,
    subrefs := (r.subrefs ++ o.subrefs).eraseDups }

/-- The timeout/retries outcome produced without invoking the handler. -/
def precheckOutcome : Outcome := { final := true, delay := none, error := true, subrefs := [] }

structure ExecResult where
  invoked : List (Id × Nat)       -- (handler id, `retry` kwarg)
  st : St

/-- `execute_handlers_once` + `with_outcomes`: `exec i retry` is what invoking handler `i` yields. -/
def execOnce (cfg : Cfg) (st : St) (now now1 : Tick) (exec : Id → Nat → Outcome) : ExecResult :=
  let todo := cfg.selected.filter (fun i => match st i with | some h => h.r.awakened now | none => false)
  let pl := plan cfg.lifecycle st todo
  let ran := pl.filter (fun i => match st i with
    | some h => !precheckFails (cfg.limits i) h.r now | none => false)
  let st' : St := fun i =>
    if i ∈ pl then
      match st i with
      | some h =>
          let o := if precheckFails (cfg.limits i) h.r now then precheckOutcome else exec i h.r.retries
          some { h with r := withOutcome h.r o now1, dirty := true }
      | none => none
    else st i
  { invoked := ran.map (fun i => (i, retriesOf st i)), st := st' }

/-- `state.store`: write every state that differs from what was fetched. -/
def store (P : Store) (st : St) : Store := fun i =>
  match st i with
  | some h => if h.dirty then some h.r else P i
  | none => P i

/-- `state.done`: all active states finished. -/
def done (st : St) (ids : List Id) : Bool :=
  ids.all (fun i => match st i with | some h => !h.active || h.r.finished | none => true)

def delays (st : St) (ids : List Id) (now2 : Tick) : List Tick :=
  ids.filterMap (fun i => match st i with
    | some h => if h.active && !h.r.finished then
        some (match h.r.delayed with | some d => max 0 (d - now2) | none => 0) else none
    | none => none)

structure CycleResult where
  invoked : List (Id × Nat)
  P' : Store
  closed : Bool          -- `done or skip`: diff-base written, `fully_handled_once` set
  delays : List Tick

def handlerReasons : List String := ["create", "update", "delete", "resume"]

/-- the ids any state can exist for in one top-level pass -/
def known (cfg : Cfg) : List Id := cfg.owned ++ cfg.selected

/-- `process_changing_cause` as far as progress is concerned. -/
def cycle (cfg : Cfg) (P : Store) (now now1 : Tick) (exec : Id → Nat → Outcome) : CycleResult :=
  if !handlerReasons.contains cfg.reason then
    -- Informational causes invoke nothing. On a no-op (nothing changed since the last handled state,
    -- nothing to resume) whatever progress records the owned handlers left behind belong to a change
    -- that was reverted meanwhile: they are purged (fix d1b2dc4). GONE leaves the object alone. (FREE purges like the
    -- no-op since /repo 40d09eb: that is in the whole pass `cycleB` below — this function, the pass over the records
    -- taken over, is kept as it is for the lemmas of C14/C15 that are stated over it.)
    { invoked := [],
      P' := if cfg.reason == "noop" then purge P (fromStorage P cfg.owned) cfg.owned cfg.owned else P,
      closed := false, delays := [] }
  else
    let st0 := withHandlers (fromStorage P cfg.owned) cfg.selected cfg.reason now
    let ex := hasExtras st0 (known cfg) cfg.reason
    -- the selected handlers are re-purposed if anything carries another purpose; the purge happens only
    -- if something still does AFTERWARDS ("extras are recalculated!"): i.e. a record of a handler that
    -- is not selected any more — and it removes those records (and their sub-handlers') only
    let st1 := if ex then repurpose st0 cfg.selected cfg.reason else st0
    let P1 := if hasExtras st1 (known cfg) cfg.reason then purgeFallen P st1 (known cfg) cfg.reason else P
    if cfg.selected.isEmpty then
      -- the `skip` path: nothing to run; the cycle is closed and whatever records the owned
      -- handlers left behind (they are not selected any more) are purged with it
      { invoked := [], P' := purge P1 st1 cfg.owned (known cfg), closed := true, delays := [] }
    else
      let r := execOnce cfg st1 now now1 exec
      let P2 := store P1 r.st
      let d := done r.st (known cfg)
      let P3 := if d then purge P2 r.st cfg.owned (known cfg) else P2
      { invoked := r.invoked, P' := P3, closed := d, delays := delays r.st (known cfg).eraseDups now1 }

/-- The ids whose outcome in this pass is final (success, permanent failure, or the timeout/retries
    outcome produced without invoking): `[id for id in outcomes if outcomes[id].final]`.
    The same pipeline as `cycle`, kept apart so that `CycleResult` stays as it is. -/
def cycleFinals (cfg : Cfg) (P : Store) (now : Tick) (exec : Id → Nat → Outcome) : List Id :=
  if !handlerReasons.contains cfg.reason || cfg.selected.isEmpty then []
  else
    let st0 := withHandlers (fromStorage P cfg.owned) cfg.selected cfg.reason now
    let st1 := if hasExtras st0 (known cfg) cfg.reason then repurpose st0 cfg.selected cfg.reason else st0
    let todo := cfg.selected.filter (fun i => match st1 i with | some h => h.r.awakened now | none => false)
    (plan cfg.lifecycle st1 todo).filter (fun i => match st1 i with
      | some h => (if precheckFails (cfg.limits i) h.r now then precheckOutcome else exec i h.r.retries).final
      | none => false)

/-! ### Sub-handlers: `subhandling.execute()`

Run from inside an invoked parent handler (explicitly, or implicitly when the parent's function returns)
over the sub-handlers the parent has registered: `State.from_storage(body, owned) → with_purpose(reason)`
(no re-purposing of records) `→ with_handlers(selected) → execute_handlers_once → with_outcomes → store`,
then every key of that state is added to the parent's `subrefs`, and `HandlerChildrenRetry(delay=state.delay)`
is raised unless `state.done`. `execute_handler_once` turns that into the parent's outcome: a non-final
retry with that delay, or (the function returning normally) a success. -/

/-- `state.delay`: the soonest of the pending delays. -/
def minDelay : List Tick → Option Tick
  | [] => none
  | x :: xs => some (xs.foldl min x)

structure SubResult where
  invoked : List (Id × Nat)
  st : St                  -- the sub-state after `with_outcomes`
  P' : Store               -- the records after `state.store`
  outcome : Outcome        -- the parent's outcome, its own function raising nothing

def subPass (cfg : Cfg) (P : Store) (now now1 : Tick) (exec : Id → Nat → Outcome) : SubResult :=
  let st0 := withHandlers (fromStorage P cfg.owned) cfg.selected cfg.reason now
  let r := execOnce cfg st0 now now1 exec
  let keys := (known cfg).eraseDups.filter (fun i => (r.st i).isSome)
  let d := done r.st (known cfg)
  { invoked := r.invoked, st := r.st, P' := store P r.st,
    outcome := { final := d, error := !d, subrefs := keys,
                 delay := if d then none else minDelay (delays r.st (known cfg).eraseDups now1) } }

/-! ### A pass together with the sub-passes of its parents (one level)

`cycle` treats what a handler yields as given (`exec`). For a parent that runs sub-handlers the outcome is
produced by `subPass`, which reads the children's records from the SAME body `P` (not from the patch) and
writes their records into the SAME patch, after the top-level purge of a superseded cause and before the
top-level store and the closing purge. `cycle2` composes the two on one store. -/

/-- The sub-handlers a parent registers when its function runs in this pass (`kopf.execute(fns=…)`;
    `[]` = the parent runs no children this time), and their limits. -/
structure SubReg where
  children : Id → List Id
  limits : Id → Limits

def subCfgOf (cfg : Cfg) (sub : SubReg) (p : Id) : Cfg :=
  { owned := sub.children p, selected := sub.children p, limits := sub.limits,
    reason := cfg.reason, lifecycle := cfg.lifecycle }

/-- what invoking top-level handler `i` yields: its own outcome, or its sub-pass's -/
def execTop (cfg : Cfg) (sub : SubReg) (P : Store) (now : Tick) (execLeaf : Id → Nat → Outcome) : Id → Nat → Outcome :=
  fun i n => if (sub.children i).isEmpty then execLeaf i n
             else (subPass (subCfgOf cfg sub i) P now now execLeaf).outcome

/-- the children's records written by the sub-passes of the parents invoked in this pass, over `base` -/
def subWrites (cfg : Cfg) (sub : SubReg) (P : Store) (now : Tick) (execLeaf : Id → Nat → Outcome)
    (parents : List Id) (base : Store) : Store :=
  parents.foldl (fun acc p =>
    if (sub.children p).isEmpty then acc
    else fun i => if i ∈ sub.children p then (store acc (subPass (subCfgOf cfg sub p) P now now execLeaf).st) i else acc i) base

structure Cycle2Result where
  invoked : List (Id × Nat)            -- top-level invocations
  subInvoked : List (Id × Nat)         -- children invoked by the sub-passes, in order
  P' : Store
  closed : Bool

/-- `process_changing_cause` with the sub-passes of the invoked parents, for handler reasons with a selection
    (the other branches of `cycle` involve no handler code). One clock for the whole pass. -/
def cycle2 (cfg : Cfg) (sub : SubReg) (P : Store) (now : Tick) (execLeaf : Id → Nat → Outcome) : Cycle2Result :=
  let st0 := withHandlers (fromStorage P cfg.owned) cfg.selected cfg.reason now
  let st1 := if hasExtras st0 (known cfg) cfg.reason then repurpose st0 cfg.selected cfg.reason else st0
  let P1 := if hasExtras st1 (known cfg) cfg.reason then purgeFallen P st1 (known cfg) cfg.reason else P
  let r := execOnce cfg st1 now now (execTop cfg sub P now execLeaf)
  let parents := r.invoked.map (·.1)
  let P1s := subWrites cfg sub P now execLeaf parents P1
  let P2 := store P1s r.st
  let d := done r.st (known cfg)
  let P3 := if d then purge P2 r.st cfg.owned (known cfg) else P2
  { invoked := r.invoked,
    subInvoked := parents.flatMap (fun p =>
      if (sub.children p).isEmpty then [] else (subPass (subCfgOf cfg sub p) P now now execLeaf).invoked),
    P' := P3, closed := d }

/-! ### One id registered for several causes (/repo f7d6401)

Progress records are keyed by the handler id only. One function registered under one id for several causes
(stacked decorators, e.g. `@kopf.on.update` + `@kopf.on.delete`) is several handlers with ONE record. Since f7d6401,
before the state is re-purposed, `process_changing_cause` leaves out the loaded records of the selected handlers that
are declared for the current reason (`handler.reason is not None`: on.create / on.update / on.delete; NOT the mix-in
handlers — resuming and field handlers have no reason of their own) but carry another purpose: such a handler has
not run for this cause, it starts from scratch (`with_handlers` gives it a fresh state, which `store` writes over the
stale record). The record is left out WITH its `subrefs`.

`cycle` above is the pass as a function of the records it takes over — the whole pass for a registry in which no
selected handler is reason-bound (`cycleB_unbound`), and the whole pass as it was before f7d6401 (`bound` ignored:
every selected handler inherits). `cycleB` is the whole pass as it is now; `taken` says which records it takes over
(`Kopf.C02.cycleB_eq_cycle_taken`: `cycleB cfg bound P = cycle cfg (taken cfg bound P)` for every cause but FREE,
whose purge (40d09eb) `cycleB` has and `cycle` has not: `Kopf.C02.cycleB_free`). -/

/-- the record belongs to another cause: `purpose not in (None, cause.reason.value)` -/
def Rec.foreignTo (r : Rec) (reason : String) : Bool := r.purpose != none && r.purpose != some reason

/-- `handler.id in namesake_ids`: `bound i` = the selected handler `i` has a reason of its own -/
def isNamesake (cfg : Cfg) (bound : Id → Bool) (st : St) (i : Id) : Bool :=
  decide (i ∈ cfg.selected) && bound i && (match st i with | some h => h.r.foreignTo cfg.reason | none => false)

/-- `State({id: state[id] for id in state if id not in namesake_ids})` -/
def dropNamesakes (cfg : Cfg) (bound : Id → Bool) (st : St) : St := fun i =>
  if isNamesake cfg bound st i then none else st i

/-- `process_changing_cause` for a handler reason, from the loaded state `stS` on (`cycle`'s main branch with the
    loaded state as a parameter; `P` is what the object carries, i.e. what stays where the patch writes nothing). -/
def cycleFrom (cfg : Cfg) (stS : St) (P : Store) (now now1 : Tick) (exec : Id → Nat → Outcome) : CycleResult :=
  let st0 := withHandlers stS cfg.selected cfg.reason now
  let ex := hasExtras st0 (known cfg) cfg.reason
  let st1 := if ex then repurpose st0 cfg.selected cfg.reason else st0
  let P1 := if hasExtras st1 (known cfg) cfg.reason then purgeFallen P st1 (known cfg) cfg.reason else P
  if cfg.selected.isEmpty then
    { invoked := [], P' := purge P1 st1 cfg.owned (known cfg), closed := true, delays := [] }
  else
    let r := execOnce cfg st1 now now1 exec
    let P2 := store P1 r.st
    let d := done r.st (known cfg)
    let P3 := if d then purge P2 r.st cfg.owned (known cfg) else P2
    { invoked := r.invoked, P' := P3, closed := d, delays := delays r.st (known cfg).eraseDups now1 }

/-- `process_changing_cause` as the code has it now — THE WHOLE PASS:
    * cause FREE (an object in deletion that the own finalizer does not hold and somebody else's does; /repo 40d09eb):
      no handler runs, nothing is closed, and — like the no-op — whatever progress records the owned handlers (and, by
      their `subrefs`, their sub-handlers) left behind are purged: `State.from_storage(owned).purge(owned)`;
    * the other informational causes as in `cycle` (NOOP purges the same way, GONE leaves everything);
    * a handler reason (/repo f7d6401): the namesakes' records are left out of the loaded state before anything else. -/
def cycleB (cfg : Cfg) (bound : Id → Bool) (P : Store) (now now1 : Tick) (exec : Id → Nat → Outcome) : CycleResult :=
  if cfg.reason == "free" then
    { invoked := [], P' := purge P (fromStorage P cfg.owned) cfg.owned cfg.owned, closed := false, delays := [] }
  else if !handlerReasons.contains cfg.reason then cycle cfg P now now1 exec
  else cycleFrom cfg (dropNamesakes cfg bound (fromStorage P cfg.owned)) P now now1 exec

/-- the stored record of `i` is a namesake's: left out when the pass of a handler reason builds its state -/
def leftOut (cfg : Cfg) (bound : Id → Bool) (P : Store) (i : Id) : Bool :=
  handlerReasons.contains cfg.reason && decide (i ∈ cfg.owned) && decide (i ∈ cfg.selected) && bound i &&
    (match P i with | some r => r.foreignTo cfg.reason | none => false)

/-- The records the pass takes over: everything but the namesakes' (for a handler reason). -/
def taken (cfg : Cfg) (bound : Id → Bool) (P : Store) : Store := fun i =>
  if leftOut cfg bound P i then none else P i

/-- `cycleFinals` as of f7d6401 -/
def cycleFinalsB (cfg : Cfg) (bound : Id → Bool) (P : Store) (now : Tick) (exec : Id → Nat → Outcome) : List Id :=
  if !handlerReasons.contains cfg.reason || cfg.selected.isEmpty then []
  else
    let st0 := withHandlers (dropNamesakes cfg bound (fromStorage P cfg.owned)) cfg.selected cfg.reason now
    let st1 := if hasExtras st0 (known cfg) cfg.reason then repurpose st0 cfg.selected cfg.reason else st0
    let todo := cfg.selected.filter (fun i => match st1 i with | some h => h.r.awakened now | none => false)
    (plan cfg.lifecycle st1 todo).filter (fun i => match st1 i with
      | some h => (if precheckFails (cfg.limits i) h.r now then precheckOutcome else exec i h.r.retries).final
      | none => false)

/-- `cycle2` as of f7d6401: the top-level state is built without the namesakes' records; the sub-passes read the
    children's records from the body `P` as before (`subhandling.execute` leaves nothing out: sub-handlers have no
    reason of their own). -/
def cycle2B (cfg : Cfg) (bound : Id → Bool) (sub : SubReg) (P : Store) (now : Tick)
    (execLeaf : Id → Nat → Outcome) : Cycle2Result :=
  let st0 := withHandlers (dropNamesakes cfg bound (fromStorage P cfg.owned)) cfg.selected cfg.reason now
  let st1 := if hasExtras st0 (known cfg) cfg.reason then repurpose st0 cfg.selected cfg.reason else st0
  let P1 := if hasExtras st1 (known cfg) cfg.reason then purgeFallen P st1 (known cfg) cfg.reason else P
  let r := execOnce cfg st1 now now (execTop cfg sub P now execLeaf)
  let parents := r.invoked.map (·.1)
  let P1s := subWrites cfg sub P now execLeaf parents P1
  let P2 := store P1s r.st
  let d := done r.st (known cfg)
  let P3 := if d then purge P2 r.st cfg.owned (known cfg) else P2
  { invoked := r.invoked,
    subInvoked := parents.flatMap (fun p =>
      if (sub.children p).isEmpty then [] else (subPass (subCfgOf cfg sub p) P now now execLeaf).invoked),
    P' := P3, closed := d }

/-! ### Predicates used in the property statements -/

/-- No stored record of an owned handler carries a purpose other than the current reason
    (the state a handling cycle is in from its second pass on, and after any closed cycle). -/
def NoExtras (cfg : Cfg) (P : Store) : Prop :=
  ∀ i ∈ cfg.owned, ∀ r, P i = some r → r.purpose = none ∨ r.purpose = some cfg.reason

/-- All stored records of the owned handlers carry the same purpose (what every pass leaves behind). -/
def UniformOn (owned : List Id) (P : Store) : Prop :=
  ∃ p : String, ∀ i ∈ owned, ∀ r, P i = some r → r.purpose = some p

end Kopf.C02
