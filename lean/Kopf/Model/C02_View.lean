/-
  C02 model — WHICH view of the object a handling pass is given after the operator's own progress-storing write.

  `cycle cfg P …` (C02_Cycle) is a function of the records `P` on the view the pass is given. After a pass has patched its
  handlers' progress, queueing.worker keeps the version the server returned for that PATCH (`expected_version`) and lets the
  state-dependent handlers run again only on the event for which
      expected_version == get_version(raw_event)
  holds (or after `consistency_timeout`): views queued in between — somebody else's writes made while the handlers ran —
  get the low-level part of the processing only. A resourceVersion is an opaque string for a client; here a version is its
  position in the server's own order (`Nat`), and the worker's test is a parameter `m seen expected`:
    * `mEq`  — kopf: equality;
    * `mStr` — seeded change C02h (= C07g's line inside the worker): Python's `seen >= expected` on the two STRINGS, the
               lexicographic order of the decimal digits — the numeric order only between numbers of the same width.
  `Sound m` — whatever `m` accepts is not older than the expected version. Core Lean only.
-/
import Kopf.Model.C02_Cycle
namespace Kopf.C02

/-- One event of the object's stream as the worker dequeues it: the version and the records that version carries. -/
structure View where
  ver : Nat
  P : Store

/-- `if expected_version is not None and <m (get_version raw_event) expected_version>`: with the expectation `e` armed, the
    view is taken for consistent — the expectation is dropped and the state-dependent handlers run on it. -/
def gate (m : Nat → Nat → Bool) (e : Nat) (v : View) : Bool := m v.ver e

/-- The first queued view the handlers run on before the consistency timeout. -/
def admitted (m : Nat → Nat → Bool) (e : Nat) (q : List View) : Option View := q.find? (gate m e)

/-- kopf's test: the very version. -/
def mEq (u e : Nat) : Bool := decide (u = e)

/-- Decimal digits, most significant first (`fuel` > number of digits). -/
def digitsAux : Nat → Nat → List Nat → List Nat
  | 0, _, acc => acc
  | fuel + 1, n, acc => if n < 10 then n :: acc else digitsAux fuel (n / 10) (n % 10 :: acc)

def digits (n : Nat) : List Nat := digitsAux (n + 1) n []

/-- Python's `<` on two strings of digits: lexicographic, a proper prefix is smaller. -/
def lexLt : List Nat → List Nat → Bool
  | [], [] => false
  | [], _ :: _ => true
  | _ :: _, [] => false
  | a :: as, b :: bs => decide (a < b) || (decide (a = b) && lexLt as bs)

/-- The seeded change: `seen >= expected` on the strings. -/
def mStr (u e : Nat) : Bool := !lexLt (digits u) (digits e)

/-- What a test must guarantee: a version it accepts is not older than the expected one. -/
def Sound (m : Nat → Nat → Bool) : Prop := ∀ u e, m u e = true → e ≤ u

/-- The stream behind the own write `e` that stored the records `W`: the other writers leave the framework's records alone,
    and the worker (one per object) makes no other write meanwhile — every version from `e` on carries `W`. The OLDER
    versions still queued (foreign writes made while the handlers ran) carry whatever they carry. -/
def CarriesFrom (e : Nat) (W : Store) (q : List View) : Prop := ∀ v ∈ q, e ≤ v.ver → v.P = W

end Kopf.C02
