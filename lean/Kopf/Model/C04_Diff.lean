/-
  C04 — model of `kopf/_cogs/structs/diffs.py`: `diff_iter`, `reduce_iter`, and an applier.

  `diff` mirrors `diff_iter(a, b, path, scope=FULL)`:
    * `case a, b if _same(a, b): pass`      — JSON equality (`same`: bool ≠ number, dicts unordered);
    * `case None, _: ADD`, `case _, None: REMOVE`;
    * two mappings: keys only in `b` (`diff_iter(None, b[k])`), keys only in `a`
      (`diff_iter(a[k], None)`), common keys (recursion)   — three loops, in that order;
    * anything else: CHANGE (lists are never recursed into).
  `frozenset` iteration order is arbitrary in Python; the model iterates in document order and the
  harness compares sorted item lists.
-/
import Kopf.Base.J
import Kopf.Base.Merge
namespace Kopf.C04
open Kopf Kopf.J

abbrev Path := List String

mutual
  /-- `diffs._same` (kopf 6b2e53c): equality as JSON values — as Python `==` on parsed JSON (dicts
      compare as unordered maps, lists item by item), except that a boolean never equals a number.
      (Numbers are integers here; `1 == 1.0` is outside the model.) -/
  def same : J → J → Bool
    | .null, .null => true
    | .bool a, .bool b => a == b
    | .num a, .num b => a == b
    | .str a, .str b => a == b
    | .arr a, .arr b => sameList a b
    | .obj a, .obj b => a.length == b.length && sameSub a b
    | _, _ => false
  def sameList : List J → List J → Bool
    | [], [] => true
    | x :: xs, y :: ys => same x y && sameList xs ys
    | _, _ => false
  /-- every binding of `a` has a `same` binding in `b` (for unique keys and equal lengths: the dicts are equal). -/
  def sameSub : List (String × J) → List (String × J) → Bool
    | [], _ => true
    | (k, x) :: xs, b =>
        (match lookup k b with
         | some y => same x y
         | none => false) && sameSub xs b
end

inductive Op where
  | add | change | remove
  deriving DecidableEq, Repr

structure Item where
  op : Op
  path : Path
  old : J
  new : J

/-- `diff_iter(None, y, path)`: nothing when `y is None` (then `a == b`), else ADD. -/
def addItem (p : Path) (y : J) : List Item :=
  match y with
  | .null => []
  | y => [⟨.add, p, .null, y⟩]

/-- `diff_iter(x, None, path)`: nothing when `x is None`, else REMOVE. -/
def removeItem (p : Path) (x : J) : List Item :=
  match x with
  | .null => []
  | x => [⟨.remove, p, x, .null⟩]

/-- the non-recursive cases of `diff_iter` (at least one side is not a mapping). -/
def diffLeaf (a b : J) (p : Path) : List Item :=
  if same a b then [] else
  match a, b with
  | .null, b => [⟨.add, p, .null, b⟩]
  | a, .null => [⟨.remove, p, a, .null⟩]
  | a, b => [⟨.change, p, a, b⟩]

/-- `for key in b_keys - a_keys: yield from diff_iter(None, b[key], path+(key,))` -/
def diffAdded (ka : List (String × J)) : List (String × J) → Path → List Item
  | [], _ => []
  | (k, y) :: rest, p =>
      (match lookup k ka with
       | none => addItem (p ++ [k]) y
       | some _ => []) ++ diffAdded ka rest p

/-- `for key in a_keys - b_keys: yield from diff_iter(a[key], None, path+(key,))` -/
def diffRemoved : List (String × J) → List (String × J) → Path → List Item
  | [], _, _ => []
  | (k, x) :: rest, kb, p =>
      (match lookup k kb with
       | none => removeItem (p ++ [k]) x
       | some _ => []) ++ diffRemoved rest kb p

mutual
  /-- `diffs.diff_iter(a, b, path)` with the full scope. -/
  def diff : J → J → Path → List Item
    | .obj ka, .obj kb, p =>
        if same (.obj ka) (.obj kb) then []
        else diffAdded ka kb p ++ diffRemoved ka kb p ++ diffCommon ka kb p
    | a, b, p => diffLeaf a b p
  /-- `for key in a_keys & b_keys: yield from diff_iter(a[key], b[key], path+(key,))` -/
  def diffCommon : List (String × J) → List (String × J) → Path → List Item
    | [], _, _ => []
    | (k, x) :: rest, kb, p =>
        (match lookup k kb with
         | some y => diff x y (p ++ [k])
         | none => []) ++ diffCommon rest kb p
end

/-- one iteration of `reduce_iter`'s loop. -/
def reduceItem (path : Path) (it : Item) : List Item :=
  if path = [] then [it]
  else if it.path.take path.length = path then
    [{ it with path := it.path.drop path.length }]
  else if it.path = path.take it.path.length then
    let tail := path.drop it.path.length
    diff (resolveD it.old tail) (resolveD it.new tail) []
  else []

/-- `diffs.reduce(d, path)` -/
def reduce (d : List Item) (path : Path) : List Item :=
  d.flatMap (reduceItem path)

/-! ### applying a diff (the specification side of "applying diff to old yields new") -/

/-- set the value at a path, creating missing parents (a non-mapping parent is replaced). -/
def setPath : J → Path → J → J
  | _, [], v => v
  | .obj kvs, k :: ks, v => .obj (insert k (setPath ((lookup k kvs).getD (.obj [])) ks v) kvs)
  | _, k :: ks, v => .obj [(k, setPath (.obj []) ks v)]

/-- delete the key at a path (absent: nothing to do); the root can only become `null`. -/
def delPath : J → Path → J
  | _, [] => .null
  | .obj kvs, [k] => .obj (erase k kvs)
  | .obj kvs, k :: k2 :: ks =>
      match lookup k kvs with
      | some c => .obj (insert k (delPath c (k2 :: ks)) kvs)
      | none => .obj kvs
  | j, _ :: _ => j

def applyItem (j : J) (it : Item) : J :=
  match it.op with
  | .remove => delPath j it.path
  | _ => setPath j it.path it.new

def applyDiff (d : List Item) (j : J) : J := d.foldl applyItem j

end Kopf.C04
