/-
  C19 model, part 6 — which of the selected resources are served: `observation.revise_resources` ends with

      watched_selectors = indexing | watching | spawning | changing        # all resource-related handlers
      patched_selectors =                       spawning | changing        # daemons/timers, on.create/update/delete/resume
      …
      _disable_unsuitable_resources(resources=insights.watched_resources, selectors=patched_selectors)

      def _disable_unsuitable_resources(*, resources, selectors):
          nonwatchable_resources = {r for r in resources if 'watch' not in r.verbs or 'list' not in r.verbs}
          nonpatchable_resources = {r for r in resources if 'patch' not in r.verbs} - nonwatchable_resources
          nonpatchable_resources = {r for selector in selectors                       # kopf bde2793
                                      for r in selector.select(nonpatchable_resources)}
          if nonwatchable_resources: (warn) resources.difference_update(nonwatchable_resources)
          if nonpatchable_resources: (warn) resources.difference_update(nonpatchable_resources)

      def Selector.select(self, resources):
          result = {r for r in resources if self.check(r)}
          if self.is_specific:                       # anything but a category / EVERYTHING / a callable
              v1only = {r for r in result if r.group == ''}
              result = v1only or result              # the core group hides the others
          return result

  Before bde2793: `patching_required = any(selector.select(nonpatchable_resources) for selector in selectors)` and
  then ALL of `nonpatchable_resources` were dropped (`disableUnsuitableOld`).
  A selector is its `check` predicate and its `is_specific` flag (`check` itself — names, categories, versions — is
  C05/C15's ground and not modelled: the tie feeds the real verdicts). Sets are lists; theorems are about membership.
  Core Lean only.
-/
namespace Kopf.C19.Rsc

/-- a discovered resource: identity (group, version, plural) and what `_disable_unsuitable_resources` reads of it -/
structure Res where
  id : Nat
  core : Bool        -- group == ''
  canList : Bool     -- 'list' in verbs
  canWatch : Bool    -- 'watch' in verbs
  canPatch : Bool    -- 'patch' in verbs
  deriving DecidableEq, Repr

structure Sel where
  specific : Bool
  check : Res → Bool

/-- `Selector.select` -/
def Sel.select (s : Sel) (rs : List Res) : List Res :=
  let result := rs.filter s.check
  if s.specific then
    let v1only := result.filter (·.core)
    if v1only.isEmpty then result else v1only
  else result

def Res.watchable (r : Res) : Bool := r.canWatch && r.canList

/-- `nonwatchable_resources` -/
def nonwatchable (rs : List Res) : List Res := rs.filter (fun r => !r.canWatch || !r.canList)

/-- the first `nonpatchable_resources`: without `patch`, minus the non-watchable ones -/
def readOnly (rs : List Res) : List Res :=
  (rs.filter (fun r => !r.canPatch)).filter (fun r => !(nonwatchable rs).contains r)

/-- the second `nonpatchable_resources` (kopf bde2793): those of them that a patching selector selects -/
def needPatch (rs : List Res) (sels : List Sel) : List Res := sels.flatMap (fun s => s.select (readOnly rs))

/-- `_disable_unsuitable_resources`: what is left in `resources` (an empty `difference_update` is no update) -/
def disableUnsuitable (rs : List Res) (sels : List Sel) : List Res :=
  (rs.filter (fun r => !(nonwatchable rs).contains r)).filter (fun r => !(needPatch rs sels).contains r)

/-- the function before kopf bde2793 -/
def disableUnsuitableOld (rs : List Res) (sels : List Sel) : List Res :=
  let rs1 := rs.filter (fun r => !(nonwatchable rs).contains r)
  if !(readOnly rs).isEmpty && sels.any (fun s => !(s.select (readOnly rs)).isEmpty)
  then rs1.filter (fun r => !(readOnly rs).contains r) else rs1

/-! ### The split per handler kind (`revise_resources`) -/

inductive HKind where
  | indexing   -- @kopf.index
  | watching   -- @kopf.on.event
  | spawning   -- @kopf.daemon, @kopf.timer
  | changing   -- @kopf.on.create/update/delete/resume/field
  deriving DecidableEq, Repr

structure Handler where
  kind : HKind
  sel : Sel

/-- which registries make up `patched_selectors` -/
structure PatchKinds where
  indexing : Bool
  watching : Bool
  spawning : Bool
  changing : Bool
  deriving DecidableEq, Repr

/-- the code's choice: `registry._spawning.get_all_selectors() | registry._changing.get_all_selectors()` -/
def patchKinds : PatchKinds := ⟨false, false, true, true⟩

def PatchKinds.has (p : PatchKinds) : HKind → Bool
  | .indexing => p.indexing | .watching => p.watching | .spawning => p.spawning | .changing => p.changing

/-- `patched_selectors` -/
def patchedSelectors (p : PatchKinds) (hs : List Handler) : List Sel := (hs.filter (fun h => p.has h.kind)).map (·.sel)

/-- the last line of `revise_resources`: which of the watched resources stay served -/
def servedOf (p : PatchKinds) (watched : List Res) (hs : List Handler) : List Res :=
  disableUnsuitable watched (patchedSelectors p hs)

/-- no core-group resource among `rs` is read-only-but-watchable (true of every Kubernetes core API: each v1 resource
    that can be listed and watched can be patched) -/
def NoCoreReadOnly (rs : List Res) : Prop := ∀ r ∈ rs, r.core = true → r.watchable = true → r.canPatch = true

end Kopf.C19.Rsc
