/-
  C14 model — per-object operator memory (`noticed_by_listing`, `fully_handled_once`,
  `resumed_handlers`) + cause
  detection (C05) + the handler gate + one handling pass (C02: the whole pass `cycleB`), composed as the code
  composes them in `process_resource_event` / `_detect_causes` / `process_changing_cause`; + the other creator of
  the memory, the admission webhooks (`admission`).
  Core Lean only.
-/
import Kopf.Model.C05_Cause
import Kopf.Model.C02_Cycle
namespace Kopf.C14
open Kopf

/-- `inventory.ResourceMemory`, as far as resuming reads it. -/
structure Mem where
  noticed : Option Bool   -- `noticed_by_listing: bool | None`: was the FIRST PROCESSED event of the object a listing one
                          -- (event type None)? `none` = not known yet: the memory was created aside of the event
                          -- processing, by an admission request (/repo 755fd2f)
  fullyHandled : Bool     -- `fully_handled_once`
  resumed : List C02.Id := []   -- `resumed_handlers`: resuming handlers that reached a final outcome for
                                -- this object in this process while the cycle is still open (/repo 6c4463d)
  deriving DecidableEq, Repr

/-- A registered changing handler: id + what the gate reads. -/
structure Decl where
  id : C02.Id
  gate : C05.Handler
  deriving Repr

/-- One processed event of one object within one operator process. -/
structure Event where
  byListing : Bool        -- raw event type is None (initial listing / re-listing)
  deleted : Bool          -- raw event type DELETED
  marked : Bool
  blocked : Bool
  oldAbsent : Bool
  diffNonEmpty : Bool
  suppressed : Bool       -- the changing cause is dropped this time (no prematch, finalizer add/remove
                          -- cycle, or consistency not achieved): `process_changing_cause` is not called
  matchF : C02.Id → Bool  -- the filters of each handler against this event (C15's subject)
  limits : C02.Id → C02.Limits
  lifecycle : C02.Lifecycle
  now : C02.Tick
  now1 : C02.Tick
  exec : C02.Id → Nat → C02.Outcome

def reasonStr : C05.Reason → String
  | .create => "create" | .update => "update" | .delete => "delete" | .resume => "resume"
  | .noop => "noop" | .free => "free" | .gone => "gone"

/-- `memories.recall(raw_body, noticed_by_listing = raw_type is None)` from `process_resource_event`: a new memory
    is created with the flag decided; a known one whose flag is not decided yet (`is None`) gets it decided now —
    the first processed event of the object decides, whoever created the memory (/repo 755fd2f); a decided flag stays. -/
def recall (m : Option Mem) (e : Event) : Mem :=
  match m with
  | some mem =>
      match mem.noticed with
      | none => { mem with noticed := some e.byListing }
      | some _ => mem
  | none => { noticed := some e.byListing, fullyHandled := false }

/-- The only other creator of an object's memory: `admission.serve_admission_request` →
    `memories.recall_memo(raw_body, ephemeral = (operation == 'CREATE'))` → `recall(...)` with
    `noticed_by_listing` left at its default — None, "not known yet", since /repo 755fd2f. A known memory is returned
    as it is (an undecided flag stays undecided: `None` is passed); for an unknown object a CREATE request gets a
    throw-away memory, every other operation (UPDATE, DELETE, CONNECT) a persistent one. -/
def admission (m : Option Mem) (create : Bool) : Option Mem :=
  match m with
  | some mem => some mem
  | none => if create then none else some { noticed := none, fullyHandled := false }

/-- `admission` as it was before /repo 755fd2f (the flag was a plain boolean with the default False: the admission
    request itself decided "not noticed by the listing"). Kept as the subject of the regression theorems of F10. -/
def admissionOld (m : Option Mem) (create : Bool) : Option Mem :=
  match m with
  | some mem => some mem
  | none => if create then none else some { noticed := some false, fullyHandled := false }

/-- `bool(memory.noticed_by_listing)`: an undecided flag reads as False -/
def Mem.isNoticed (mem : Mem) : Bool := mem.noticed == some true

def inOf (mem : Mem) (e : Event) : C05.In :=
  { deleted := e.deleted, marked := e.marked, blocked := e.blocked, oldAbsent := e.oldAbsent,
    diffNonEmpty := e.diffNonEmpty, initial := mem.isNoticed && !mem.fullyHandled }

def causeOf (mem : Mem) (e : Event) : C05.Cause := C05.detect (inOf mem e)

/-- `get_handlers(cause)` minus the resuming handlers already finished in this process. -/
def selectedOf (decls : List Decl) (c : C05.Cause) (e : Event) (resumed : List C02.Id) : List C02.Id :=
  (decls.filter (fun d => C05.gate d.gate c && e.matchF d.id &&
                          !(d.gate.initial && resumed.contains d.id))).map (·.id)

def cfgOf (decls : List Decl) (mem : Mem) (e : Event) : C02.Cfg :=
  let c := causeOf mem e
  { owned := decls.map (·.id), selected := selectedOf decls c e mem.resumed, limits := e.limits,
    reason := reasonStr c.reason, lifecycle := e.lifecycle }

/-- some registration under this id is a resuming one (`handler.initial`) -/
def isInitial (decls : List Decl) (i : C02.Id) : Bool := decls.any (fun d => d.id == i && d.gate.initial)

structure StepResult where
  mem : Option Mem            -- none after DELETED (`memories.forget`)
  P : C02.Store
  invoked : List (C02.Id × Nat)
  closed : Bool

/-- `handler.reason is not None` for a handler selected under this id: some registration under the id is declared for
    the very reason of the cause (on.create / on.update / on.delete — the mix-in handlers, resuming and field, have
    none). Such a handler does not inherit a record that carries another cause's purpose (its namesake's: one id
    registered for several causes; /repo f7d6401): `C02.cycleB` leaves it out. -/
def boundOf (decls : List Decl) (c : C05.Cause) (i : C02.Id) : Bool :=
  decls.any (fun d => d.id == i && d.gate.reason == some c.reason)

/-- One `process_resource_event` for the object, as far as resuming is concerned. -/
def step (decls : List Decl) (m : Option Mem) (P : C02.Store) (e : Event) : StepResult :=
  let mem := recall m e
  if e.suppressed then
    { mem := if e.deleted then none else some mem, P := P, invoked := [], closed := false }
  else
    -- the whole pass as the code has it (`C02.cycleB`: namesakes' records left out, FREE purges like the no-op)
    let bound := boundOf decls (causeOf mem e)
    let r := C02.cycleB (cfgOf decls mem e) bound P e.now e.now1 e.exec
    let newly := (C02.cycleFinalsB (cfgOf decls mem e) bound P e.now e.exec).filter (isInitial decls)
    let mem' : Mem := { mem with fullyHandled := mem.fullyHandled || r.closed,
                                 resumed := if r.closed then [] else mem.resumed ++ newly }
    { mem := if e.deleted then none else some mem', P := r.P', invoked := r.invoked, closed := r.closed }

/-- A whole history of events of one object within one operator process. -/
def run (decls : List Decl) : Option Mem → C02.Store → List Event → List (List (C02.Id × Nat))
  | _, _, [] => []
  | m, P, e :: rest =>
      let r := step decls m P e
      r.invoked :: run decls r.mem r.P rest

/-- The same history, but every event carries its OWN view of the stored records — whatever body the
    watch delivered: a stale one processed after the consistency timeout, one without a patch that was
    lost, …; nothing relates it to what the previous pass wrote. Only the operator's memory is threaded. -/
def runViews (decls : List Decl) : Option Mem → List (Event × C02.Store) → List (List (C02.Id × Nat))
  | _, [] => []
  | m, (e, P) :: rest =>
      let r := step decls m P e
      r.invoked :: runViews decls r.mem rest

/-- What happens to one object within one operator process, the admission webhooks included: a processed event, or an
    admission request for the object (`create` = the operation is CREATE) served by `serve_admission_request`. -/
inductive Inp where
  | event (e : Event)
  | review (create : Bool)

/-- The history with the admission requests in it; they invoke no changing handler, they only touch the memory. -/
def runA (decls : List Decl) : Option Mem → C02.Store → List Inp → List (List (C02.Id × Nat))
  | _, _, [] => []
  | m, P, .event e :: rest =>
      let r := step decls m P e
      r.invoked :: runA decls r.mem r.P rest
  | m, P, .review create :: rest => runA decls (admission m create) P rest

def eventsOf : List Inp → List Event
  | [] => []
  | .event e :: rest => e :: eventsOf rest
  | .review _ :: rest => eventsOf rest

/-- `runA` with the admission webhooks as they were before /repo 755fd2f. -/
def runAOld (decls : List Decl) : Option Mem → C02.Store → List Inp → List (List (C02.Id × Nat))
  | _, _, [] => []
  | m, P, .event e :: rest =>
      let r := step decls m P e
      r.invoked :: runAOld decls r.mem r.P rest
  | m, P, .review create :: rest => runAOld decls (admissionOld m create) P rest

end Kopf.C14
