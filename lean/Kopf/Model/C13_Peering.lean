/-
  C13 model — peering (`kopf/_core/engines/peering.py`), core Lean only, integer ticks.

  * `mkPeer`     = `Peer.__init__(identity=…, **opinfo)` incl. defaults (priority 0, lifetime 60,
                   lastseen = now), `int(lifetime)`, and the ways a garbled record makes it raise (also the
                   OverflowError of a lifetime beyond `timedelta`'s range or a deadline beyond year 9999);
  * `decide`     = `process_peering_event` as a function of (status content, own identity/priority,
                   toggle state, clock): who is dead (`lastseen + lifetime ≤ now`), which dead peers
                   are cleaned (never the own record), the toggle, the delays to the deadlines of
                   the blocking peers, the sleep, the self-touch;
  * `kaSleep(T)` = the keep-alive period `max(1, min(L, max(1, L − randint(5,10))))`, `L/2` for `L = 1`;
  * `touchVal`   = what `touch()` writes (`None` when the record would be dead at once: lifetime ≤ 0);
  * `step`       = the shared peering object (status + its VERSION, `ver` = `metadata.resourceVersion`) + operators as a
                   labelled transition system. `deliver i` hands operator i the CURRENT status (an idealisation: the code
                   always sees a somewhat older one), `deliverStale i view vv` a view taken at version `vv`: its verdict is
                   computed from the view, its `clean()` carries `resourceVersion = vv` and the API applies it only if the
                   object is still at `vv` (else 409 Conflict, ignored by `clean()`; since 054d47d). A graceful stop
                   (since 26a293c) is `exitBegin` (watchers and the peering observer are stopped: queues deplete, handlers
                   finish; the PINGER GOES ON renewing the record) … `exitEnd` (the pinger's `finally` withdraws the record, the
                   process is gone); `exit` is the two at once; `exitLost` a withdrawal the API refused; `wake` = the sleeping
                   call wakes and its self-touch lands at once, `wakeIssue` … `land` the same with the request in flight for a
                   while (the observer is stopped before the withdrawal: a self-touch still in flight then has been awaited
                   - `land` - or cancelled - dropped by `exitEnd`).

  Time: `Tick = Int`; `u` = ticks per second (the harness uses 64); lifetimes are whole seconds.
-/
import Kopf.Base.J
namespace Kopf.C13

abbrev Identity := String
/-- ticks are plain integers (written `Int` throughout so that `omega` sees them) -/
abbrev Tick := Int

inductive Err where
  | typeError | valueError | attrError | overflowError
  deriving DecidableEq, Repr

/-! ### Python `int(x)` on a parsed JSON value -/

def isWs (c : Char) : Bool := c == ' ' || c == '\t' || c == '\n' || c == '\r'

/-- digits with single underscores strictly between digits (`1_000`), as `int()` accepts. -/
def digitsVal : List Char → Option Nat
  | [] => none
  | c :: rest =>
    if c.isDigit then
      let rec go (acc : Nat) (prevUnderscore : Bool) : List Char → Option Nat
        | [] => if prevUnderscore then none else some acc
        | d :: ds =>
          if d.isDigit then go (acc * 10 + (d.toNat - '0'.toNat)) false ds
          else if d == '_' && !prevUnderscore then go acc true ds
          else none
      go (c.toNat - '0'.toNat) false rest
    else none

def pyIntOfString (s : String) : Option Int :=
  let cs := (s.toList.dropWhile isWs).reverse.dropWhile isWs |>.reverse
  match cs with
  | '-' :: rest => (digitsVal rest).map (fun n => -(Int.ofNat n))
  | '+' :: rest => (digitsVal rest).map Int.ofNat
  | _ => (digitsVal cs).map Int.ofNat

/-- `int(v)` for the `lifetime` field. -/
def pyInt : J → Except Err Int
  | .num n => .ok n
  | .bool b => .ok (if b then 1 else 0)
  | .str s => match pyIntOfString s with | some n => .ok n | none => .error .valueError
  | .null => .error .typeError
  | .arr _ => .error .typeError
  | .obj _ => .error .typeError

/-- a `priority` value as an operand of `>` against an int: `none` = the comparison raises TypeError
    (`==` against an int is then simply False). -/
def prioView : J → Option Int
  | .num n => some n
  | .bool b => some (if b then 1 else 0)
  | _ => none

/-! ### Raw records and `Peer` -/

/-- `lastseen` after the harness' only abstraction (ISO-8601 text ↦ ticks). `absent` covers a missing
    key and an explicit `null` (`lastseen is not None` is false for both). -/
inductive LastSeen where
  | absent | at (t : Int) | bad
  deriving Repr

/-- what `Peer(identity=…, **opinfo)` receives; unknown keys are swallowed by `**_`. -/
structure Raw where
  priority : Option J      -- `none` = key missing → default 0
  lifetime : Option J      -- `none` = key missing → default 60
  lastseen : LastSeen
  identityKey : Bool       -- the record itself has a key `identity` → "multiple values" TypeError
  deriving Repr

inductive RawEntry where
  | record (r : Raw)
  | notMapping             -- `**opinfo` with a non-mapping → TypeError
  deriving Repr

structure Peer where
  id : Identity
  prio : Option Int        -- `none`: not comparable with an int
  lifetime : Int           -- whole seconds
  lastseen : Int
  reprErr : Option Err := none   -- `repr(peer)` calls `int(self.priority)`: how that fails, if it does
  deriving Repr, DecidableEq

def Peer.deadline (u : Int) (p : Peer) : Int := p.lastseen + p.lifetime * u
def Peer.isDead (u : Int) (now : Int) (p : Peer) : Bool := decide (p.deadline u ≤ now)

/-- `int(self.priority)` inside `Peer.as_dict()` (used by `repr`): the error it raises, if any. -/
def prioReprErr : Option J → Option Err
  | none => none
  | some v => match pyInt v with | .ok _ => none | .error e => some e

/-- `datetime.timedelta(seconds=n)` exists iff its days fit: `|days| ≤ 999999999` (else OverflowError) -/
def tdOk (n : Int) : Bool := decide (-86399999913600 ≤ n ∧ n ≤ 86399999999999)

/-- `datetime.min` and the first instant after `datetime.max`, in seconds since the epoch the ticks are counted from
    (the harness' simulation epoch 2030-01-01T00:00:00Z) -/
def dtMinS : Int := -64029052800
def dtEndS : Int := 251508844800

/-- `lastseen + lifetime` is a `datetime` (years 1 … 9999; else OverflowError "date value out of range") -/
def dtOk (u : Int) (t : Int) : Bool := decide (dtMinS * u ≤ t ∧ t < dtEndS * u)

/-- `Peer.__init__` in its order of evaluation: `int(lifetime)`, `timedelta(seconds=…)`, `parse_date(lastseen)`,
    `lastseen + lifetime`. -/
def mkPeer (u : Int) (now : Int) (i : Identity) : RawEntry → Except Err Peer
  | .notMapping => .error .typeError
  | .record r =>
    if r.identityKey then .error .typeError else
    match (match r.lifetime with | none => Except.ok (60 : Int) | some v => pyInt v) with
    | .error e => .error e
    | .ok l =>
      if !tdOk l then .error .overflowError else
      match r.lastseen with
      | .bad => .error .valueError
      | .absent =>
        if !dtOk u (now + l * u) then .error .overflowError else
        .ok { id := i, prio := (match r.priority with | none => some 0 | some v => prioView v),
              lifetime := l, lastseen := now, reprErr := prioReprErr r.priority }
      | .at t =>
        if !dtOk u (t + l * u) then .error .overflowError else
        .ok { id := i, prio := (match r.priority with | none => some 0 | some v => prioView v),
              lifetime := l, lastseen := t, reprErr := prioReprErr r.priority }

/-- `[Peer(identity=opid, **opinfo) for opid, opinfo in pairs.items()]`: the first failure wins. -/
def parseAll (u : Int) (now : Int) : List (Identity × RawEntry) → Except Err (List Peer)
  | [] => .ok []
  | (i, e) :: rest =>
    match mkPeer u now i e with
    | .error x => .error x
    | .ok p =>
      match parseAll u now rest with
      | .error x => .error x
      | .ok ps => .ok (p :: ps)

/-! ### The decision of `process_peering_event` -/

structure Decision where
  cleaned : List Identity     -- identities handed to `clean()`; `[]` = `clean()` not called
  turned : Option Bool        -- `turn_to(state)` called with this state
  paused : Option Bool        -- the toggle afterwards (`none`: no toggle was passed)
  delays : List Int          -- `deadline − now₂` of `same_peers + prio_peers`
  sleep : Option Int         -- what `aiotime.sleep` really sleeps (`none`: returns at once)
  touch : Bool                -- the self-touch that follows an uninterrupted sleep
  deriving Repr, DecidableEq

def livePeers (u : Int) (now : Int) (me : Identity) (ps : List Peer) : List Peer :=
  ps.filter (fun p => !p.isDead u now && p.id != me)
/-- `[peer for peer in peers if peer.is_dead and peer.identity != identity]`: the own expired record is never cleaned -/
def deadPeers (u : Int) (now : Int) (me : Identity) (ps : List Peer) : List Peer :=
  ps.filter (fun p => p.isDead u now && p.id != me)
def prioPeers (myPrio : Int) (live : List Peer) : List Peer :=
  live.filter (fun p => match p.prio with | some q => decide (q > myPrio) | none => false)
def samePeers (myPrio : Int) (live : List Peer) : List Peer :=
  live.filter (fun p => p.prio == some myPrio)

def minList : List Int → Option Int
  | [] => none
  | x :: xs => match minList xs with | none => some x | some m => some (if x ≤ m then x else m)

/-- everything after the peers are parsed and found comparable. `now` is the clock when the peers were
    built, `now₂` the clock after `clean()` and the toggle (they differ by the API latency of `clean`). -/
def decideCore (u : Int) (ps : List Peer) (me : Identity) (myPrio : Int) (autoclean : Bool)
    (toggle : Option Bool) (now now2 : Int) : Decision :=
  let dead := deadPeers u now me ps
  let live := livePeers u now me ps
  let prio := prioPeers myPrio live
  let same := samePeers myPrio live
  let blocked := !prio.isEmpty || !same.isEmpty
  let delays := (same ++ prio).map (fun p => p.deadline u - now2)
  { cleaned := if autoclean then dead.map (·.id) else []
    turned := match toggle with
      | none => none
      | some st => if blocked then (if st then none else some true) else (if st then some false else none)
    paused := toggle.map (fun _ => blocked)
    delays := delays
    sleep := match minList delays with
      | none => none
      | some m => if m ≤ 0 then none else some m
    touch := !delays.isEmpty }

/-- the first `repr` failure among all peers, in status order -/
def firstReprErr : List Peer → Option Err
  | [] => none
  | p :: ps => match p.reprErr with | some e => some e | none => firstReprErr ps

def decideP (u : Int) (ps : List Peer) (me : Identity) (myPrio : Int) (autoclean : Bool)
    (toggle : Option Bool) (now now2 : Int) : Except Err Decision :=
  -- `peer.priority > settings.peering.priority` over all live peers: one incomparable value raises
  if (livePeers u now me ps).any (fun p => p.prio.isNone) then .error .typeError
  else
    -- the equal-priority branch, toggle off: the warning "Pausing all operators, including self: {peers}"
    -- formats EVERY peer (dead ones and the own one too); `repr` → `int(priority)` may raise, after
    -- `clean()` already ran and before the toggle is turned
    let live := livePeers u now me ps
    if (prioPeers myPrio live).isEmpty && !(samePeers myPrio live).isEmpty && toggle == some false then
      match firstReprErr ps with
      | some e => .error e
      | none => .ok (decideCore u ps me myPrio autoclean toggle now now2)
    else .ok (decideCore u ps me myPrio autoclean toggle now now2)

/-- the whole call on a status that is a mapping. -/
def decideEv (u : Int) (status : List (Identity × RawEntry)) (me : Identity) (myPrio : Int) (autoclean : Bool)
    (toggle : Option Bool) (now now2 : Int) : Except Err Decision :=
  match parseAll u now status with
  | .error e => .error e
  | .ok ps => decideP u ps me myPrio autoclean toggle now now2

/-- what one call does, from the top: a peering object of another name is ignored silently; a `status`
    that is not a mapping fails at `.items()`. -/
inductive Outcome where
  | ignored
  | done (d : Decision)
  deriving Repr, DecidableEq

def processEvent (u : Int) (nameOk : Bool) (status : Option (List (Identity × RawEntry))) (me : Identity)
    (myPrio : Int) (autoclean : Bool) (toggle : Option Bool) (now now2 : Int) : Except Err Outcome :=
  if !nameOk then .ok .ignored else
  match status with
  | none => .error .attrError
  | some st => (decideEv u st me myPrio autoclean toggle now now2).map .done

/-! ### keep-alive and touch -/

/-- `max(1, min(lifetime, max(1, lifetime - jitter)))` seconds; `jitter = random.randint(5, 10)`. -/
def kaSleep (lifetime jitter : Int) : Int := max 1 (min lifetime (max 1 (lifetime - jitter)))

/-- what `keepalive` really sleeps, in ticks: the line above for `lifetime > 1`; half the lifetime (0.5 s) for a
    lifetime of one second; one second when the lifetime is not positive (then no record is ever written). -/
def kaSleepT (u lifetime jitter : Int) : Int :=
  if lifetime > 1 then kaSleep lifetime jitter * u else if lifetime > 0 then lifetime * u / 2 else u

/-- the margin the pinger leaves before its own record expires, in seconds (`lifetime ≥ 2`): `min 5 (L − 1)`. -/
def margin (L : Int) : Int := min 5 (L - 1)

/-- the same in ticks for every `lifetime ≥ 1`: `min(5, L−1)` seconds, the spare half second for `L = 1`.
    `L·u − marginT u L` is the longest the pinger ever sleeps. -/
def marginT (u L : Int) : Int := if 2 ≤ L then margin L * u else u - u / 2

structure Rec where
  priority : Int
  lifetime : Int
  lastseen : Int
  deriving Repr, DecidableEq

def Rec.deadline (u : Int) (r : Rec) : Int := r.lastseen + r.lifetime * u
def Rec.dead (u : Int) (now : Int) (r : Rec) : Bool := decide (r.deadline u ≤ now)
def Rec.toPeer (i : Identity) (r : Rec) : Peer :=
  { id := i, prio := some r.priority, lifetime := r.lifetime, lastseen := r.lastseen }
def Rec.toRaw (r : Rec) : RawEntry :=
  .record { priority := some (J.num r.priority), lifetime := some (J.num r.lifetime),
            lastseen := LastSeen.at r.lastseen, identityKey := false }

/-- `touch()`: `{identity: None if peer.is_dead else peer.as_dict()}` with `lastseen = now`. -/
def touchVal (u : Int) (prio lifetime : Int) (now : Int) : Option Rec :=
  let r : Rec := { priority := prio, lifetime := lifetime, lastseen := now }
  if r.dead u now then none else some r

/-! ### The shared status (a JSON object: ordered, merge-patched) -/

abbrev Status := List (Identity × Rec)

def Status.erase (st : Status) (i : Identity) : Status := st.filter (fun e => e.1 != i)
def Status.set (st : Status) (i : Identity) (r : Rec) : Status :=
  if st.any (fun e => e.1 == i) then st.map (fun e => if e.1 == i then (i, r) else e) else st ++ [(i, r)]
/-- merge-patch `{status: {i: v}}` -/
def Status.patch (st : Status) (i : Identity) : Option Rec → Status
  | none => st.erase i
  | some r => st.set i r
def Status.peers (st : Status) : List Peer := st.map (fun e => e.2.toPeer e.1)
/-- merge-patch `{status: {j: None for j in ids}}` -/
def Status.eraseAll (st : Status) (ids : List Identity) : Status := st.filter (fun e => !ids.contains e.1)

/-- blocking over a well-formed status, as a Bool: somebody else's live record of priority ≥ `p` is in `st` at clock `t`. -/
def blockedB (u : Int) (st : Status) (i : Identity) (p : Int) (t : Int) : Bool :=
  st.any (fun e => e.1 != i && !e.2.dead u t && decide (e.2.priority ≥ p))

/-! ### Operators and the transition system -/

structure Op where
  prio : Int
  lifetime : Int
  alive : Bool
  paused : Bool
  seen : Option (Nat × Int)   -- version of the status whose VERDICT the operator holds, and when it got it (`none` after a
                              --   view whose verdict differs from the current status')
  sleeping : Bool := false    -- a `process_peering_event` call sleeps towards a deadline and will self-touch on waking
  nextKA : Option Int := none -- ghost: the latest moment the pinger starts its next `touch()` (last landing + longest sleep)
  exiting : Bool := false     -- asked to stop: the resource watchers and the peering observer are stopping (queues deplete,
                              --   handlers finish, ≤ queueing.exit_timeout); the pinger still renews the record
  inflight : Option Int := none -- a self-touch of a `process_peering_event` call, ISSUED (stamped then), not yet applied by the API
  deriving Repr, DecidableEq

structure State where
  now : Int
  ver : Nat                    -- `metadata.resourceVersion` of the peering object: bumped by every write to it
  status : Status
  ops : Identity → Option Op

inductive Label where
  | start (i : Identity) (prio lifetime : Int)   -- a process starts (mandatory peering: pre-paused)
  | keepalive (i : Identity) (lag : Nat)         -- the pinger's `touch()` lands; the record was stamped `lag` ticks ago
  | keepaliveFail (i : Identity) (w : Bool)      -- the pinger's `touch()` RAISES (an API error that escaped the client's retries):
                                                 --   `keepalive()` ends; its `finally` withdraws the record (`w`: that PATCH lands;
                                                 --   else it fails too: logged and ignored); the task's done-callback cancels the
                                                 --   orchestrator: the operator begins to stop (FAIL-STOP), now without a pinger
  | exit (i : Identity)                          -- graceful, nothing in between: handling stopped, `touch(lifetime=0)` lands, gone
  | exitLost (i : Identity)                      -- graceful, but the withdrawal PATCH fails for good (logged and ignored)
  | exitBegin (i : Identity)                     -- what the code does FIRST on a graceful stop: watchers and peering observer
                                                 --   are stopped (queues deplete, handlers finish); the pinger goes on
  | exitEnd (i : Identity)                       -- ... and LAST: the pinger is stopped, the withdrawal lands, the process is gone
  | kill (i : Identity)                          -- the process disappears, its record stays
  | deliver (i : Identity)                       -- operator i processes the CURRENT status; its clean lands at once
  | deliverStale (i : Identity) (view : Status) (vv : Nat)
                                                 -- operator i processes the view it got at version `vv` (a late or merely
                                                 --   in-flight event) at the current clock; its `clean()` names `vv`
  | tick (d : Nat)                               -- time passes
  | expire (j : Identity)                        -- time passes up to the latest deadline of j's record(s)
  | foreign (j : Identity) (r : Option Rec)      -- anybody else writes / removes a record
  | wake (i : Identity) (lag : Nat)              -- the sleeping call of i wakes undisturbed; its self-touch lands
  | wakeIssue (i : Identity)                     -- the same in two steps: the call wakes and ISSUES its self-touch (stamped now) …
  | land (i : Identity)                          -- … which the API applies now, whatever has happened to i meanwhile (finding F9)
  deriving Repr

def updOp (ops : Identity → Option Op) (i : Identity) (o : Op) : Identity → Option Op :=
  fun k => if k = i then some o else ops k

def init : State := { now := 0, ver := 0, status := [], ops := fun _ => none }

def latestDeadline (u : Int) (st : Status) (j : Identity) (now : Int) : Int :=
  (st.filter (fun e => e.1 == j)).foldl (fun m e => max m (e.2.deadline u)) now

/-- An older view whose VERDICT is right: judged at the operator's clock it blocks the operator exactly as the current
    status does. (What it would clean does not matter any more: a clean from an older version is refused.) -/
def sameVerdict (u : Int) (s : State) (i : Identity) (prio : Int) (view : Status) : Bool :=
  blockedB u view i prio s.now == blockedB u s.status i prio s.now

/-- operator `i` (entry `o`) processes the CURRENT status: verdict, toggle, and its `clean()` - which names the current
    version - lands at once: the dead records of others go (for a JSON object - unique keys - removing by identity is
    removing those records). -/
def deliverNow (u : Int) (s : State) (i : Identity) (o : Op) : State :=
  let d := decideCore u s.status.peers i o.prio true (some o.paused) s.now s.now
  let st' := s.status.filter (fun e => !(e.2.dead u s.now && e.1 != i))
  { s with
    ver := if st' = s.status then s.ver else s.ver + 1      -- a patch that changes nothing makes no new version
    status := st'
    -- a new event interrupts the previous sleep (no touch); this call sleeps iff somebody blocks it
    ops := updOp s.ops i { o with paused := d.paused.getD o.paused, seen := some (s.ver, s.now),
                                  sleeping := d.touch } }

def step (u : Int) (s : State) : Label → Option State
  | .start i prio lifetime =>
    match s.ops i with
    | some o => if o.alive then none else
        some { s with ops := updOp s.ops i { prio, lifetime, alive := true, paused := true, seen := none } }
    | none => some { s with ops := updOp s.ops i { prio, lifetime, alive := true, paused := true, seen := none } }
  | .keepalive i lag =>
    -- the pinger runs until the very end of a graceful stop (it is stopped LAST): also while `exiting`
    match s.ops i with
    | some o => if o.alive then
        some { s with ver := s.ver + 1, status := s.status.patch i (touchVal u o.prio o.lifetime (s.now - lag)),
                      ops := updOp s.ops i { o with nextKA := some (s.now + (o.lifetime * u - marginT u o.lifetime)) } }
      else none
    | none => none
  | .keepaliveFail i w =>
    -- what the code does when a keep-alive fails for good: NOT "renew on the next round" (a whole period later the record is
    -- dead for every lifetime > 20 s: `swallowed_keepalive_two_active_witness`) but fail-stop. `keepalive()`'s `finally` runs
    -- first (the withdrawal, if the API takes it), then the orchestrator stops the watchers and the observer (as `exitBegin`:
    -- queues deplete, handlers in flight finish - finding F11: the record is already gone then), `exitEnd` is the end of it.
    -- (Over-approximation: `keepalive i` stays enabled for an `alive` entry; in the code the pinger is gone for good.)
    match s.ops i with
    | some o => if o.alive then
        some { s with ver := if w then s.ver + 1 else s.ver, status := if w then s.status.erase i else s.status,
                      ops := updOp s.ops i { o with exiting := true, sleeping := false, nextKA := none } }
      else none
    | none => none
  | .exit i =>
    -- a graceful stop with nothing in between (`exitBegin` then `exitEnd`: `exit_two_phase`)
    match s.ops i with
    | some o => if o.alive && !o.exiting then
        some { s with ver := s.ver + 1, status := s.status.patch i (touchVal u o.prio 0 s.now),
                      -- `_wait_for_depletion` sets the stream pressure: the sleeping call returns without touching; the
                      -- observer is stopped before the pinger: a self-touch of it is over or cancelled by now
                      ops := updOp s.ops i { o with alive := false, sleeping := false, nextKA := none, inflight := none } }
      else none
    | none => none
  | .exitLost i =>
    -- `keepalive`'s `finally` swallows every error of the withdrawal: the operator is gone, the record stays (= `kill`;
    -- that a self-touch may still be in flight is an over-approximation here: the observer was stopped in order)
    match s.ops i with
    | some o => if o.alive then some { s with ops := updOp s.ops i { o with alive := false, sleeping := false } } else none
    | none => none
  | .exitBegin i =>
    -- the orchestrator stops the watchers and the peering observer (`_wait_for_depletion` sets the stream pressure: a call
    -- sleeping towards a deadline returns without touching); the record STAYS and is renewed: the pinger is stopped last
    match s.ops i with
    | some o => if o.alive && !o.exiting then
        some { s with ops := updOp s.ops i { o with exiting := true, sleeping := false } }
      else none
    | none => none
  | .exitEnd i =>
    -- the watchers and the observer are over (a self-touch of the observer still in flight was awaited - `land` before
    -- this step - or cancelled with it: dropped); now the pinger's `finally` withdraws the record
    match s.ops i with
    | some o => if o.alive && o.exiting then
        some { s with ver := s.ver + 1, status := s.status.patch i (touchVal u o.prio 0 s.now),
                      ops := updOp s.ops i { o with alive := false, exiting := false, sleeping := false, nextKA := none,
                                                    inflight := none } }
      else none
    | none => none
  | .kill i =>
    match s.ops i with
    | some o => if o.alive then some { s with ops := updOp s.ops i { o with alive := false, sleeping := false } } else none
    | none => none
  | .deliver i =>
    match s.ops i with
    | some o => if o.alive && !o.exiting then some (deliverNow u s i o) else none
    | none => none
  | .deliverStale i view vv =>
    -- the verdict (who is dead, who blocks) is computed from `view` against the operator's OWN clock; `clean()` sends
    -- `{status: {identity: None …}, metadata: {resourceVersion: vv}}`: applied iff the object is still at version `vv` -
    -- and then the view IS the current status (a version identifies a content) -, refused with 409 otherwise (ignored)
    match s.ops i with
    | some o => if o.alive && !o.exiting then
        if vv = s.ver then (if view = s.status then some (deliverNow u s i o) else none)
        else
          let d := decideCore u view.peers i o.prio true (some o.paused) s.now s.now
          some { s with
            ops := updOp s.ops i { o with paused := d.paused.getD o.paused, sleeping := d.touch,
                                          seen := if sameVerdict u s i o.prio view then some (s.ver, s.now) else none } }
      else none
    | none => none
  | .tick d => some { s with now := s.now + d }
  | .expire j => some { s with now := latestDeadline u s.status j s.now }
  | .foreign j r => some { s with ver := s.ver + 1, status := s.status.patch j r }
  | .wake i lag =>
    -- guarded by `sleeping` only: all ways out (`exitBegin`, `exit`, `kill`) end the sleeping call without a touch.
    match s.ops i with
    | some o => if o.sleeping then
        some { s with ver := s.ver + 1, status := s.status.patch i (touchVal u o.prio o.lifetime (s.now - lag)),
                      ops := updOp s.ops i { o with sleeping := false } }
      else none
    | none => none
  | .wakeIssue i =>
    -- the PATCH is on its way; a kill does not take it back, a graceful stop awaits or cancels it before the withdrawal
    match s.ops i with
    | some o => if o.sleeping && o.inflight.isNone then
        some { s with ops := updOp s.ops i { o with sleeping := false, inflight := some s.now } }
      else none
    | none => none
  | .land i =>
    match s.ops i with
    | some o =>
      match o.inflight with
      | some t => some { s with ver := s.ver + 1, status := s.status.patch i (touchVal u o.prio o.lifetime t),
                                ops := updOp s.ops i { o with inflight := none } }
      | none => none
    | none => none

def run (u : Int) : State → List Label → Option State
  | s, [] => some s
  | s, l :: ls => match step u s l with | some s' => run u s' ls | none => none

/-- NAMED VARIANT (seeded change C13e, NOT what the code does): `keepalive()` wraps its regular `touch()` in
    `try/except APIError: log "will retry on the next round"` - the failed keep-alive changes nothing, the loop sleeps its
    usual period (`nextKA` moves on by the longest sleep), the operator stays as it is: running, not stopping. Every other
    label as in `step`. `swallowed_keepalive_two_active_witness` is what that costs. -/
def stepSwallow (u : Int) (s : State) : Label → Option State
  | .keepaliveFail i _ =>
    match s.ops i with
    | some o => if o.alive then
        some { s with ops := updOp s.ops i { o with nextKA := some (s.now + (o.lifetime * u - marginT u o.lifetime)) } }
      else none
    | none => none
  | l => step u s l

def runSwallow (u : Int) : State → List Label → Option State
  | s, [] => some s
  | s, l :: ls => match stepSwallow u s l with | some s' => runSwallow u s' ls | none => none

inductive Reachable (u : Int) : State → Prop where
  | init : Reachable u init
  | step {s s' : State} (l : Label) : Reachable u s → step u s l = some s' → Reachable u s'

/-! ### Vocabulary of the property statements (what the theorems in `Props/C13.lean` talk about) -/

/-- A peer that blocks `me` at `now`, in kopf's terms: a record of somebody else, not expired
    (`now < lastseen + lifetime`), whose priority is comparable and ≥ mine (`prio_peers ∪ same_peers`). -/
def Blocks (u : Int) (now : Int) (me : Identity) (myPrio : Int) (q : Peer) : Prop :=
  q.id ≠ me ∧ q.isDead u now = false ∧ ∃ x, q.prio = some x ∧ x ≥ myPrio

/-- "The operators see each other": every running operator has a fresh record carrying its priority; every fresh
    record belongs to a running operator (no live ghosts of killed/foreign processes); running priorities are distinct. -/
structure Good (u : Int) (s : State) : Prop where
  own : ∀ i op, s.ops i = some op → op.alive = true →
    ∃ r, (i, r) ∈ s.status ∧ r.priority = op.prio ∧ r.dead u s.now = false
  noGhost : ∀ j r, (j, r) ∈ s.status → r.dead u s.now = false →
    ∃ op, s.ops j = some op ∧ op.alive = true ∧ r.priority = op.prio
  distinct : ∀ i j oi oj, s.ops i = some oi → s.ops j = some oj → oi.alive = true → oj.alive = true →
    oi.prio = oj.prio → i = j

/-- exactly the running operator of maximal priority is not paused (`conflicts_found` off). -/
def ExactlyTop (s : State) : Prop :=
  ∀ i op, s.ops i = some op → op.alive = true →
    (op.paused = false ↔ ∀ j oj, s.ops j = some oj → oj.alive = true → oj.prio ≤ op.prio)

/-- What the environment may do in a *timely* run, every `touch()` call taking at most `B` ticks:
    operators are configured with `lifetime ≥ 1` and `2·B <` their margin; a record lands at most `B` ticks after it was
    stamped; time does not pass beyond the moment the pinger's next `touch()` must have landed (`nextKA + B`: the pinger
    sleeps at most `lifetime − margin` after the previous landing, `asyncio.sleep` wakes it on time, the call takes ≤ B);
    nobody else writes under an operator's identity. Views may be of ANY age (`deliverStale` is unrestricted: a clean from
    an older version is refused), graceful stops take their two steps with anything in between. -/
def Allowed (u B : Int) (s : State) : Label → Prop
  | .start _ _ L => 1 ≤ L ∧ 2 * B < marginT u L
  | .keepalive _ lag => (lag : Int) ≤ B
  | .keepaliveFail _ _ => False      -- no keep-alive fails in a timely run (an API failure is outside the latency guard)
  | .wake _ lag => (lag : Int) ≤ B
  | .tick d => ∀ i o k, s.ops i = some o → o.alive = true → o.nextKA = some k → s.now + d ≤ k + B
  | .expire j => ∀ i o k, s.ops i = some o → o.alive = true → o.nextKA = some k →
      latestDeadline u s.status j s.now ≤ k + B
  | .wakeIssue _ => False          -- the self-touches of timely runs land within B: `wake i lag`
  | .land _ => False
  | .foreign j _ => s.ops j = none
  | _ => True

/-- states reachable by timely runs -/
inductive Timely (u B : Int) : State → Prop where
  | init : Timely u B init
  | step {s s' : State} (l : Label) : Timely u B s → Allowed u B s l → step u s l = some s' → Timely u B s'

/-- What may happen between a loss / an exit and the settling: time passes; the running operators renew, their sleeping
    calls wake and self-touch, they process the current status OR ANY OLDER VIEW (whose clean is refused). Not in it: starts,
    stops, kills, foreign writes, self-touches in two steps (`wakeIssue` … `land`). -/
def Quiet : Label → Prop
  | .tick _ | .expire _ | .keepalive _ _ | .wake _ _ | .deliver _ | .deliverStale _ _ _ => True
  | _ => False

/-- a sleeping `process_peering_event` call belongs to a running operator (an invariant of every reachable state:
    `sleepAlive_reachable`; stated as a hypothesis where a theorem starts from an arbitrary state) -/
def SleepAlive (s : State) : Prop := ∀ i o, s.ops i = some o → o.sleeping = true → o.alive = true

/-- One round of the pinger (`keepalive`'s loop body). The record built at `t` (lastseen = `t`) reaches the server `a`
    ticks later; the whole `touch()` call takes `lat ≥ a`; then the pinger sleeps `kaSleepT` ticks. -/
structure Round where
  lat : Int
  a : Int
  jitter : Int

/-- when the next record is built -/
def nextTouch (u L : Int) (t : Int) (r : Round) : Int := t + r.lat + kaSleepT u L r.jitter

/-- every next record reaches the server strictly before the deadline of the one it replaces. -/
def Renewed (u L : Int) : Int → List Round → Prop
  | _, [] => True
  | _, [_] => True
  | t, r :: r' :: rs => nextTouch u L t r + r'.a < t + L * u ∧ Renewed u L (nextTouch u L t r) (r' :: rs)

end Kopf.C13
