/-
  C07 model — the consistency barrier between `queueing.worker` and
  `processing.process_resource_causes`. Integer ticks (1 tick = 1/64 s). Core Lean only.

  Mechanism mirrored.

  queueing.worker (locals `expected_version`, `consistency_time`, both None at the start of a worker):
      timeout = max(idle_timeout, consistency_time - loop.time() if consistency_time is not None else 0)
      raw_event = await wait_for(backlog.get(), timeout)        -- timeout & empty backlog: the worker exits;
                                                                -- timeout & non-empty backlog: backlog.get_nowait(),
                                                                -- i.e. an ordinary iteration (fix d07cc0b)
      if raw_event is EOS: break                                -- the watcher is exiting: end of this stream's life
      if expected_version is not None and expected_version == get_version(raw_event):
          expected_version = None; consistency_time = None
      if backlog.empty(): pressure.clear()
      newer_patch_version = await processor(raw_event, stream_pressure=pressure, consistency_time=consistency_time)
      if newer_patch_version is not None and settings.persistence.consistency_timeout \
              and newer_patch_version != get_version(raw_event):            -- fix 460c956
          expected_version = newer_patch_version
          consistency_time = loop.time() + settings.persistence.consistency_timeout

  queueing._wait_for_depletion (watcher exit, fix f370f06): for every stream `pressure.set()`, then
  `backlog.put(EOS)`: a processor sleeping in the barrier is woken like by any new arrival (an
  *interrupted* sleep: handlers held back), the worker then dequeues EOS and exits. In the model the
  marker is a `wake` of the sleeping iteration and the end of the step list.

  processing.process_resource_event / process_resource_causes:
      patch = Patch(memory.remaining_patch, body=body)           -- the transformations carried over from a 422
      index_resource(...)                                        -- indexing
      patch_initially_empty = not patch                          -- false iff something was carried (whether or not it
                                                                 -- still yields an operation: that is decided when
                                                                 -- patching, on the freshest state — the interim
                                                                 -- head-of-cycle check of 608a57d was taken back)
      process_watching_cause(...); process_spawning_cause(...)   -- raw-event handlers, daemons/timers
      (prematch / finalizer decisions may set changing_cause = None)
      consistency_is_required = changing_cause is not None
      consistency_is_achieved = consistency_time is None
      if reason == GONE: consistency_is_achieved = True
      if required and not achieved and consistency_time:
          if consistency_time <= loop.time(): consistency_is_achieved = True      -- fix 5dff3c1
          elif not patch:
              unslept = await aiotime.sleep(consistency_time - loop.time(), wakeup=stream_pressure)
              consistency_is_achieved = unslept is None
      consistency_is_achieved = consistency_is_achieved and patch_initially_empty
      if required and consistency_time is not None \
              and operator_paused is not None and operator_paused.is_on():       -- fix 3cc60e3
          consistency_is_achieved = False       -- paused: the streams are closed, the awaited version cannot
                                                -- arrive, the timeout proves nothing; the event is dropped
      if required and not achieved:                              -- early: to PATCHing / the next event
          waiting_delays = []                                    -- fix 30557a0 + the rework of 608a57d:
          if operator_paused is not None and operator_paused.is_on(): pass            -- paused: nothing is to be written
          elif consistency_time is not None: waiting_delays = [max(0., consistency_time - loop.time())]
          elif not patch_initially_empty: waiting_delays = [0.]  -- a carried patch that sends nothing: come back at once
          return spawning_delays + waiting_delays, False         -- "come back when the waiting time is over"
      process_changing_cause(...)                                -- change-detecting handlers
  then `application.apply(delays=…)` patches; the version of the last PATCH is returned to the worker
  (suffixed `~which~never~arrives` when that PATCH released the object). What `apply` does with a delay — no sleep
  if the patch changed the object (its event comes), else an interruptible sleep and a touch (whose event comes) —
  is not this model's (C03/C08): here the delay is an OUTPUT of the iteration (`Outcome.wait`), and the writes of
  `apply` (the patch or the touch) come back as the observed `patched`/`tp`/`tret` of the iteration.

  aiotime.sleep(delay, wakeup): delay ≤ 0 → None at once; else wait_for(wakeup.wait(), delay):
  None on the time-out, the unslept remainder (not None) when the event was or became set first.
-/
namespace Kopf.C07

-- times are `Int` ticks (plain `Int`, so that `omega` sees them)

/-- A resourceVersion as the worker compares it (by equality only). `never` marks the suffix
    `~which~never~arrives`; versions carried by watch events never have it. -/
structure Ver where
  n : Nat
  never : Bool
  deriving DecidableEq, Repr

/-- The worker's two locals. -/
structure WState where
  expected : Option Ver
  deadline : Option Int
  deriving DecidableEq, Repr

def WState.init : WState := { expected := none, deadline := none }

/-- `if expected_version is not None and expected_version == get_version(raw_event): reset both`.
    `get_version` is None for an event without `metadata.resourceVersion`. Nothing else resets them:
    not the event's type (listed or streamed), not its age. -/
def arrive (s : WState) (v : Option Ver) : WState :=
  match s.expected with
  | some e => if v = some e then WState.init else s
  | none => s

/-- One worker iteration: what was dequeued, what the environment and the handlers did. -/
structure Iter where
  ver : Option Ver        -- `get_version(raw_event)`
  now : Int              -- `loop.time()` when the event was dequeued = when the processor starts
  dur : Nat               -- ticks the raw-event handlers take (the barrier is reached at `now + dur`)
  pressure : Bool         -- more events are queued when the barrier is reached (`pressure` is set)
  wake : Option Nat       -- the pressure is raised this many ticks after the barrier sleep began: a further
                          -- event arrives, or the exiting watcher sends its end-of-stream marker
  lag : Nat               -- lateness of a timed-out sleep (0 under virtual time)
  gone : Bool             -- the cause is GONE (a DELETED event)
  required : Bool         -- `changing_cause is not None` at the barrier
  carried : Bool := false     -- `memory.remaining_patch is not None` when the cycle begins: transformation functions of
                              -- the handlers, carried over from a JSON-patch that was rejected with HTTP 422
  patchMid : Bool         -- `not patch` at the barrier (raw-event handlers may have filled it)
  patched : Option Ver    -- version returned by the processor (None: no PATCH, or it hit a 404)
  tp : Int               -- when the server applied that PATCH (meaningful when `patched` is some)
  tret : Int             -- `loop.time()` when the processor returned
  listed : Bool := false  -- `raw_event['type'] is None`: the object comes from a (re-)listing — after a start,
                          -- a reconnect, a "410 Gone" — not from the watch stream. The worker does NOT look at
                          -- it: a listing made while a handler ran is queued before that handler's PATCH and
                          -- dequeued after it, so a listed view can be older than the own last write.
  paused : Bool := false  -- `operator_paused.is_on()` at the instant the consistency block is left (after the
                          -- barrier sleep, if one was taken; there is no suspension point between the sleep's
                          -- return and the read). The toggle may have flipped any number of times before: before
                          -- the dequeue, during the raw-event handlers, during the sleep. Only this value is read.
  deriving DecidableEq, Repr

/-- `patch_initially_empty`: `not patch` at the entry of `process_resource_causes`: whatever was carried over makes
    the patch non-empty (a carried `Patch(fns=…)` is truthy for its functions alone; nothing else is in the patch
    when the cycle begins). -/
def Iter.patchInit (it : Iter) : Bool := !it.carried

structure Slept where
  tEnd : Int
  timedOut : Bool         -- `unslept is None`
  deriving DecidableEq, Repr

/-- `aiotime.sleep(d - now, wakeup=pressure)` started at `now`. -/
def sleepUntil (d now : Int) (pressure : Bool) (wake : Option Nat) (lag : Nat) : Slept :=
  if d - now ≤ 0 then ⟨now, true⟩                   -- `minimal_delay <= 0`: no sleep, None
  else if pressure then ⟨now, false⟩                -- the event is set already: woken at once
  else match wake with
    | some w => if now + w < d then ⟨now + w, false⟩ else ⟨d + lag, true⟩
    | none => ⟨d + lag, true⟩

/-- The stages of one pass of `process_resource_event`/`process_resource_causes`. -/
inductive Stage where
  | indexing      -- `indexing.index_resource`
  | watching      -- `process_watching_cause`: raw-event (`on.event`) handlers
  | spawning      -- `process_spawning_cause`: daemons and timers are spawned / stopped
  | barrier       -- the consistency block (may sleep)
  | changing      -- `process_changing_cause`: change-detecting handlers
  deriving DecidableEq, Repr

/-- The order in which the code runs them. -/
def kopfOrder : List Stage := [.indexing, .watching, .spawning, .barrier, .changing]

/-- The processor's running state while it goes through the stages: its clock, what it logged. -/
structure PS where
  clock : Int                    -- `loop.time()` so far
  low : List (Stage × Int)       -- low-level stages entered so far, in order, with their start times
  slept : Option Slept           -- the barrier sleep, if it was entered
  decided : Option Bool          -- final `consistency_is_achieved`, once the barrier stage has run
  left : Int                     -- `loop.time()` when the consistency block was left
  wait : Option Int              -- the waiting delay reported by the early return (fix 30557a0)
  entered : Option Int           -- `process_changing_cause` was entered (at this time)
  deriving DecidableEq, Repr

def PS.start (it : Iter) : PS :=
  { clock := it.now, low := [], slept := none, decided := none, left := it.now, wait := none, entered := none }

/-- One stage, executed at the processor's current clock. Only the barrier reads `consistency_time`. -/
def stepStage (deadline : Option Int) (it : Iter) (ps : PS) : Stage → PS
  | .indexing => { ps with low := ps.low ++ [(Stage.indexing, ps.clock)] }
  | .watching => { ps with low := ps.low ++ [(Stage.watching, ps.clock)], clock := ps.clock + it.dur }
  | .spawning => { ps with low := ps.low ++ [(Stage.spawning, ps.clock)] }
  | .barrier =>
    let pre : Bool := deadline.isNone || it.gone
    -- `required and not achieved and consistency_time` (0.0 is falsy)
    let waiting : Bool := it.required && !pre && (match deadline with | some d => decide (d ≠ 0) | none => false)
    -- `consistency_time <= loop.time()`: the waiting time is over, patch or no patch (fix 5dff3c1)
    let past : Bool := waiting && (match deadline with | some d => decide (d ≤ ps.clock) | none => false)
    let slept : Option Slept :=
      match deadline with
      | some d =>
        -- `elif not patch: sleep(consistency_time - loop.time(), wakeup=stream_pressure)`
        if waiting && !past && it.patchMid
        then some (sleepUntil d ps.clock it.pressure it.wake it.lag) else none
      | none => none
    let ach1 : Bool := past || (match slept with | some s => s.timedOut | none => pre)
    -- `if required and consistency_time is not None and operator_paused.is_on(): achieved = False` (fix 3cc60e3);
    -- `is not None`, not truthiness: a `consistency_time` of 0.0 counts; GONE or not; slept or not
    let frozen : Bool := it.required && deadline.isSome && it.paused
    let achieved : Bool := ach1 && it.patchInit && !frozen
    let clock' : Int := match slept with | some s => s.tEnd | none => ps.clock
    -- the early return: nothing while paused; `[max(0., consistency_time - loop.time())]` while a version is awaited
    -- (`is not None`: 0.0 counts; no suspension point since the sleep); else `[0.]` for a patch pending at the entry
    let wait : Option Int :=
      if it.required && !achieved && !it.paused
      then (match deadline with
            | some d => some (max 0 (d - clock'))
            | none => if !it.patchInit then some 0 else none)
      else none
    { ps with slept := slept, decided := some achieved, clock := clock', left := clock', wait := wait }
  | .changing =>
    -- `if consistency_is_required and not consistency_is_achieved: return` precedes it
    if it.required && ps.decided == some true then { ps with entered := some ps.clock } else ps

def runStages (order : List Stage) (deadline : Option Int) (it : Iter) (ps : PS) : PS :=
  order.foldl (stepStage deadline it) ps

/-- What the processor decided in one iteration. -/
structure Outcome where
  given : Option Int           -- `consistency_time` as passed in
  low : List (Stage × Int)     -- the low-level stages in the order they were entered, and when
  slept : Option Slept          -- the barrier sleep, if it was entered
  achieved : Bool               -- final `consistency_is_achieved`
  held : Bool                   -- the early return was taken
  left : Int                   -- `loop.time()` when the consistency block was left (= when the early return was taken)
  wait : Option Int            -- … and the waiting delay it reported: "come back when the waiting time is over"
  entered : Option Int         -- `process_changing_cause` was entered (at this time)
  handlers : Option Int        -- … with a cause whose handlers can run (GONE has none: C05)
  deriving DecidableEq, Repr

def outcomeOf (deadline : Option Int) (it : Iter) (ps : PS) : Outcome :=
  let achieved := ps.decided == some true
  { given := deadline, low := ps.low, slept := ps.slept, achieved := achieved,
    held := it.required && !achieved, left := ps.left, wait := ps.wait, entered := ps.entered,
    handlers := if it.gone then none else ps.entered }

/-- A processor that runs the stages in the given order. -/
def processIn (order : List Stage) (deadline : Option Int) (it : Iter) : Outcome :=
  outcomeOf deadline it (runStages order deadline it (PS.start it))

/-- The processor: the stages in kopf's order. -/
def process (deadline : Option Int) (it : Iter) : Outcome := processIn kopfOrder deadline it

/-- `if newer_patch_version is not None and settings.persistence.consistency_timeout
        and newer_patch_version != get_version(raw_event): …` (fix 460c956: a PATCH that changed nothing is
    answered with the version that has just been processed; no event will bring it again, nothing is armed). -/
def feedback (T : Int) (s : WState) (it : Iter) : WState :=
  match it.patched with
  | some p => if T ≠ 0 ∧ some p ≠ it.ver then { expected := some p, deadline := some (it.tret + T) } else s
  | none => s

/-- One full worker iteration: reset-on-arrival, the processor, the feedback. -/
def stepEvent (T : Int) (s : WState) (it : Iter) : WState × Outcome :=
  let s1 := arrive s it.ver
  (feedback T s1 it, process s1.deadline it)

/-- The idle wait of the worker: `max(idle_timeout, consistency_time - loop.time() or 0)`. -/
def idleTimeout (idle : Int) (deadline : Option Int) (now : Int) : Int :=
  max idle (match deadline with | some d => d - now | none => 0)

/-- A life of the per-object stream: iterations, and idle exits of the worker followed by a fresh
    worker (fresh locals) when the next event comes. -/
inductive Step where
  | event (it : Iter)
  | retire (t : Int)     -- the idle wait timed out at `t` with an empty backlog
  | background (q : Ver) (t : Int)
      -- a daemon's or a timer's task of this object PATCHed it at `t` (its result / its progress) and got
      -- version `q` back: `daemons._runner → application.apply`. The version goes to that task; the
      -- object's worker is not told (nothing in `queueing.worker` or `processing` reads it).
  deriving DecidableEq, Repr

def Step.ver : Step → Option Ver
  | .event it => it.ver
  | .retire _ => none
  | .background _ _ => none

/-- The version a step hands to the worker. -/
def Step.patched : Step → Option Ver
  | .event it => it.patched
  | .retire _ => none
  | .background _ _ => none

/-- Worker state plus the clock (when the last step ended). -/
structure Cfg where
  s : WState
  clock : Int
  deriving DecidableEq, Repr

def Cfg.init : Cfg := { s := WState.init, clock := 0 }

def next (T : Int) (c : Cfg) : Step → Cfg
  | .event it => { s := (stepEvent T c.s it).1, clock := it.tret }
  | .retire t => { s := WState.init, clock := t }
  | .background _ _ => c

def exec (T : Int) (c : Cfg) (l : List Step) : Cfg := l.foldl (next T) c

/-- The processor's decision for iteration `it` started from configuration `c`. -/
def outcomeAt (T : Int) (c : Cfg) (it : Iter) : Outcome := (stepEvent T c.s it).2

/-- All outcomes of a run, in order (retirements yield none). -/
def outcomes (T : Int) : Cfg → List Step → List Outcome
  | _, [] => []
  | c, .event it :: rest => outcomeAt T c it :: outcomes T (next T c (.event it)) rest
  | c, .retire t :: rest => outcomes T (next T c (.retire t)) rest
  | c, .background _ _ :: rest => outcomes T c rest

/-- Time sanity of one step: the clock does not run backwards, a PATCH is applied after the
    iteration began and before the processor returns (`tp` = `tret` by convention when nothing was
    patched), and the worker retires only when its idle wait has timed out. -/
def okStep (idle : Int) (c : Cfg) : Step → Bool
  | .event it => decide (c.clock ≤ it.now) && decide (it.now ≤ it.tret) && decide (it.tp ≤ it.tret) && decide (it.now ≤ it.tp)
  | .retire t => decide (c.clock ≤ t) && decide (c.clock + idleTimeout idle c.s.deadline c.clock ≤ t)
  | .background _ _ => true     -- another task: any time

def wf (T idle : Int) : Cfg → List Step → Bool
  | _, [] => true
  | c, st :: rest => okStep idle c st && wf T idle (next T c st) rest

end Kopf.C07
