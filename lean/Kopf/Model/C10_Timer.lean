/-
  C10 model — the loop of `kopf._core.engines.daemons._timer` as a state-carrying step function, one
  loop ITERATION at a time; a *run* is an iteration in which the timer function is invoked.
  Integer ticks (the harness uses 1 tick = 1/64 s). Core Lean only.

  The code, abridged (all sleeps are `aiotime.sleep(d, wakeup=stopper)`: return at once when `d ≤ 0`):

      if handler.initial_delay is not None: sleep(initial_delay)
      state = fresh
      while not stopper.is_set():
          await asyncio.sleep(0)                                      # zero-time yield to the event loop (no effect on the schedule)
          if state.done and not state.counts.failure: state = fresh  # success only; a failed state is kept
          if handler.idle is not None:
              while clock() - memory.idle_reset_time < handler.idle:  # the idle gate
                  sleep(memory.idle_reset_time + handler.idle - clock())
          if not state[handler.id].retries: state = fresh             # no attempt yet: the series' clock starts at its first attempt
          started = clock()
          outcomes = execute_handlers_once(...)                       # invokes the function iff the state is awakened
          state = state.with_outcomes(outcomes)                       # retries+1, flags, delayed := now + outcome.delay
          if state.done and state.counts.failure: memory.forever_stopped.add(handler.id)   # never spawned again in this process
          try: _, remaining = patch_and_check(patch)                  # API round trip(s) iff patch ≠ {}
          except Exception: remaining = patch                         # (b8b3089) an API error beyond the request's own retries: the
                                                                      # undelivered patch is carried, the loop goes on (`onPatchError`)
          if not state.done:              sleep(state.delays)         # max(0, delayed - now)
          elif interval and sharp:        sleep(interval - (clock() - started) % interval)
          elif interval:                  sleep(interval)
          elif idle:                      while memory.idle_reset_time <= started and not stopper.is_set(): sleep(idle)
          else:                           break

  The in-memory `progression.State` of the single handler is carried from iteration to iteration
  (`HState`, `step`). Whether an iteration invokes the function is NOT an input: `Iter.ok` ties
  `it.res.isSome` to `awakened` of the carried state, as `execute_handlers_once` does
  (`handlers_todo = [h for h in handlers if state[h.id].awakened]`). That a timer that failed for good is
  never invoked again, and that it always is otherwise, are theorems (Props: `failed_is_last`,
  `invoked_unless_failed`), not parts of a definition.
  `memory.idle_reset_time` is either an arbitrary function of time (`View`: any timing of changes) or
  derived from the history of processed events (`viewOf`), which makes "the last essential change" expressible.
  How the stopper enters: it is not a component of the model. Every loop of `_timer` (main loop, idle
  gate, idle-only poll loop — `stopperGuards`, checked by the translator) has `not stopper.is_set()` in
  its condition and every sleep is woken by it, so once it is set no further iteration starts and the
  task ends: a sequence `Sched` is any PREFIX of the unstopped behaviour (`Chain.nil` at any point).
  Preconditions under which the arithmetic equals Python's: `interval > 0` (Python's float `%` and
  Lean's `Int.emod` agree for a positive divisor and a non-negative dividend; `interval = 0` raises
  ZeroDivisionError in the sharp branch). The handler's `timeout`/`retries` are modelled as
  `execute_handler_once` applies them: the strict pre-checks before the call (`runtime ≥ timeout`,
  `retries ≥ limit`: no call, the series fails for good) and the look-ahead checks after a failure
  (`runtime + delay ≥ timeout`, `retries + 1 ≥ limit`: final instead of retried). `runtime` counts from
  `started`, stamped when the state is created; since 9118944 a series that has made no attempt yet is
  re-created after the idle gate, so its clock starts with its first attempt (`HState.atStart`).
  Re-spawning (filter mismatch / pause, then a new task) is not in the model: `Sched` is ONE task. Since
  a6c10de a task that fails for good puts its id into `memory.forever_stopped` (`marksForeverStopped`,
  translator-tied), which `spawn_daemons` excludes: there is no later task of that timer in the process.
-/
namespace Kopf.C10

-- Time is in ticks (1 tick = 1/64 s in the harness), typed plain `Int` so that `omega` sees it.

inductive ErrorsMode where
  | ignored | temporary | permanent
  deriving DecidableEq, Repr, Inhabited

/-- What the loop reads of the handler declaration (`handlers.TimerHandler`) and the settings. -/
structure Cfg where
  interval : Option Int
  sharp : Bool                       -- `handler.sharp` truthiness (None = False)
  idle : Option Int
  initialDelay : Option Int
  backoff : Int                     -- `handler.backoff`, else `settings.execution.default_backoff`
  errors : ErrorsMode := .temporary  -- `handler.errors`, else TEMPORARY
  retries : Option Nat := none       -- `handler.retries`
  timeout : Option Int := none       -- `handler.timeout`
  deriving DecidableEq, Repr

/-- How the timer function ended. -/
inductive Result where
  | ok
  | temporary (delay : Option Int)  -- `TemporaryError(delay=…)`
  | arbitrary                        -- any other exception
  | permanent                        -- `PermanentError`
  deriving DecidableEq, Repr

/-- `execution.Outcome` as far as the loop reads it. -/
inductive Outcome where
  | done                             -- final, no exception: success, or an error under errors=IGNORED
  | failed                           -- final with an exception: PermanentError, errors=PERMANENT, retries exhausted
  | retry (delay : Option Int)
  deriving DecidableEq, Repr

/-- `lookahead_retries` of `execute_handler_once` -/
def lookaheadRetries (cfg : Cfg) (attempt : Nat) : Bool :=
  match cfg.retries with
  | some n => decide (attempt + 1 ≥ n)
  | none => false

/-- `lookahead_timeout` of `execute_handler_once`: `state.runtime + (delay or backoff) >= handler.timeout` -/
def lookaheadTimeout (cfg : Cfg) (runtime extra : Int) : Bool :=
  match cfg.timeout with
  | some t => decide (runtime + extra ≥ t)
  | none => false

/-- the `except` chain of `execute_handler_once`; `attempt` = `state.retries`, `runtime` = `state.runtime`
    when the function raised (the time since the series' state was created) -/
def classify (cfg : Cfg) (attempt : Nat) (runtime : Int) : Result → Outcome
  | .ok => .done
  | .permanent => .failed
  | .temporary d =>
    if lookaheadTimeout cfg runtime (d.getD 0) then .failed
    else if lookaheadRetries cfg attempt then .failed else .retry d
  | .arbitrary =>
    match cfg.errors with
    | .ignored => .done
    | .permanent => .failed
    | .temporary =>
      if lookaheadTimeout cfg runtime cfg.backoff then .failed
      else if lookaheadRetries cfg attempt then .failed else .retry (some cfg.backoff)

/-! ### The carried state: `progression.State` of the single timer handler -/

/-- `progression.HandlerState`, the fields the loop and `execute_handlers_once` read. -/
structure HState where
  started : Int             -- loop time at which this series' state was created (`from_scratch`)
  retries : Nat
  success : Bool
  failure : Bool
  delayed : Option Int      -- absolute loop time
  deriving DecidableEq, Repr

/-- `State.from_scratch().with_handlers([handler])` at loop time `now` -/
def HState.fresh (now : Int) : HState := { started := now, retries := 0, success := false, failure := false, delayed := none }

/-- `HandlerState.finished`; with one active handler this is also `State.done` -/
def HState.finished (h : HState) : Bool := h.success || h.failure

/-- `HandlerState.sleeping` -/
def HState.sleeping (h : HState) (now : Int) : Bool :=
  !h.finished && (match h.delayed with | some d => decide (d > now) | none => false)

/-- `HandlerState.awakened`: what `execute_handlers_once` selects for invocation -/
def HState.awakened (h : HState) (now : Int) : Bool := !h.finished && !h.sleeping now

/-- top of the loop, reached at loop time `top` (before the idle gate):
    `if state.done and not state.counts.failure: state = fresh` -/
def HState.atTop (h : HState) (top : Int) : HState := if h.finished && !h.failure then HState.fresh top else h

/-- after the idle gate, at `start`: `if not state[handler.id].retries: state = fresh` -/
def HState.atStart (h : HState) (start : Int) : HState := if h.retries = 0 then HState.fresh start else h

/-- the state `execute_handlers_once` gets in an iteration that reached the loop top at `top` and passed the
    idle gate at `start` -/
def HState.entry (h : HState) (top start : Int) : HState := (h.atTop top).atStart start

/-- the strict pre-checks of `execute_handler_once` at `now`: `HandlerTimeoutError` / `HandlerRetriesError`
    instead of a call -/
def precheckFails (cfg : Cfg) (h : HState) (now : Int) : Bool :=
  (match cfg.timeout with | some t => decide (now - h.started ≥ t) | none => false) ||
  (match cfg.retries with | some n => decide (h.retries ≥ n) | none => false)

/-- `HandlerState.with_outcome(outcome)` at loop time `now` -/
def HState.withOutcome (h : HState) (now : Int) : Outcome → HState
  | .done => { h with retries := h.retries + 1, success := true, failure := false, delayed := none }
  | .failed => { h with retries := h.retries + 1, success := false, failure := true, delayed := none }
  | .retry d => { h with retries := h.retries + 1, success := false, failure := false, delayed := d.map (now + ·) }

/-- `min(State.delays)` read at `now`: `max(0, delayed - now)`; `0` when `delayed` is None -/
def HState.delay (h : HState) (now : Int) : Int :=
  match h.delayed with
  | some d => if d - now ≤ 0 then 0 else d - now
  | none => 0

/-- One loop iteration, with the three instants the schedule depends on. -/
structure Iter where
  top : Int               -- the loop is at its top (after the zero-time yield): the state is re-created here if due
  start : Int             -- `started = clock()` after the idle gate; the function (if any) is entered in the same instant
  ended : Int             -- `execute_handlers_once` returned; `with_outcomes` stamps `delayed = ended + delay`
  patched : Int           -- the post-run `patch_and_check` returned (= `ended` when the patch is empty)
  res : Option Result     -- how the function ended; `none`: nothing was awakened, nothing invoked
  deriving DecidableEq, Repr

/-- The state after the iteration `it` entered with the carried state `h`. -/
def step (cfg : Cfg) (h : HState) (it : Iter) : HState :=
  let h1 := h.entry it.top it.start
  match it.res with
  | some r => h1.withOutcome it.ended (classify cfg h1.retries (it.ended - h1.started) r)
  | none =>
    if h1.awakened it.start && precheckFails cfg h1 it.start then h1.withOutcome it.ended .failed   -- pre-check error
    else h1                                                                                          -- `with_outcomes({})`

/-- The `retry` kwarg the function sees in this iteration. -/
def attemptOf (h : HState) (it : Iter) : Nat := (h.entry it.top it.start).retries

/-- `state.runtime` when the function returned/raised in this iteration. -/
def runtimeOf (h : HState) (it : Iter) : Int := it.ended - (h.entry it.top it.start).started

/-- The iteration invokes the function, or the strict `timeout`/`retries` pre-check ends the series there
    (no call). -/
def Iter.runsOrExpires (cfg : Cfg) (h : HState) (it : Iter) : Prop :=
  it.res.isSome = true ∨ (it.res = none ∧ precheckFails cfg (h.entry it.top it.start) it.start = true)

/-- What the code guarantees of an iteration record: time goes forward, the function is invoked exactly
    when the carried state is awakened at `start` and passes the pre-checks, and an iteration that
    invokes nothing takes no time inside `execute_handlers_once`. -/
def Iter.ok (cfg : Cfg) (h : HState) (it : Iter) : Prop :=
  it.start ≤ it.ended ∧ it.ended ≤ it.patched ∧
  it.res.isSome = ((h.entry it.top it.start).awakened it.start && !precheckFails cfg (h.entry it.top it.start) it.start) ∧
  (it.res = none → it.ended = it.start)

instance (cfg : Cfg) (h : HState) (it : Iter) : Decidable (it.ok cfg h) := by unfold Iter.ok; infer_instance

/-- `aiotime.sleep(d)` entered at `now` returns at `now + d`, or at once when `d ≤ 0`. -/
def sleepUntil (now d : Int) : Int := if d ≤ 0 then now else now + d

/-- Where the post-run branch chain leaves the loop. -/
inductive Wake where
  | at (t : Int)          -- back at the top of the loop at `t`
  | poll (idle : Int)     -- idle-only: poll every `idle` until the object has changed since `started`
  | stop                   -- neither interval nor idle: one-shot
  deriving DecidableEq, Repr

/-- The post-run branch chain, reading the state AFTER the iteration. NB: every sleep is entered at
    `it.patched`, so "one interval after the previous run ended" is, in the code, one interval after the
    end of the post-run *patch*. -/
def wake (cfg : Cfg) (h' : HState) (it : Iter) : Wake :=
  if !h'.finished then .at (sleepUntil it.patched (h'.delay it.patched))
  else
    match cfg.interval with
    | some i =>
      if cfg.sharp then .at (sleepUntil it.patched (i - (it.patched - it.start) % i))
      else .at (sleepUntil it.patched i)
    | none =>
      match cfg.idle with
      | some idle => .poll idle
      | none => .stop

/-- Where the initial delay leaves a freshly spawned timer task. -/
def initialWake (cfg : Cfg) (spawn : Int) : Int :=
  match cfg.initialDelay with
  | some d => sleepUntil spawn d
  | none => spawn

/-! ### The environment: what the loop reads of `memory.idle_reset_time`

`View t` is the value of `idle_reset_time` the timer task reads at loop time `t`. In the schedule
theorems it is an arbitrary function (any timing of object changes); `viewOf` below derives it from
the history of processed events. -/
abbrev View := Int → Int

/-- The idle gate at the top of the loop: entered at `t`, left (towards `started = clock()`) at `t'`. -/
inductive IdleWait (idle : Int) (view : View) : Int → Int → Prop where
  | pass {t : Int} : ¬ (t - view t < idle) → IdleWait idle view t t
  | wait {t t' : Int} : t - view t < idle → IdleWait idle view (view t + idle) t' → IdleWait idle view t t'

def Gate (cfg : Cfg) (view : View) (t t' : Int) : Prop :=
  match cfg.idle with
  | none => t' = t
  | some idle => IdleWait idle view t t'

/-- The idle-only poll loop: entered at `p`, left at `p'` once a change newer than `start` is seen. -/
inductive Poll (idle : Int) (view : View) (start : Int) : Int → Int → Prop where
  | exit {p : Int} : ¬ (view p ≤ start) → Poll idle view start p p
  | again {p p' : Int} : view p ≤ start → Poll idle view start (sleepUntil p idle) p' → Poll idle view start p p'

/-- The iteration that follows `it` (which left the state `h'`) can reach the loop top at `top'` and
    start at `t'`. -/
def Next (cfg : Cfg) (view : View) (h' : HState) (it : Iter) (top' t' : Int) : Prop :=
  match wake cfg h' it with
  | .at w => top' = w ∧ Gate cfg view w t'
  | .poll idle => Poll idle view it.start it.patched top' ∧ Gate cfg view top' t'
  | .stop => False

/-- The first iteration of a timer task spawned at `spawn` can reach the loop top at `top'` and start at `t'`. -/
def First (cfg : Cfg) (view : View) (spawn top' t' : Int) : Prop :=
  top' = initialWake cfg spawn ∧ Gate cfg view top' t'

/-- Iterations following `it` (entered with the carried state `h`) within one timer task. -/
inductive Chain (cfg : Cfg) (view : View) : HState → Iter → List Iter → Prop where
  | nil (h : HState) (it : Iter) : Chain cfg view h it []
  | cons {h : HState} {it it' : Iter} {its : List Iter} :
      Next cfg view (step cfg h it) it it'.top it'.start → it'.ok cfg (step cfg h it) →
      Chain cfg view (step cfg h it) it' its → Chain cfg view h it (it' :: its)

/-- the state created after the initial delay, before the loop -/
def initState (cfg : Cfg) (spawn : Int) : HState := HState.fresh (initialWake cfg spawn)

/-- The iteration sequence of one timer task spawned at `spawn` (any prefix of it: a stop truncates). -/
def Sched (cfg : Cfg) (view : View) (spawn : Int) : List Iter → Prop
  | [] => True
  | it :: its => First cfg view spawn it.top it.start ∧ it.ok cfg (initState cfg spawn) ∧
      Chain cfg view (initState cfg spawn) it its

/-- The carried state with which the `n`-th iteration of a sequence is entered. -/
def stateAt (cfg : Cfg) (spawn : Int) (its : List Iter) (n : Nat) : HState :=
  (its.take n).foldl (step cfg) (initState cfg spawn)

/-! ### `idle_reset_time` derived from the history of processed events

One `Ev` per `process_resource_event` of the object (`_detect_causes` → `process_spawning_cause`), in
processing order, for ONE per-object memory (one operator process; it is created by the first event):

    seen = memory.last_seen_essence
    essentially_changed = bool(diff(old, new)) if seen is None else bool(diff(seen, new))      # since 14876bf
    memory.last_seen_essence = new;   reset = essentially_changed

where `old` is the essence stored on the object as LAST HANDLED (`none`: nothing stored, e.g. no change
handlers at all), `new` the essence of the event's body and `seen` the essence of the previously
processed event (`none`: the first event of the memory). Essences are abstracted to `Nat`.
Before 14876bf: `seen = new if seen is None else seen; reset = bool(diff(old, new)) or bool(diff(seen, new))`
(`resetCondLastHandled`, kept as a variant for the regression theorems of the fixed finding C10-F3). -/
structure Ev where
  recv : Int := 0               -- loop time right after `_detect_causes` in `process_resource_causes`, before any handler
                                -- of the cycle runs: the FIRST instant a reset is stamped with (since f6dee42)
  t : Int                       -- loop time at which the event reaches `process_spawning_cause` (after the
                                -- `@kopf.on.event` handlers of the cycle): the SECOND stamp (`= recv` for a cycle that is
                                -- cancelled in between, or when no time passes there)
  ess : Nat                     -- essence of the event's body (`new`)
  lastHandled : Option Nat      -- last-handled essence the body carries (`old`)
  deriving DecidableEq, Repr

/-- The facts the reset condition reads. -/
structure ResetAtoms where
  seenIsNone : Bool        -- `seen is None`: the first event of this memory (a new object, or the operator's restart)
  diffLastHandled : Bool   -- `bool(diff)`: the essence differs from the last-handled one (or none is stored)
  diffSeen : Bool          -- the essence differs from the previously processed one (`false` on the first event)
  deriving DecidableEq, Repr

/-- `essentially_changed` of `_detect_causes` (since 14876bf) -/
def resetCond (a : ResetAtoms) : Bool := if a.seenIsNone then a.diffLastHandled else a.diffSeen

/-- the variant before 14876bf: the difference to the LAST-HANDLED essence counts on every event (finding C10-F3) -/
def resetCondLastHandled (a : ResetAtoms) : Bool := a.diffLastHandled || a.diffSeen

def resetAtoms (lastHandled seen : Option Nat) (new : Nat) : ResetAtoms :=
  { seenIsNone := seen.isNone, diffLastHandled := lastHandled != some new, diffSeen := seen.getD new != new }

/-- the event writes `idle_reset_time`; `seen = none` on the first event of the memory -/
def resetsIdle (lastHandled seen : Option Nat) (new : Nat) : Bool := resetCond (resetAtoms lastHandled seen new)

/-- … in the variant before 14876bf -/
def resetsIdleLastHandled (lastHandled seen : Option Nat) (new : Nat) : Bool :=
  resetCondLastHandled (resetAtoms lastHandled seen new)

/-- the two places that write `idle_reset_time` under the reset condition -/
inductive StampSite where
  | afterDetect      -- `process_resource_causes`, right after `_detect_causes` (f6dee42)
  | spawningCause    -- `process_spawning_cause`
  deriving DecidableEq, Repr

def stampSites : List StampSite := [.afterDetect, .spawningCause]

/-- a stamp with loop time `x` as far as it is visible to a read at `t` (stamps never go back) -/
def stamp (reset : Bool) (t x acc : Int) : Int := if reset && decide (x ≤ t) && decide (acc ≤ x) then x else acc

/-- one event: (`idle_reset_time` as read at `t`, `last_seen_essence`); both stamps of a resetting event -/
def viewStep (t : Int) (s : Int × Option Nat) (e : Ev) : Int × Option Nat :=
  let r := resetsIdle e.lastHandled s.2 e.ess
  (stamp r t e.t (stamp r t e.recv s.1), some e.ess)

/-- `memory.idle_reset_time` as read at `t`: the creation time of the memory, or the time of the latest
    resetting event processed so far (events of the same instant count as processed). -/
def viewOf (created : Int) (evs : List Ev) (t : Int) : Int :=
  (evs.foldl (viewStep t) (created, none)).1

/-- the same in the variant before 14876bf (regression theorems only) -/
def viewStepLastHandled (t : Int) (s : Int × Option Nat) (e : Ev) : Int × Option Nat :=
  let r := resetsIdleLastHandled e.lastHandled s.2 e.ess
  (stamp r t e.t (stamp r t e.recv s.1), some e.ess)

def viewOfLastHandled (created : Int) (evs : List Ev) (t : Int) : Int :=
  (evs.foldl (viewStepLastHandled t) (created, none)).1

/-- Times of the essential changes after an event with essence `prev`: the essence differs from the
    previously processed version. -/
def essentialAfter : Nat → List Ev → List Int
  | _, [] => []
  | prev, e :: es => (if prev = e.ess then [] else [e.t]) ++ essentialAfter e.ess es

/-- Times at which this operator process sees an essential change of the object. The first event of the
    memory is one when the object differs from what was last handled (a new object, a change made while
    no operator was running, or no last-handled record at all); a first sight of an unchanged, already
    handled object (operator restart) is NOT a change of the object. -/
def essentialTimes : List Ev → List Int
  | [] => []
  | e :: es => (if e.lastHandled = some e.ess then [] else [e.t]) ++ essentialAfter e.ess es

/-- The events that are essential changes (same rule as `essentialTimes`, which lists their `t`). -/
def essentialEvsAfter : Nat → List Ev → List Ev
  | _, [] => []
  | prev, e :: es => (if prev = e.ess then [] else [e]) ++ essentialEvsAfter e.ess es

def essentialEvs : List Ev → List Ev
  | [] => []
  | e :: es => (if e.lastHandled = some e.ess then [] else [e]) ++ essentialEvsAfter e.ess es

/-- The idle clause counted from the RECEIPT of the change (`recv`: detected, no handler of the cycle has run
    yet) instead of from the instant the cycle reaches `process_spawning_cause`. -/
def FullIdleRecv (idle : Int) (evs : List Ev) (its : List Iter) : Prop :=
  ∀ it ∈ its, it.res.isSome = true → ∀ e ∈ essentialEvs evs, e.recv ≤ it.start → idle ≤ it.start - e.recv

/-- both stamps of the events of a list -/
def stampsOf : List Ev → List Int
  | [] => []
  | e :: es => e.recv :: e.t :: stampsOf es

/-- The property's idle clause in full: no run starts within the idle time after an essential change. -/
def FullIdle (idle : Int) (evs : List Ev) (its : List Iter) : Prop :=
  ∀ it ∈ its, it.res.isSome = true → ∀ c ∈ essentialTimes evs, c ≤ it.start → idle ≤ it.start - c

/-! ### Executable form (for the step comparison with the real operator)

The same loops with fuel, over a *partial* view (the reads that were observed). -/
abbrev PView := Int → Option Int

inductive Res where
  | start (top t : Int) -- the loop top is reached at `top`, the iteration starts at `t`
  | ended                -- the loop broke (one-shot timer)
  | noObs (t : Int)     -- the model wants to read `idle_reset_time` at `t`, nothing was observed there
  | diverged             -- fuel exhausted (e.g. `idle ≤ 0` in the poll loop: the real loop spins)
  deriving DecidableEq, Repr

def idleWaitN (idle : Int) (pv : PView) : Nat → Int → Res
  | 0, _ => .diverged
  | n + 1, t =>
    match pv t with
    | none => .noObs t
    | some v => if t - v < idle then idleWaitN idle pv n (v + idle) else .start t t

/-- the gate entered at `t` (the loop top) -/
def gateN (cfg : Cfg) (pv : PView) (n : Nat) (t : Int) : Res :=
  match cfg.idle with
  | none => .start t t
  | some idle => (match idleWaitN idle pv n t with | .start _ t' => .start t t' | other => other)

def pollN (idle : Int) (pv : PView) (start : Int) : Nat → Int → Res
  | 0, _ => .diverged
  | n + 1, p =>
    match pv p with
    | none => .noObs p
    | some v => if v ≤ start then pollN idle pv start n (sleepUntil p idle) else .start p p

/-- start of the iteration that follows `it`, which left the state `h'` -/
def nextStartN (cfg : Cfg) (pv : PView) (n : Nat) (h' : HState) (it : Iter) : Res :=
  match wake cfg h' it with
  | .at w => gateN cfg pv n w
  | .poll idle =>
    match pollN idle pv it.start n it.patched with
    | .start _ p => gateN cfg pv n p
    | other => other
  | .stop => .ended

def firstStartN (cfg : Cfg) (pv : PView) (n : Nat) (spawn : Int) : Res :=
  gateN cfg pv n (initialWake cfg spawn)

/-- the partial view agrees with the total one wherever it is defined -/
def Extends (pv : PView) (view : View) : Prop := ∀ t v, pv t = some v → view t = v

/-- Executable check that a concrete list of iteration records is a `Sched` (sound: `schedCheck_sound`). -/
def chainCheck (cfg : Cfg) (pv : PView) (n : Nat) : HState → Iter → List Iter → Bool
  | _, _, [] => true
  | h, it, it' :: rest =>
    decide (nextStartN cfg pv n (step cfg h it) it = .start it'.top it'.start) && decide (it'.ok cfg (step cfg h it)) &&
      chainCheck cfg pv n (step cfg h it) it' rest

def schedCheck (cfg : Cfg) (pv : PView) (n : Nat) (spawn : Int) : List Iter → Bool
  | [] => true
  | it :: rest =>
    decide (firstStartN cfg pv n spawn = .start it.top it.start) && decide (it.ok cfg (initState cfg spawn)) &&
      chainCheck cfg pv n (initState cfg spawn) it rest

/-! ### Vocabulary of the translator (`Kopf/Extracted/C10.lean` is generated over these) -/

/-- The facts the post-run branch chain reads. -/
structure PostAtoms where
  done : Bool          -- `state.done`
  hasInterval : Bool   -- `handler.interval is not None`
  sharp : Bool         -- `handler.sharp`
  hasIdle : Bool       -- `handler.idle is not None`
  interval : Int      -- `handler.interval` (read only under `hasInterval`)
  idle : Int          -- `handler.idle` (read only under `hasIdle`)
  now : Int           -- `clock()` in the chain = the instant `patch_and_check` returned
  started : Int
  delays : Int        -- `min(state.delays)`
  deriving DecidableEq, Repr

/-- What a branch of the chain does. -/
inductive Post where
  | sleep (d : Int)            -- `await aiotime.sleep(d, wakeup=stopper.async_event)`
  | idlePoll (idle : Int)      -- `while memory.idle_reset_time <= started …: await aiotime.sleep(idle, …)`
  | stop                        -- `break`
  deriving DecidableEq, Repr

def postAtoms (cfg : Cfg) (h' : HState) (it : Iter) : PostAtoms :=
  { done := h'.finished,
    hasInterval := cfg.interval.isSome, sharp := cfg.sharp, hasIdle := cfg.idle.isSome,
    interval := cfg.interval.getD 0, idle := cfg.idle.getD 0,
    now := it.patched, started := it.start,
    delays := h'.delay it.patched }

def wakeOfPost (now : Int) : Post → Wake
  | .sleep d => .at (sleepUntil now d)
  | .idlePoll idle => .poll idle
  | .stop => .stop

/-- The facts the reset at the top of the loop reads. -/
structure TopAtoms where
  done : Bool          -- `state.done`
  anyFailure : Bool    -- `state.counts.failure` truthiness
  deriving DecidableEq, Repr

/-- the loop resets the state (`true`) or keeps it -/
def resetAtTop (a : TopAtoms) : Bool := a.done && !a.anyFailure

/-- `if state.done and state.counts.failure: memory.forever_stopped.add(handler.id)` (after `with_outcomes`):
    the timer is never spawned again in this operator process -/
def marksForeverStopped (a : TopAtoms) : Bool := a.done && a.anyFailure

/-- the fact the clock restart after the idle gate reads -/
structure StartAtoms where
  anyAttempt : Bool    -- `state[handler.id].retries` truthiness
  deriving DecidableEq, Repr

/-- the series' state is re-created at `started = clock()` -/
def restartsClock (a : StartAtoms) : Bool := !a.anyAttempt

/-- The facts the two idle loops read. -/
structure GateAtoms where
  now : Int       -- `clock()`
  reset : Int     -- `memory.idle_reset_time`
  idle : Int      -- `handler.idle`
  started : Int
  deriving DecidableEq, Repr

/-- the idle gate's loop condition and sleep argument; the poll loop's condition and sleep argument -/
def idleCond (a : GateAtoms) : Bool := decide (a.now - a.reset < a.idle)
def idleDelay (a : GateAtoms) : Int := a.reset + a.idle - a.now
def pollCond (a : GateAtoms) : Bool := decide (a.reset ≤ a.started)
def pollDelay (a : GateAtoms) : Int := a.idle

/-- The statement skeleton of `_timer` the model is written against. -/
inductive Step where
  | initialDelay | freshState | yieldToLoop | resetUnlessFailed | idleGate | restartClockIfNoAttempt | stampStart | execute
  | withOutcomes | markForeverStopped
  | deliver | patch | rebindPatch | post
  deriving DecidableEq, Repr

def prologue : List Step := [.initialDelay, .freshState]
def loopBody : List Step :=
  [.yieldToLoop, .resetUnlessFailed, .idleGate, .restartClockIfNoAttempt, .stampStart, .execute, .withOutcomes,
   .markForeverStopped, .deliver, .patch, .rebindPatch, .post]

/-- The loops of `_timer` whose condition carries `not stopper.is_set()` (all of them). -/
inductive LoopId where
  | main | idleGate | idlePoll
  deriving DecidableEq, Repr

def stopperGuards : List LoopId := [.main, .idleGate, .idlePoll]

/-! ### What the property calls an essential change, event by event (fixed finding C10-F3)

`isEssential` is the event-level reading of `essentialTimes`, written from the PROPERTY: the essence differs from the
previously processed one; on the first event of the memory, from the last-handled one (or nothing is stored). Since
14876bf `resetsIdle` (the code) is the same function (Props: `reset_iff_essential`); before, it also fired on events
that are not essential changes: whenever the essence differed from what is stored as last handled — on every event
while a change was not handled yet, and on every event at all when nothing is stored (operators without
change-detecting handlers). -/
def isEssential (lastHandled seen : Option Nat) (new : Nat) : Bool :=
  match seen with
  | none => lastHandled != some new
  | some s => s != new

/-- every later event shows the same essence as `e0`: the object does not change after `e0` (whatever is, or is not,
    stored as last handled meanwhile) -/
def Unchanged (e0 : Ev) (es : List Ev) : Prop := ∀ e ∈ es, e.ess = e0.ess

/-! ### How a timer task ends (`daemons._runner` around `_timer`; fixed finding C10-F4)

The loop of `_timer` is left by the stopper (a reason is recorded by whoever set it) or by `break` (one-shot). The
handler's own errors are outcomes of `execute_handlers_once`; the one statement of the loop body that can raise —
`application.patch_and_check` (the API client, after its own retries) — is guarded since b8b3089 (`onPatchError`).
`_runner`'s `finally` is unchanged:

    if stopper.reason is None: memory.forever_stopped.add(handler.id)

and `spawn_daemons` is given `get_handlers(excluded=forever_stopped)`: an exception that did leave `_timer` would still
end the timer for good (`Exit.raised`; the variant `OnPatchError.propagate` is the code before b8b3089). -/
inductive Exit where
  | stopped     -- asked to stop (filters mismatch, deletion, pause, exit): a reason is recorded, however the task ends afterwards
  | returned    -- `break`: neither interval nor idle; nobody asked
  | raised      -- an exception left `_timer` (before b8b3089: out of the post-run patch); nobody asked
  deriving DecidableEq, Repr

/-- the fact `_runner`'s `finally` reads -/
structure RunnerAtoms where
  reasonIsNone : Bool     -- `stopper.reason is None`
  deriving DecidableEq, Repr

def runnerMarksForever (a : RunnerAtoms) : Bool := a.reasonIsNone

/-- nobody sets a reason when the task ends by itself -/
def Exit.reasonIsNone : Exit → Bool
  | .stopped => false
  | .returned => true
  | .raised => true

/-- `handler.id ∈ memory.forever_stopped` after the task has ended -/
def foreverAfter (already : Bool) (e : Exit) : Bool := already || runnerMarksForever { reasonIsNone := e.reasonIsNone }

/-- a later event of the object may spawn the timer again -/
def respawnable (forever : Bool) : Bool := !forever

/-- How the post-run `patch_and_check` of an iteration ended. -/
inductive PatchEnd where
  | delivered   -- returned: the merge-patch content is stored, `remaining` = what could not be applied (transformations)
  | raised      -- an API error beyond the request's own retries (5xx, connection errors, time-outs, 403, 422, …)
  deriving DecidableEq, Repr

/-- What `_timer` does with an exception (not a cancellation) out of the post-run patch. -/
inductive OnPatchError where
  | propagate   -- before b8b3089: no handler; the exception ends the task (`Exit.raised`)
  | keepPatch   -- `except Exception: remaining_patch = patch`: the undelivered patch is carried, the loop goes on
  deriving DecidableEq, Repr

/-- the code (translator-tied: `on_patch_error_eq`) -/
def onPatchError : OnPatchError := .keepPatch

/-- does the task end with the post-run patch of an iteration (`none`: the post-run branch chain is entered) -/
def exitAfterPatch (pol : OnPatchError) : PatchEnd → Option Exit
  | .delivered => none
  | .raised => match pol with | .propagate => some .raised | .keepPatch => none

/-- `cause.patch` of the next iteration before its run adds to it; patch content abstracted to a list of items:
    `patch` = what was handed to `patch_and_check` (carried items + this run's result/progress), `remaining` = what a
    successful delivery hands back -/
def carriedPatch (pol : OnPatchError) (patch remaining : List Nat) : PatchEnd → List Nat
  | .delivered => remaining
  | .raised => match pol with | .propagate => [] | .keepPatch => patch

/-- A run sequence under a policy: `raisedAt n` = the post-run patch of iteration `n` raised. Under `propagate` such an
    iteration is the last of its task; under `keepPatch` nothing is added to `Sched` (the instant the patch gave up
    is the iteration's `patched`, every post-run sleep is entered there). -/
def SchedUnder (pol : OnPatchError) (cfg : Cfg) (view : View) (spawn : Int) (its : List Iter) (raisedAt : Nat → Bool) : Prop :=
  Sched cfg view spawn its ∧
    ∀ n, n + 1 < its.length → exitAfterPatch pol (if raisedAt n then .raised else .delivered) = none

end Kopf.C10
