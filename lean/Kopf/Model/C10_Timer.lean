/-
  C10 model — the loop of `kopf._core.engines.daemons._timer`, one *run* (= one loop iteration that
  reaches `started = clock()`) at a time. Integer ticks (the harness uses 1 tick = 1/64 s). Core Lean only.

  The code, abridged (all sleeps are `aiotime.sleep(d, wakeup=stopper)`: return at once when `d ≤ 0`):

      if handler.initial_delay is not None: sleep(initial_delay)
      state = fresh
      while not stopper.is_set():
          if state.done and not state.counts.failure: state = fresh  # success only; a failed state is kept
          if handler.idle is not None:
              while clock() - memory.idle_reset_time < handler.idle:  # the idle gate
                  sleep(memory.idle_reset_time + handler.idle - clock())
          started = clock()
          outcomes = execute_handlers_once(...)                       # the function runs here
          state = state.with_outcomes(outcomes)                       # delayed := now + outcome.delay
          _, remaining = patch_and_check(patch)                       # API round trip(s) iff patch ≠ {}
          if not state.done:              sleep(state.delays)         # max(0, delayed - now)
          elif interval and sharp:        sleep(interval - (clock() - started) % interval)
          elif interval:                  sleep(interval)
          elif idle:                      while memory.idle_reset_time <= started and not stopper.is_set(): sleep(idle)
          else:                           break

  After a run that FAILED FOR GOOD (PermanentError, errors=PERMANENT, retries exhausted) the state is
  kept: it is done, so `execute_handlers_once` finds nothing awakened and invokes nothing, `with_outcomes({})`
  changes nothing, and the loop keeps going round the interval / idle branches (or breaks, for a
  one-shot timer) without ever calling the function again: such a run has no successor (`Next` is
  false; `nextStartN` answers `never`, or `ended` when the loop breaks).
  How the stopper enters: it is not a component of the model. Every loop of `_timer` (main loop, idle
  gate, idle-only poll loop — `stopperGuards`, checked by the translator) has `not stopper.is_set()` in
  its condition and every sleep is woken by it, so once it is set no further run starts and the task
  ends: a run sequence `Sched` is any PREFIX of the unstopped behaviour (`Chain.nil` at any point).
  Preconditions under which the arithmetic equals Python's: `interval > 0` (Python's float `%` and
  Lean's `Int.emod` agree for a positive divisor and a non-negative dividend; `interval = 0` raises
  ZeroDivisionError in the sharp branch) and handler `timeout` unset (otherwise an iteration can fail
  its pre-check without invoking the function).
-/
namespace Kopf.C10

-- Time is in ticks (1 tick = 1/64 s in the harness), typed plain `Int` so that `omega` sees it.

inductive ErrorsMode where
  | ignored | temporary | permanent
  deriving DecidableEq, Repr, Inhabited

/-- What the loop reads of the handler declaration (`handlers.TimerHandler`) and the settings. -/
structure Cfg where
  interval : Option Int
  sharp : Bool                       -- `handler.sharp` truthiness (None = False)
  idle : Option Int
  initialDelay : Option Int
  backoff : Int                     -- `handler.backoff`, else `settings.execution.default_backoff`
  errors : ErrorsMode := .temporary  -- `handler.errors`, else TEMPORARY
  retries : Option Nat := none       -- `handler.retries`
  deriving DecidableEq, Repr

/-- How the timer function ended. -/
inductive Result where
  | ok
  | temporary (delay : Option Int)  -- `TemporaryError(delay=…)`
  | arbitrary                        -- any other exception
  | permanent                        -- `PermanentError`
  deriving DecidableEq, Repr

/-- `execution.Outcome` as far as the loop reads it: `state.done`, and the delay of a non-final one. -/
inductive Outcome where
  | done                             -- final, no exception: success, or an error under errors=IGNORED
  | failed                           -- final with an exception: PermanentError, errors=PERMANENT, retries exhausted
  | retry (delay : Option Int)
  deriving DecidableEq, Repr

/-- `lookahead_retries` of `execute_handler_once` -/
def lookaheadRetries (cfg : Cfg) (attempt : Nat) : Bool :=
  match cfg.retries with
  | some n => decide (attempt + 1 ≥ n)
  | none => false

/-- the `except` chain of `execute_handler_once` (timeout unset) -/
def classify (cfg : Cfg) (attempt : Nat) : Result → Outcome
  | .ok => .done
  | .permanent => .failed
  | .temporary d => if lookaheadRetries cfg attempt then .failed else .retry d
  | .arbitrary =>
    match cfg.errors with
    | .ignored => .done
    | .permanent => .failed
    | .temporary => if lookaheadRetries cfg attempt then .failed else .retry (some cfg.backoff)

/-- One run of the timer function, with the three instants the schedule depends on. -/
structure Run where
  start : Int      -- `started = clock()`; the function is entered in the same instant
  ended : Int      -- the function returned/raised; `with_outcomes` stamps `delayed = ended + delay`
  patched : Int    -- the post-run `patch_and_check` returned (= `ended` when the patch is empty)
  attempt : Nat     -- `state.retries` before the run (the `retry` kwarg)
  res : Result
  deriving DecidableEq, Repr

def Run.WF (r : Run) : Prop := r.start ≤ r.ended ∧ r.ended ≤ r.patched

instance (r : Run) : Decidable r.WF := by unfold Run.WF; infer_instance

def Run.out (cfg : Cfg) (r : Run) : Outcome := classify cfg r.attempt r.res

/-- `retry` kwarg of the following run: the state is reset exactly when it is done without a failure
    (after `failed` there is no following run). -/
def nextAttempt (cfg : Cfg) (r : Run) : Nat :=
  match r.out cfg with
  | .retry _ => r.attempt + 1
  | _ => 0

/-- `aiotime.sleep(d)` entered at `now` returns at `now + d`, or at once when `d ≤ 0`. -/
def sleepUntil (now d : Int) : Int := if d ≤ 0 then now else now + d

/-- `state.delays` (single handler) read at `now`: `max(0, delayed - now)`; `0` when `delayed` is None. -/
def stateDelay (ended now : Int) : Option Int → Int
  | some d => if ended + d - now ≤ 0 then 0 else ended + d - now
  | none => 0

/-- Where the post-run branch chain leaves the loop. -/
inductive Wake where
  | at (t : Int)          -- back at the top of the loop at `t`
  | poll (idle : Int)     -- idle-only: poll every `idle` until the object has changed since `started`
  | stop                   -- neither interval nor idle: one-shot
  deriving DecidableEq, Repr

/-- The post-run branch chain. NB: every sleep is entered at `r.patched`, so "one interval after the
    previous run ended" is, in the code, one interval after the end of the post-run *patch*. -/
def wake (cfg : Cfg) (r : Run) : Wake :=
  match r.out cfg with
  | .retry d => .at (sleepUntil r.patched (stateDelay r.ended r.patched d))
  | _ =>      -- `state.done`: succeeded or failed for good alike
    match cfg.interval with
    | some i =>
      if cfg.sharp then .at (sleepUntil r.patched (i - (r.patched - r.start) % i))
      else .at (sleepUntil r.patched i)
    | none =>
      match cfg.idle with
      | some idle => .poll idle
      | none => .stop

/-- Where the initial delay leaves a freshly spawned timer task. -/
def initialWake (cfg : Cfg) (spawn : Int) : Int :=
  match cfg.initialDelay with
  | some d => sleepUntil spawn d
  | none => spawn

/-! ### The environment: what the loop reads of `memory.idle_reset_time`

`View t` is the value of `idle_reset_time` the timer task reads at loop time `t` (the loop time of
the last essential change processed so far; a change processed later in the same instant is not
in it). It is an arbitrary function in the theorems (any timing of object changes). -/
abbrev View := Int → Int

/-- The idle gate at the top of the loop: entered at `t`, left (towards `started = clock()`) at `t'`. -/
inductive IdleWait (idle : Int) (view : View) : Int → Int → Prop where
  | pass {t : Int} : ¬ (t - view t < idle) → IdleWait idle view t t
  | wait {t t' : Int} : t - view t < idle → IdleWait idle view (view t + idle) t' → IdleWait idle view t t'

def Gate (cfg : Cfg) (view : View) (t t' : Int) : Prop :=
  match cfg.idle with
  | none => t' = t
  | some idle => IdleWait idle view t t'

/-- The idle-only poll loop: entered at `p`, left at `p'` once a change newer than `start` is seen. -/
inductive Poll (idle : Int) (view : View) (start : Int) : Int → Int → Prop where
  | exit {p : Int} : ¬ (view p ≤ start) → Poll idle view start p p
  | again {p p' : Int} : view p ≤ start → Poll idle view start (sleepUntil p idle) p' → Poll idle view start p p'

/-- `t'` is a possible start of the run that follows `r`. A run that failed for good has none: the
    loop goes on (`wake`), but the kept state awakens nothing and the function is never invoked again. -/
def Next (cfg : Cfg) (view : View) (r : Run) (t' : Int) : Prop :=
  r.out cfg ≠ .failed ∧
  match wake cfg r with
  | .at w => Gate cfg view w t'
  | .poll idle => ∃ p, Poll idle view r.start r.patched p ∧ Gate cfg view p t'
  | .stop => False

/-- `t'` is a possible start of the first run of a timer task spawned at `spawn`. -/
def First (cfg : Cfg) (view : View) (spawn t' : Int) : Prop :=
  Gate cfg view (initialWake cfg spawn) t'

/-- Runs following `r` within one timer task. -/
inductive Chain (cfg : Cfg) (view : View) : Run → List Run → Prop where
  | nil (r : Run) : Chain cfg view r []
  | cons {r r' : Run} {rs : List Run} :
      Next cfg view r r'.start → r'.WF → r'.attempt = nextAttempt cfg r → Chain cfg view r' rs →
      Chain cfg view r (r' :: rs)

/-- The run sequence of one timer task spawned at `spawn` (any prefix of it: a stop truncates). -/
def Sched (cfg : Cfg) (view : View) (spawn : Int) : List Run → Prop
  | [] => True
  | r :: rs => First cfg view spawn r.start ∧ r.WF ∧ r.attempt = 0 ∧ Chain cfg view r rs

/-! ### When `idle_reset_time` is written (`processing._detect_causes` / `process_spawning_cause`)

`reset = bool(diff(old, new))` where `old` is the essence stored on the object as LAST HANDLED
(`none`: nothing stored, e.g. no change handlers at all) and `new` the essence of the event's body —
not the essence of the previously seen version. Essences are abstracted to `Nat`. -/
def resetsIdle (lastHandled : Option Nat) (new : Nat) : Bool := lastHandled != some new

/-! ### Executable form (for the step comparison with the real operator)

The same loops with fuel, over a *partial* view (the reads that were observed). -/
abbrev PView := Int → Option Int

inductive Res where
  | start (t : Int)
  | ended                -- the loop broke (one-shot timer)
  | never                -- the run failed for good: the loop goes on, the function is never invoked again
  | noObs (t : Int)     -- the model wants to read `idle_reset_time` at `t`, nothing was observed there
  | diverged             -- fuel exhausted (e.g. `idle ≤ 0` in the poll loop: the real loop spins)
  deriving DecidableEq, Repr

def idleWaitN (idle : Int) (pv : PView) : Nat → Int → Res
  | 0, _ => .diverged
  | n + 1, t =>
    match pv t with
    | none => .noObs t
    | some v => if t - v < idle then idleWaitN idle pv n (v + idle) else .start t

def gateN (cfg : Cfg) (pv : PView) (n : Nat) (t : Int) : Res :=
  match cfg.idle with
  | none => .start t
  | some idle => idleWaitN idle pv n t

def pollN (idle : Int) (pv : PView) (start : Int) : Nat → Int → Res
  | 0, _ => .diverged
  | n + 1, p =>
    match pv p with
    | none => .noObs p
    | some v => if v ≤ start then pollN idle pv start n (sleepUntil p idle) else .start p

def nextStartN (cfg : Cfg) (pv : PView) (n : Nat) (r : Run) : Res :=
  if r.out cfg = .failed then
    (match wake cfg r with
     | .stop => .ended
     | _ => .never)
  else
    match wake cfg r with
    | .at w => gateN cfg pv n w
    | .poll idle =>
      match pollN idle pv r.start n r.patched with
      | .start p => gateN cfg pv n p
      | other => other
    | .stop => .ended

def firstStartN (cfg : Cfg) (pv : PView) (n : Nat) (spawn : Int) : Res :=
  gateN cfg pv n (initialWake cfg spawn)

/-! ### Vocabulary of the translator (`Kopf/Extracted/C10.lean` is generated over these) -/

/-- The facts the post-run branch chain reads. -/
structure PostAtoms where
  done : Bool          -- `state.done`
  hasInterval : Bool   -- `handler.interval is not None`
  sharp : Bool         -- `handler.sharp`
  hasIdle : Bool       -- `handler.idle is not None`
  interval : Int      -- `handler.interval` (read only under `hasInterval`)
  idle : Int          -- `handler.idle` (read only under `hasIdle`)
  now : Int           -- `clock()` in the chain = the instant `patch_and_check` returned
  started : Int
  delays : Int        -- `min(state.delays)`
  deriving DecidableEq, Repr

/-- What a branch of the chain does. -/
inductive Post where
  | sleep (d : Int)            -- `await aiotime.sleep(d, wakeup=stopper.async_event)`
  | idlePoll (idle : Int)      -- `while memory.idle_reset_time <= started: await aiotime.sleep(idle, …)`
  | stop                        -- `break`
  deriving DecidableEq, Repr

def postAtoms (cfg : Cfg) (r : Run) : PostAtoms :=
  { done := (match r.out cfg with | .retry _ => false | _ => true),
    hasInterval := cfg.interval.isSome, sharp := cfg.sharp, hasIdle := cfg.idle.isSome,
    interval := cfg.interval.getD 0, idle := cfg.idle.getD 0,
    now := r.patched, started := r.start,
    delays := (match r.out cfg with | .retry d => stateDelay r.ended r.patched d | _ => 0) }

def wakeOfPost (now : Int) : Post → Wake
  | .sleep d => .at (sleepUntil now d)
  | .idlePoll idle => .poll idle
  | .stop => .stop

/-- The facts the two idle loops read. -/
structure GateAtoms where
  now : Int       -- `clock()`
  reset : Int     -- `memory.idle_reset_time`
  idle : Int      -- `handler.idle`
  started : Int
  deriving DecidableEq, Repr

/-- the idle gate's loop condition and sleep argument; the poll loop's condition and sleep argument -/
def idleCond (a : GateAtoms) : Bool := decide (a.now - a.reset < a.idle)
def idleDelay (a : GateAtoms) : Int := a.reset + a.idle - a.now
def pollCond (a : GateAtoms) : Bool := decide (a.reset ≤ a.started)
def pollDelay (a : GateAtoms) : Int := a.idle

/-- The statement skeleton of `_timer` the model is written against. -/
inductive Step where
  | initialDelay | freshState | resetUnlessFailed | idleGate | stampStart | execute | withOutcomes
  | deliver | patch | rebindPatch | post
  deriving DecidableEq, Repr

def prologue : List Step := [.initialDelay, .freshState]
def loopBody : List Step :=
  [.resetUnlessFailed, .idleGate, .stampStart, .execute, .withOutcomes, .deliver, .patch, .rebindPatch, .post]

/-- The loops of `_timer` whose condition carries `not stopper.is_set()` (all of them). -/
inductive LoopId where
  | main | idleGate | idlePoll
  deriving DecidableEq, Repr

def stopperGuards : List LoopId := [.main, .idleGate, .idlePoll]

end Kopf.C10
