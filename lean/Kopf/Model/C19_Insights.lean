/-
  C19 model, part 4 — the cluster → `Insights` layer for namespaces (`observation.namespace_observer`):

      objs, _ = await fetching.list_objs(resource=NAMESPACES)             # the observer's OWN listing
      revise_namespaces(raw_bodies=objs, …)                               # → insights.namespaces
      await queueing.watcher(resource=NAMESPACES, processor=process_discovered_namespace_event)

      async def process_discovered_namespace_event(*, raw_event, …):
          if raw_event['type'] is None:       # every item of every listing of the watch-stream
              return                          # … is thrown away
          async with insights.revised:
              revise_namespaces(raw_events=[raw_event], …)                # DELETED: discard; else: add (if matched)
              insights.revised.notify_all()

  The watch-stream of the meta-watcher is the very `infinite_watch` of `Model/C19_Watch.lean` (objects =
  namespaces); its consumer keeps `insights.namespaces` = what the observer's own listing showed, updated
  by the EVENTS only: the listings of the stream (the first one, a moment after the observer's own; every
  re-listing after a 410 or a reconnect backoff) are ignored.
  (`resource_observer` does the same for CRDs, except that any event re-scans the whole API group, so a
  missed CRD change is healed by the next CRD event of that group; not modelled separately.)
  Patterns: `evView` is over the namespaces that match the operator's patterns; `reviseNs` carries the verdict per item.
  Core Lean only.
-/
import Kopf.Model.C19_Watch
namespace Kopf.C19

/-- `insights.namespaces` as a function of what the meta-watcher's consumer was handed (newest first):
    `base` is what the observer's own listing showed; an event sets (DELETED: removes) its namespace;
    listed items and everything else change nothing. `some rv` = served (known at version `rv`). -/
def evView (base : Nat → Option Nat) : List Out → Nat → Option Nat
  | [], k => base k
  | .event kind k' rv :: past, k =>
      if k' = k then (if kind = .deleted then none else some rv) else evView base past k
  | _ :: past, k => evView base past k

/-- Every stored version after the observer's own listing (made at version `r0`) and up to `since` went
    through the stream as an EVENT — i.e. none of them fell into a gap that only a listing covered
    (between the observer's listing and the stream's first one; between a 410 / backoff and the re-list). -/
def AllDelivered (r0 : Nat) (w : World) : Prop :=
  ∀ e ∈ w.log, r0 < e.rv → e.rv ≤ w.since → Out.event e.kind e.key e.rv ∈ w.outs

/-- the cluster's history before the operator starts: writes only -/
def OnlyChanges (pre : List Act) : Prop := ∀ a ∈ pre, ∃ k kind vis, a = Act.change k kind vis

/-! ### `revise_namespaces` itself: Terminating namespaces

      for raw_event in all_events:                       # listed bodies (type None) and events alike
          matched  = any(match_namespace(name, pattern) …)
          deleted  = is_deleted(raw_event)                # type == 'DELETED', or deletionTimestamp AND status.conditions
          blockers = get_blockers(raw_event)              # the conditions with status 'True'
          if deleted and blockers:   (log)                # Terminating, content / finalizers remain:
              if matched and raw_event['type'] != 'DELETED':
                  insights.namespaces.add(namespace)      #   it still exists: served, also at first sight (kopf 40faad4)
          elif deleted:              insights.namespaces.discard(namespace)
          elif matched:              insights.namespaces.add(namespace)

  Kubernetes never deletes a namespace at once: it is marked (deletionTimestamp), the namespace controller writes
  its conditions (NamespaceContentRemaining / NamespaceFinalizersRemaining = True while objects — e.g. those
  carrying the operator's own finalizers — are still there), and only when nothing remains the object goes.
  `NsMark` is that reading of a namespace body; `matched` is the verdict of the operator's patterns on the name
  (pattern matching itself: `references.match_namespace`, not modelled; the tie feeds an independent matcher's verdict). -/

inductive NsMark where
  | live        -- no deletionTimestamp, or no status.conditions yet
  | blocked     -- marked for deletion, some condition is 'True': content / finalizers remain
  | finishing   -- marked for deletion, conditions present, none 'True'
  | odd         -- a condition is 'True' but there is no deletionTimestamp (no namespace controller writes that; `get_blockers`
                --   does not look at the mark, so a DELETED event with such a body is only logged)
  deriving DecidableEq, Repr

/-- one listed body or raw event handed to `revise_namespaces` -/
structure NsEv where
  gone : Bool        -- raw_event['type'] == 'DELETED'
  mark : NsMark
  key : Nat
  matched : Bool     -- any(match_namespace(name, pattern) for pattern in namespaces)
  deriving DecidableEq, Repr

/-- `is_deleted` -/
def NsEv.deleted (e : NsEv) : Bool := e.gone || e.mark == .blocked || e.mark == .finishing

/-- `bool(get_blockers(raw_event))` -/
def NsEv.blockers (e : NsEv) : Bool := e.mark == .blocked || e.mark == .odd

/-- `insights.namespaces.add` on a duplicate-free list -/
def nsAdd (served : List Nat) (k : Nat) : List Nat := if served.contains k then served else k :: served

/-- one iteration of the loop of `revise_namespaces` (`insights.namespaces` as a duplicate-free list) -/
def reviseNs (served : List Nat) (e : NsEv) : List Nat :=
  if e.deleted && e.blockers then (if e.matched && !e.gone then nsAdd served e.key else served)
  else if e.deleted then served.filter (fun k => k != e.key)
  else if e.matched then nsAdd served e.key else served

def reviseAll (served : List Nat) : List NsEv → List Nat
  | [] => served
  | e :: es => reviseAll (reviseNs served e) es

/-- The loop before kopf 40faad4 (`if deleted and blockers: log only`), kept for the regression theorem
    `old_revise_unserved_at_first_sight_regression`. -/
def reviseNsOld (served : List Nat) (e : NsEv) : List Nat :=
  if e.deleted && e.blockers then served
  else if e.deleted then served.filter (fun k => k != e.key)
  else if e.matched then nsAdd served e.key else served

def reviseAllOld (served : List Nat) : List NsEv → List Nat
  | [] => served
  | e :: es => reviseAllOld (reviseNsOld served e) es

/-- An event (or listed body) that says "this namespace exists": it is not a DELETED event, and the body is live
    or Terminating with something remaining. -/
def NsEv.exists_ (e : NsEv) : Bool := !e.gone && e.mark != .finishing

/-- An item that `revise_namespaces` only logs: a DELETED event whose body still carries a True condition. (Outside
    the namespace controller's contract: the conditions are all False before the object is removed.) -/
def NsEv.mute (e : NsEv) : Bool := e.gone && e.blockers

/-- the last item about namespace `k` that is not mute, if any — its "last word" -/
def lastWord (k : Nat) : List NsEv → Option NsEv
  | [] => none
  | e :: es =>
      match lastWord k es with
      | some l => some l
      | none => if e.key = k && !e.mute then some e else none

end Kopf.C19
