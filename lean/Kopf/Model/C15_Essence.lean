/-
  C15 model — which fields of the object the criteria of STATE-CHANGING handlers can see
  (`DiffBaseStorage.build`, kopf/_cogs/configs/diffbase.py, called from `processing._detect_causes` with the
  union of `get_extra_fields` of the watching, changing and spawning registries).

  `cause.old` / `cause.new` -- what `registries.match`/`prematch` resolve a changing handler's `field=` on -- are
  ESSENCES: the object minus `metadata` and `status` (labels and non-kopf annotations are put back), plus every field
  named by SOME handler of the resource ("extra fields"), each copied from the object by its path
  (`dicts.cherrypick(src=body, dst=essence, fields=[extra_field], picker=copy.deepcopy)`), one after another,
  all from the same object.  Abstraction: since every copy is a deep copy of the same object at a path, the essence
  agrees with the object exactly at the paths that lie at or under a copied path (`covered`); what a criterion on
  field `p` outside the always-kept stanzas is decided on is `seen`.  Core Lean only.
-/
import Kopf.Base.J

namespace Kopf.C15.Essence
open Kopf

abbrev Path := List String

/-- the field `p` lies at or under one of the copied paths -/
def covered (kept : List Path) (p : Path) : Bool := kept.any (fun q => q.isPrefixOf p)

/-- the value a criterion on `p` (a field outside spec/labels/annotations) is decided on, given which paths were copied -/
def seen (body : J) (kept : List Path) (p : Path) : Option J :=
  if covered kept p then J.resolve? body p else none

/-- the code: `for extra_field in extra_fields: cherrypick(...)` -- every field of every handler is copied -/
def restored (fields : List Path) : List Path := fields

/-- a harmless economy: a field is not copied when ANOTHER declared field is its path-wise ancestor -/
def dropChildren (fields : List Path) : List Path :=
  fields.filter (fun p => !(fields.any (fun q => q.length < p.length && q.isPrefixOf p)))

/-- the dotted name of a path, as characters -/
def dotted : Path → List Char
  | [] => []
  | [a] => a.toList
  | a :: rest => a.toList ++ '.' :: dotted rest

/-- the changed variant (seed C15h): the names in order, one is skipped when an EARLIER NAME is a textual prefix of it -/
def skipTextual : List Path → List Path → List Path
  | _, [] => []
  | before, p :: rest =>
      (if before.any (fun q => (dotted q).isPrefixOf (dotted p)) then [] else [p]) ++ skipTextual (before ++ [p]) rest

def restoredTextual (sortedFields : List Path) : List Path := skipTextual [] sortedFields

end Kopf.C15.Essence
