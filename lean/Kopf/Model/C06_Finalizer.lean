/-
  C06 model — the finalizer mechanism of kopf. Core Lean only.

  * `blockDeletion` / `allowDeletion` — `kopf/_cogs/structs/finalizers.py` on the list
    `metadata.finalizers` (an absent list is `[]`: the API server drops empty lists).
  * `decide` — the finalizer decision block of `processing.process_resource_causes`:
    `deletion_must_be_blocked`, the two early `if`s (add / remove-unneeded, each sets
    `changing_cause = None`), the consistency gate's early `return`, and the release `if`.
  * an LTS for ONE object and ONE operator process: the server-side object
    `{gone, marked, fins, rv, matchDel, matchDmn, delDone}`, the operator's memory
    `{mem = memory.remaining_patch.fns, dmnLive, dmnForever}` and the cycle in flight (`pending`).
    A processing cycle is split at its suspension points, so that foreign writes can be placed
    between any two requests of one `patch_obj` call:
      `decide e`     — `process_resource_causes` on the body the cycle was given (the view):
                       `patch = Patch(memory.remaining_patch)` (carried fns FIRST), then the decisions
      `mergePatch`   — the merge-patch request of `patch_obj` (if the patch has dict content); its
                       response becomes the `fresh_body` the JSON patch is computed and TESTED against
      `jsonPatch f`  — `ops = as_json_patch(fresh_body)`; no ops → nothing sent; else
                       `[test /metadata/resourceVersion] + ops`: applied iff the version is unchanged,
                       otherwise (or with an injected 422, `f = true`) HTTP 422; of the rejected fns
                       `process_resource_event` keeps in `memory.remaining_patch` only those that are
                       not the framework's own finalizer edits (`_is_finalizer_fn`) — i.e. none of the
                       fns of this model (repair 1c8f3dd; before it ALL fns were carried)
    Environment labels: `editFins` (foreign finalizer edit; never touches the own finalizer),
    `mark` (deletion request), `toggleDel`/`toggleDmn` (label edits that switch the matching of the
    mandatory deletion handler / of the daemon), `handlerFinishes`, `daemonExits`, `restart`.
-/
namespace Kopf.C06

/-! ## finalizers.py -/

/-- `block_deletion`: append iff absent. -/
def blockDeletion (f : String) (l : List String) : List String :=
  if f ∈ l then l else l ++ [f]

/-- `while finalizer in finalizers: finalizers.remove(finalizer)` — `list.remove` erases the first
occurrence. `n` bounds the number of iterations. -/
def allowLoop (f : String) : Nat → List String → List String
  | 0, l => l
  | n + 1, l => if f ∈ l then allowLoop f n (l.erase f) else l

/-- `allow_deletion`: the loop runs at most `len(l)` times (`allowLoop_eq_filter` in Lemmas shows
that this bound is never the reason for stopping). -/
def allowDeletion (f : String) (l : List String) : List String :=
  allowLoop f l.length l

/-- The two transformation functions that are ever put into `patch.fns`. -/
inductive Fn where
  | block   -- functools.partial(finalizers.block_deletion, finalizer=finalizer)
  | allow   -- functools.partial(finalizers.allow_deletion, finalizer=finalizer)
  deriving DecidableEq, Repr

def Fn.apply (own : String) : Fn → List String → List String
  | .block, l => blockDeletion own l
  | .allow, l => allowDeletion own l

/-- `_is_finalizer_fn`: `isinstance(fn, functools.partial) and fn.func in (block_deletion, allow_deletion)`. -/
def ownFns : List Fn := [Fn.block, Fn.allow]

/-- `carried_fns = [fn for fn in remaining_patch.fns if not _is_finalizer_fn(fn)]` -/
def carry (fns : List Fn) : List Fn := fns.filter (fun f => !ownFns.contains f)

/-- `for fn in self.fns: fn(body_to_be)` of `Patch.as_json_patch`. -/
def applyFns (own : String) (fns : List Fn) (l : List String) : List String :=
  fns.foldl (fun acc f => f.apply own acc) l

/-! ## The decision block of `process_resource_causes` -/

/-- `deletion_must_be_blocked` -/
def mustBlockG (spawning spawnReq changing changeReq : Bool) : Bool :=
  (spawning && spawnReq) || (changing && changeReq)

/-- first `if`: add the finalizer -/
def addG (must blocked ongoing : Bool) : Bool := must && !blocked && !ongoing

/-- second `if`: remove the finalizer nobody needs -/
def removeG (must blocked : Bool) : Bool := !must && blocked

/-- `if consistency_is_required and not consistency_is_achieved: return …` -/
def earlyG (changingAfter consistent : Bool) : Bool := changingAfter && !consistent

/-- Inside that early exit: `if paused: pass  elif consistency_time is not None: waiting_delays = [max(0,
consistency_time - now)]  elif not patch_initially_empty: waiting_delays = [0.]` — the cycle comes back when the waiting
time is over (repair 30557a0), resp. at once when it left because of a carried patch (the rework 02af7ce of 608a57d: carried
fns that are fulfilled already send nothing and bring no event). Before, the early exit returned the spawning delays only. -/
def waitG (deadline paused carried : Bool) : Bool := !paused && (deadline || carried)

/-- third `if`: release -/
def releaseG (deleted ongoing blocked delaysNonEmpty : Bool) : Bool :=
  !deleted && ongoing && blocked && !delaysNonEmpty

/-- Everything the block reads. -/
structure In where
  spawning : Bool      -- spawning_cause is not None
  spawnReq : Bool      -- registry._spawning.requires_finalizer(cause, excluded=forever_stopped)
  changing : Bool      -- changing_cause is not None (after the prematch narrowing)
  changeReq : Bool     -- registry._changing.requires_finalizer(cause)
  isBlocked : Bool     -- the own finalizer is in the body's list
  isOngoing : Bool     -- deletionTimestamp is set
  deletedEvent : Bool  -- raw_event['type'] == 'DELETED'
  consistent : Bool    -- final value of `consistency_is_achieved` (incl. `patch_initially_empty`)
  spawnDelays : Bool   -- spawning_delays is non-empty
  changeDelays : Bool  -- what process_changing_cause returns (if reached) is non-empty
  deadline : Bool      -- consistency_time is not None: the worker still awaits the version of its own last patch
  paused : Bool        -- operator_paused is not None and operator_paused.is_on()
  carried : Bool       -- not patch_initially_empty: the cycle's patch started with carried fns (all three: read at the early exit only)
  deriving DecidableEq, Repr

structure Decision where
  add : Bool
  removeUnneeded : Bool
  release : Bool
  handlersRun : Bool   -- process_changing_cause is reached
  delays : Bool        -- the returned `delays` are non-empty (→ `application.apply` sleeps, then touches)
  deriving DecidableEq, Repr

def decision (i : In) : Decision :=
  let must := mustBlockG i.spawning i.spawnReq i.changing i.changeReq
  let add := addG must i.isBlocked i.isOngoing
  let rem := removeG must i.isBlocked
  let chg := i.changing && !(add || rem)          -- `changing_cause = None` in either branch
  let early := earlyG chg i.consistent
  let delaysNE := i.spawnDelays || (chg && i.changeDelays)
  { add := add, removeUnneeded := rem,
    release := !early && releaseG i.deletedEvent i.isOngoing i.isBlocked delaysNE,
    handlersRun := chg && !early,
    -- the early `return list(spawning_delays) + list(waiting_delays), False`
    delays := if early then i.spawnDelays || waitG i.deadline i.paused i.carried else delaysNE }

/-- The atom vocabulary of the translator (harness/props/c06.py `extract`) for the conditions of
the block, each read at its own program point. -/
structure Atoms where
  spawning : Bool        -- `spawning_cause is not None`
  spawnReq : Bool        -- `registry._spawning.requires_finalizer(cause=spawning_cause, excluded=memory.daemons_memory.forever_stopped)`
  changing : Bool        -- `changing_cause is not None` where `deletion_must_be_blocked` is computed
  changeReq : Bool       -- `registry._changing.requires_finalizer(cause=changing_cause)`
  isBlocked : Bool       -- `finalizers.is_deletion_blocked(body=body, finalizer=finalizer)`
  isOngoing : Bool       -- `finalizers.is_deletion_ongoing(body=body)`
  changingAfter : Bool   -- `changing_cause is not None` at the consistency gate
  consistent : Bool      -- `consistency_is_achieved` at the gate
  deletedEvent : Bool    -- `raw_event['type'] == 'DELETED'`
  delaysNonEmpty : Bool  -- `delays` (truthiness) at the release point
  deadline : Bool        -- `consistency_time is not None` inside the early exit
  paused : Bool          -- `operator_paused is not None and operator_paused.is_on()` inside the early exit
  initiallyEmpty : Bool  -- `patch_initially_empty` (= `not patch` at the head of the function) inside the early exit
  deriving DecidableEq, Repr

/-- What is appended to `patch.fns`, in program order. -/
def Decision.fns (d : Decision) : List Fn :=
  (if d.add then [Fn.block] else []) ++ (if d.removeUnneeded then [Fn.allow] else []) ++
  (if d.release then [Fn.allow] else [])

/-! ## The LTS -/

/-- The cycle in flight: what `patch_obj` still has to send. -/
structure Pending where
  fns : List Fn          -- patch.fns = carried ++ this cycle's
  rvTest : Nat           -- resourceVersion of `fresh_body`
  view : List String     -- finalizers of `fresh_body`
  merge : Bool           -- a merge-patch request comes first
  mergeChanges : Bool    -- … and it changes the object (a new version is stored)
  deriving DecidableEq, Repr

structure State where
  gone : Bool            -- the object has been deleted
  marked : Bool          -- deletionTimestamp
  fins : List String     -- metadata.finalizers on the server
  rv : Nat               -- resourceVersion
  matchDel : Bool        -- the labels make a mandatory deletion handler match
  matchDmn : Bool        -- the labels make a daemon/timer match
  delDone : Bool         -- the mandatory deletion handlers are finished as the next handling pass will see it:
                         -- a finished record is stored, or they finished in the latest pass; a pass can undo it
                         -- (`Env.delReset`: records are purged when a cycle closes, then the handlers run again)
  dmnLive : Bool         -- a daemon/timer task of this object runs (neither exited nor abandoned)
  dmnForever : Bool      -- memory.daemons_memory.forever_stopped covers the daemon
  mem : List Fn          -- memory.remaining_patch.fns (stays empty: the own finalizer edits are not carried)
  pending : Option Pending
  deriving DecidableEq, Repr

/-- What the cycle's surroundings contribute (anything is possible). -/
structure Env where
  consistent : Bool      -- the consistency gate would let the handlers run (timing)
  merge : Bool           -- the cycle's patch has dict content (progress, results, touch-dummy removal)
  otherChanging : Bool   -- some non-requiring changing handler prematches the object
  otherDelays : Bool     -- delays of other changing handlers (optional deletion handlers, retries)
  mergeChanges : Bool    -- the dict content changes the object (a merge patch that changes nothing — e.g. the
                         -- constant result of an on.event handler — is answered with the old version: NO event)
  userFns : Bool         -- handlers put transformation fns of their own into the patch which have nothing to change
                         -- (a state-checking fn that is already satisfied): the patch is non-empty, no op results.
                         -- INERT in this model since repair b7bf39c (no request = no change: the sleep is kept)
  carried : Bool         -- … and some of them were carried over from a rejected patch (`memory.remaining_patch`):
                         -- `patch_initially_empty` fails, the cycle is inconsistent whatever the timing — and comes
                         -- back at once (zero delay: the rework 02af7ce of 608a57d); `lstepOld` is the layer before
  waiting : Bool         -- the worker still awaits the version of its own last patch (`consistency_time is not None`)
                         -- and the operator is not paused: a cycle that leaves as inconsistent returns the rest of
                         -- the waiting time as a delay (repair 30557a0)
  delReset : Bool        -- this handling pass leaves the mandatory deletion handlers UNFINISHED again: their
                         -- finished record was purged (at the completion of an earlier pass, or because they
                         -- were not selected in a pass that closed: repair 2ae938f) and they are re-invoked
                         -- without finishing, or are purged now while they do not match
  deriving DecidableEq, Repr

/-- What a watch event shows of the object: the version and everything the decision reads of the body. -/
structure Snap where
  rv : Nat
  marked : Bool
  fins : List String
  matchDel : Bool
  matchDmn : Bool
  deriving DecidableEq, Repr

inductive Label where
  | decide (e : Env) (v : Snap)   -- a cycle on the event body `v` (possibly stale: older than the server's state)
  | mergePatch
  | jsonPatch (forced422 : Bool)
  | editFins (l : List String)
  | mark
  | toggleDel
  | toggleDmn
  | write (matchDel matchDmn : Bool)   -- any other stored new version (label/spec/annotation edits by anybody, the
                                       -- operator's touch, a daemon's patch): afterwards the handlers match as given
  | handlerFinishes
  | daemonExits (onItsOwn : Bool)
  | restart
  deriving DecidableEq, Repr

/-- The requirement of the property: a matching mandatory deletion handler that has not finished,
or a matching daemon/timer that has neither exited nor been abandoned. -/
def required (s : State) : Bool :=
  (s.matchDel && !s.delDone) || (s.matchDmn && s.dmnLive)

def snap (s : State) : Snap :=
  { rv := s.rv, marked := s.marked, fins := s.fins, matchDel := s.matchDel, matchDmn := s.matchDmn }

/-- The inputs of the decision block as functions of the event body the cycle was given (`v`) and the
operator's memory at that moment (`s`: carried fns, daemons, recorded handler progress). -/
def inputs (own : String) (v : Snap) (s : State) (e : Env) : In :=
  { spawning := true,
    spawnReq := v.matchDmn && !s.dmnForever,
    changing := v.matchDel || e.otherChanging,
    changeReq := v.matchDel,
    isBlocked := decide (own ∈ v.fins),
    isOngoing := v.marked,
    deletedEvent := false,
    consistent := (e.consistent && !e.carried) && s.mem.isEmpty,        -- patch_initially_empty
    spawnDelays := s.dmnLive && (v.marked || !v.matchDmn),  -- stop_daemons / match_daemons still wait
    -- the deletion handlers are selected (and can be unfinished) only for the DELETE cause: marked and blocked
    changeDelays := (v.marked && decide (own ∈ v.fins) && v.matchDel && !(s.delDone && !e.delReset)) || e.otherDelays,
    deadline := e.waiting,
    paused := false,       -- the pause of the operator (peering) is C07's subject: `Env.waiting` = awaited ∧ not paused
    carried := e.carried || !s.mem.isEmpty }

/-- A cycle starts on an event body: never newer than the server's state, and equal to it if of the same
version (every change of what `Snap` shows stores a new version). -/
def stepDecide (own : String) (s : State) (e : Env) (v : Snap) : Option State :=
  if s.pending.isSome then none
  else if !(decide (v.rv ≤ s.rv)) || (v.rv == s.rv && v != snap s) then none else
  let d := decision (inputs own v s e)
  some { s with
    dmnLive := s.dmnLive || (!v.marked && v.matchDmn && !s.dmnForever),   -- spawn_daemons
    delDone := if d.handlersRun then s.delDone && !e.delReset else s.delDone,
    pending := some { fns := s.mem ++ d.fns, rvTest := v.rv, view := v.fins, merge := e.merge,
                      mergeChanges := e.mergeChanges } }

def stepMerge (s : State) : Option State :=
  match s.pending with
  | some p => if p.merge then
      let rv' := if p.mergeChanges then s.rv + 1 else s.rv     -- the response carries the (new) current version
      some { s with rv := rv', pending := some { p with rvTest := rv', view := s.fins, merge := false } }
    else none
  | none => none

def stepJson (own : String) (s : State) (forced : Bool) : Option State :=
  match s.pending with
  | some p =>
    if p.merge then none else
    let target := applyFns own p.fns p.view
    if target = p.view then some { s with pending := none, mem := [] }          -- no ops, no request
    else if forced || s.rv != p.rvTest then some { s with pending := none, mem := carry p.fns }   -- 422
    else some { s with fins := target, rv := s.rv + 1, pending := none, mem := [],
                       gone := s.marked && target.isEmpty }
  | none => none

def stepEditFins (own : String) (s : State) (l : List String) : Option State :=
  if (decide (own ∈ l)) != (decide (own ∈ s.fins)) then none   -- foreign actors leave the own one alone
  else if l = s.fins then some s
  else some { s with fins := l, rv := s.rv + 1, gone := s.marked && l.isEmpty }

def stepMark (s : State) : Option State :=
  if s.marked then some s
  else if s.fins.isEmpty then some { s with gone := true }
  else some { s with marked := true, rv := s.rv + 1 }

def step (own : String) (s : State) (l : Label) : Option State :=
  if s.gone then none else
  match l with
  | .decide e v => stepDecide own s e v
  | .mergePatch => stepMerge s
  | .jsonPatch f => stepJson own s f
  | .editFins l => stepEditFins own s l
  | .mark => stepMark s
  | .toggleDel => some { s with matchDel := !s.matchDel, rv := s.rv + 1 }
  | .toggleDmn => some { s with matchDmn := !s.matchDmn, rv := s.rv + 1 }
  | .write d m => some { s with matchDel := d, matchDmn := m, rv := s.rv + 1 }
  | .handlerFinishes => some { s with delDone := true }
  | .daemonExits own' =>
      if s.dmnLive then some { s with dmnLive := false, dmnForever := s.dmnForever || own' } else none
  | .restart => some { s with mem := [], pending := none, dmnLive := false, dmnForever := false }

def run (own : String) (s : State) : List Label → Option State
  | [] => some s
  | l :: ls => (step own s l).bind (fun s' => run own s' ls)

/-- Any object a fresh operator may meet: any labels, any foreign finalizers, any version;
nothing in memory, nothing in flight, no daemon running, no handler finished. -/
def Init (s : State) : Prop :=
  s.gone = false ∧ s.marked = false ∧ s.delDone = false ∧ s.dmnLive = false ∧ s.dmnForever = false ∧
  s.mem = [] ∧ s.pending = none

inductive Reach (own : String) : State → Prop where
  | init {s} : Init s → Reach own s
  | step {s l s'} : Reach own s → step own s l = some s' → Reach own s'

/-- The guard of `never_early_partial`: exactly the gap of finding F5b. When the cycle's own merge patch is
sent while a removal is queued, nothing requires the finalizer (again) at that moment — i.e. no foreign write
since the decision has made a mandatory deletion handler or a daemon match again. (The response of that merge
patch re-bases the `test` of the JSON patch, so such a write would go unnoticed; writes that leave the object
unrequired are harmless and allowed.) Every other label is unconstrained: in particular foreign writes between
the merge patch and the JSON patch, and any number of genuine or injected HTTP 422. -/
def Guard (s : State) : Label → Prop
  | .mergePatch => ∀ p, s.pending = some p → Fn.allow ∈ p.fns → required s = false
  | _ => True

inductive ReachG (own : String) : State → Prop where
  | init {s} : Init s → ReachG own s
  | step {s l s'} : ReachG own s → Guard s l → step own s l = some s' → ReachG own s'

/-- The surroundings of a cycle in which nothing else goes on: a consistent state, a patch without dict
content, no other handler's delay, no re-scheduled deletion handler. -/
def quiet : Env :=
  { consistent := true, merge := false, otherChanging := false, otherDelays := false, mergeChanges := false,
    userFns := false, carried := false, waiting := false, delReset := false }

/-- The labels of one processing cycle that nobody interferes with. -/
def cycleLabels (s : State) (e : Env) : List Label :=
  [Label.decide e (snap s)] ++ (if e.merge then [Label.mergePatch] else []) ++ [Label.jsonPatch false]

/-- A marked object on which something still requires the finalizer. -/
def episode (s : State) : Bool := s.marked && required s

/-- Guarded reachability with a monitor bit: "the own finalizer was on the object when the current
episode (marked ∧ required) began" — at the deletion request if the requirement existed then, or
when the requirement (re)appeared on the marked object. -/
inductive ReachGH (own : String) : State → Bool → Prop where
  | init {s} : Init s → ReachGH own s false
  | step {s l s' held} : ReachGH own s held → Guard s l → step own s l = some s' →
      ReachGH own s' (if episode s' then (if episode s then held else decide (own ∈ s'.fins)) else false)

/-! ## Wake-ups: when is the next cycle of the object due, and on which event body?

  The LTS above lets a cycle start at any moment on any not-too-new body. Which one DOES start is the
  business of this layer, which wraps a base state with what drives the object's worker (`queueing.worker`
  takes one watch event per cycle, in order, no batching; `application.apply` ends a cycle that returned
  delays by sleeping and then touching the object):
    `queue`     — the watch events of the object not yet taken by the worker, oldest first, each with the
                  body it shows (`Snap`). Every stored new version is one (foreign writes, the deletion mark,
                  the operator's own accepted writes, its touch); a restarted operator gets exactly one, the
                  current state, from the listing; a request that changes nothing brings none.
    `sleeping`  — the last cycle returned delays and its patch was empty OR CHANGED NOTHING (the returned
                  version is the version of the body the cycle worked on; repair 7224f57): the worker
                  sleeps in `application.apply` and will touch the object (label `touch` → one more event).
                  After a patch that changed the object — or whose outcome is unknown (HTTP 422: no
                  version came back but a remaining patch did) — the sleep is skipped ("the patch's event will wake
                  us"); a patch that sent no request at all counts as unchanged (repair b7bf39c).
    `cyc…`      — what `apply` knows about the cycle in flight.
  `decide e v` takes the HEAD of the queue as its body `v`; it may find the state inconsistent
  (`e.consistent = false`, the early `return`) only while the worker awaits the version of its own last patch
  (`e.waiting`: `consistency_time is not None`; it waits only if that patch changed the object, repair 460c956).
  Whether that version is still to come as an event or has been LOST (the watch stream was cut and re-listed on
  a newer, foreign version) does not matter any more: such a cycle returns the rest of the waiting time as a
  delay (repair 30557a0), so it ends in sleep-then-touch unless its patch changes the object.
  Without an awaited version `consistency_is_achieved` can be false only through `patch_initially_empty`, i.e.
  carried fns (`e.carried`: handler-supplied ones; the framework's own are never carried, 1c8f3dd): such a cycle
  returns a zero delay (the rework 02af7ce of 608a57d) — if the carried fns have nothing to change, nothing is sent, the
  worker touches the object at once and the next cycle is a normal one. (Carried fns that DO change the object are
  outside this model: their patch is an event. Nor is the pause of the operator modelled: there the early exit
  returns no delay by design, the un-pausing brings a fresh listing — C07.) -/

structure LState where
  base : State
  queue : List Snap
  sleeping : Bool
  cycDelays : Bool      -- the cycle in flight returned non-empty delays
  cycMerge : Bool       -- its patch has dict content
  cycChanges : Bool     -- … whose response carried another version than the body the cycle works on
  cycViewRv : Nat       -- the version of that body (`seen_version`)
  deriving DecidableEq, Repr

inductive LLabel where
  | base (l : Label)
  | touch               -- the sleep ends undisturbed: `patch_and_check(touch)` — a write, hence an event
  deriving DecidableEq, Repr

/-- `application.apply`: `changed = bool(patch) and (resource_version is None or resource_version != seen_version)`;
sleep (then touch) iff there are delays and not `changed`. -/
def sleepsAfter (delays changed : Bool) : Bool := delays && !changed

/-- What `application.apply` reads (the vocabulary of the translator for its `changed`). -/
structure ApplyAtoms where
  patchNonEmpty : Bool     -- `bool(patch)`
  noVersion : Bool         -- `resource_version is None`
  remaining : Bool         -- `remaining_patch is not None`
  versionDiffers : Bool    -- `resource_version != seen_version`
  deriving DecidableEq, Repr

/-- `changed` for a cycle whose JSON patch was not written (no ops, or HTTP 422 = `rejected`). With dict content
the merge patch's response carries a version, which decides. Without it no version came back: a rejected JSON
patch leaves a remaining patch — the outcome is unknown, a newer change exists, its event is coming: `changed`;
a patch that sent NO request at all (its fns had nothing to change) leaves none: not `changed` (repair b7bf39c;
before it this case too was taken for a change — finding F8). -/
def changedUnwritten (cycMerge cycChanges rejected : Bool) : Bool :=
  if cycMerge then cycChanges else rejected

/-- A stored new version is delivered to the worker as one more event. -/
def enqueue (s : LState) (b : State) : List Snap :=
  if b.rv != s.base.rv then s.queue ++ [snap b] else s.queue

def lstep (own : String) (s : LState) : LLabel → Option LState
  | .touch =>
      if s.sleeping && s.base.pending.isNone then
        (step own s.base (.write s.base.matchDel s.base.matchDmn)).map fun b =>
          { s with base := b, queue := s.queue ++ [snap b], sleeping := false }
      else none
  | .base l =>
    match l with
    | .decide e v =>
        match s.queue with
        | [] => none
        | v' :: rest =>
          if v' != v then none                               -- the worker takes the oldest event
          -- inconsistent only while a version is awaited or with a carried patch (either way a delay is returned)
          else if !e.consistent && !e.waiting && !e.carried then none
          else (step own s.base l).map fun b =>
            { base := b, queue := rest, sleeping := false,
              cycDelays := (decision (inputs own v s.base e)).delays, cycMerge := e.merge, cycChanges := false,
              cycViewRv := v.rv }
    | .mergePatch =>
        (step own s.base l).map fun b => { s with base := b, queue := enqueue s b, cycChanges := b.rv != s.cycViewRv }
    | .jsonPatch _ =>
        (step own s.base l).map fun b =>
          if b.rv != s.base.rv then { s with base := b, queue := enqueue s b }     -- the accepted write is an event
          else { s with base := b,
                        sleeping := sleepsAfter s.cycDelays
                          (changedUnwritten s.cycMerge s.cycChanges
                            (match s.base.pending with | some p => applyFns own p.fns p.view != p.view | none => false)) }
    | .restart =>
        (step own s.base l).map fun b =>
          { base := b, queue := [snap b], sleeping := false, cycDelays := false, cycMerge := false, cycChanges := false,
            cycViewRv := b.rv }
    | _ =>   -- foreign writes and completions: a new version is an event
        (step own s.base l).map fun b => { s with base := b, queue := enqueue s b }

def lrun (own : String) (s : LState) : List LLabel → Option LState
  | [] => some s
  | l :: ls => (lstep own s l).bind (fun s' => lrun own s' ls)

/-- A starting operator finds the object in its listing. -/
def LInit (s : LState) : Prop :=
  Init s.base ∧ s.queue = [snap s.base] ∧ s.sleeping = false ∧ s.cycDelays = false ∧ s.cycMerge = false ∧
  s.cycChanges = false

/-- What the liveness theorems assume of the environment (everything else is free): no HTTP 422 is injected
without a real concurrent write (Kubernetes answers 422 to the `test` op only when the version has moved, i.e.
after a write, whose event is the wake-up; an injected one leaves a non-empty patch with unknown outcome — the
sleep is skipped — and no event).
(Until the repair of finding F9 = C03-N2 a second conjunct excluded handler-supplied fns from every cycle's
patch, see `lstepOld`.) -/
def LGuard : LLabel → Prop
  | .base (.jsonPatch forced) => forced = false
  | _ => True

inductive LReach (own : String) : LState → Prop where
  | init {s} : LInit s → LReach own s
  | step {s l s'} : LReach own s → lstep own s l = some s' → LReach own s'

inductive LReachG (own : String) : LState → Prop where
  | init {s} : LInit s → LReachG own s
  | step {s l s'} : LReachG own s → LGuard l → lstep own s l = some s' → LReachG own s'

/-- REGRESSION ONLY: the wake-up layer as the code was BEFORE repair 30557a0 and the repair of F9. A cycle could leave as
inconsistent while another event was queued — or, with a handler-supplied fn carried over from a rejected patch
(`e.userFns`: the patch is non-empty from the start, `patch_initially_empty` fails), with NOTHING queued; and the
early exit returned the spawning delays only. Everything else as `lstep`. -/
def lstepOld (own : String) (s : LState) : LLabel → Option LState
  | .base (.decide e v) =>
      match s.queue with
      | [] => none
      | v' :: rest =>
        if v' != v then none
        else if !e.consistent && rest.isEmpty && !e.userFns then none
        else (step own s.base (.decide e v)).map fun b =>
          { base := b, queue := rest, sleeping := false,
            cycDelays := (decision { inputs own v s.base e with deadline := false, carried := false }).delays, cycMerge := e.merge,
            cycChanges := false, cycViewRv := v.rv }
  | l => lstep own s l

def lrunOld (own : String) (s : LState) : List LLabel → Option LState
  | [] => some s
  | l :: ls => (lstepOld own s l).bind (fun s' => lrunOld own s' ls)

/-- The operator's own labels (nothing of the environment). -/
def LLabel.isOperator : LLabel → Bool
  | .touch => true
  | .base (.decide _ _) => true
  | .base .mergePatch => true
  | .base (.jsonPatch f) => !f
  | _ => false

/-- The object waits for its release: it exists, is marked for deletion and holds the own finalizer. -/
def Waiting (own : String) (s : State) : Prop := s.gone = false ∧ s.marked = true ∧ own ∈ s.fins

/-- Nothing is left to wait for: the matching mandatory deletion handlers have finished and no
daemon/timer task of the object runs (a mismatching daemon that is still being stopped also delays
the release — the conservative side). -/
def Settled (s : State) : Prop := (s.matchDel = true → s.delDone = true) ∧ s.dmnLive = false

end Kopf.C06
