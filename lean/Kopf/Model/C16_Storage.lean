/-
  C16 — persistence storages: annotation-key forming and store/fetch/purge/touch/clear of the
  progress storages and the diff-base storages, as functions producing merge-patches over `J`.

  Mirrors kopf/_cogs/configs/conventions.py, progress.py, diffbase.py (and dicts.py through
  `J.ensure/remove/resolve?` of the base).  Core Lean only.

  * Strings whose content is reasoned about are `List Char` (`Str`); `String.ofList` only where a
    key enters a `J` object.  Python `len`/slices count code points, as `List.length/take` do.
  * The blake2b-derived suffix is the PARAMETER `Env.sfx` (no hash in Lean, no axiom).
  * `json.dumps` / `json.loads` are the PARAMETERS `Env.enc` / `Env.dec` (`dec s = none` is a
    `ValueError`); their round-trip law is a hypothesis of the theorems that need it.
  * Multi storages are trees (`STree` / `DTree`, mirroring the recursion of the real classes); the
    flat-list operations (`store`, `fetch`, … over `Storage = List Leaf`) are what the lemmas reason
    about, and `Props.tree_ops_flat` proves that a tree behaves as the flat list of its leaves.
-/
import Kopf.Base.J
import Kopf.Base.Merge
namespace Kopf.C16
open Kopf Kopf.J

abbrev Str := List Char
abbrev Path := List String
abbrev Rec := List (String × J)

/-- the errors the real code can raise on the inputs considered (compared as a small enum) -/
inductive Err where
  | type | key | value | attr
  deriving DecidableEq, Repr

def liftD {α} : Except DictErr α → Except Err α
  | .ok a => .ok a
  | .error .typeError => .error .type
  | .error .keyError => .error .key
  | .error .valueError => .error .value

/-! ## Key forming (`StorageKeyFormingConvention`) -/

/-- `make_safe_key`: `/`→`.`, `<`→`_`, `>`→`_`, `:`→`_` (the last since kopf f95b306: kopf's own ids
    of lambdas are `lambda:<path>:<line>`). The replacements do not feed each other, so the
    sequential `str.replace` chain is a character map. -/
def safeChar (c : Char) : Char :=
  if c = '/' then '.' else if c = '<' then '_' else if c = '>' then '_' else if c = ':' then '_' else c

def safeKey (k : Str) : Str := k.map safeChar

/-- Python `s[:n]` for any integer `n` (negative `n` drops `-n` characters from the end). -/
def pyTake (s : Str) (n : Int) : Str :=
  if 0 ≤ n then s.take n.toNat else s.take (s.length - (-n).toNat)

/-- `f'{self.prefix}/' if self.prefix else ''` -/
def pre (p : Str) : Str := if p.isEmpty then [] else p ++ ['/']

/-- `_is_alnum` of `make_edged_name`: `c.isascii() and c.isalnum()` — `[A-Za-z0-9]` only
    (`Char.isAlphanum` is ASCII-only: `é`, `١` are not alphanumeric here, as in the code). -/
def isAlnum (c : Char) : Bool := c.isAlphanum

/-- `name and _is_alnum(name[0])` -/
def headAlnum : Str → Bool
  | [] => false
  | c :: _ => isAlnum c

/-- `name and _is_alnum(name[-1])` -/
def lastAlnum (s : Str) : Bool :=
  match s.getLast? with
  | none => false
  | some c => isAlnum c

/-- `make_edged_name(name, key=key, max_length=maxLen)` (kopf c2cffd8), statement by statement:
    a name that begins and ends with an ASCII alphanumeric is returned untouched; otherwise the
    empty name becomes `x`, a bad first / last character is replaced by `x`
    (`f'x{name[1:]}'`, `f'{name[:-1]}x'`), and — unless the name already ends with the hash suffix
    of the id or of the id's safe form ("already cut & hashed") — it is cut to
    `max(1, max_length - len(suffix))` characters and the suffix of the ORIGINAL id is appended.
    `maxLen` is an `Int`: `make_v1_key` passes `max_length - len(prefix)`, which is not bounded below. -/
def edgedName (sfx : Str → Str) (name key : Str) (maxLen : Int) : Str :=
  if headAlnum name && lastAlnum name then name else
  let n0 := if name.isEmpty then ['x'] else name
  let n1 := if headAlnum n0 then n0 else 'x' :: n0.tail
  let n2 := if lastAlnum n1 then n1 else n1.dropLast ++ ['x']
  let suffix := sfx key
  if suffix.isSuffixOf n2 || (sfx (safeKey key)).isSuffixOf n2 then n2
  else n2.take (max 1 (maxLen - (suffix.length : Int))).toNat ++ suffix

/-- `make_v1_key` (max_length = 63): the 63 characters are counted over prefix + '/' + name, the
    suffix is the hash of the *safe* key; the cut `63 - len(prefix) - len(suffix)` is a Python
    slice bound and may be zero or negative. Since c2cffd8 the name part goes through
    `make_edged_name(name, key=key, max_length=63 - len(prefix))`. -/
def v1Key (p : Str) (sfx : Str → Str) (k : Str) : Str :=
  let safe := safeKey k
  let suffix := if (safe.length : Int) ≤ 63 - ((pre p).length : Int) then [] else sfx safe
  pre p ++ edgedName sfx (pyTake safe (63 - ((pre p).length : Int) - (suffix.length : Int)) ++ suffix) k
    (63 - ((pre p).length : Int))

/-- `make_v2_key` (max_length = 63): only the name part is limited; the suffix is the hash of the
    *original* key; `key_limit = max(0, 63 - len(suffix))` is truncated subtraction. Since c2cffd8
    the name part goes through `make_edged_name(name, key=key, max_length=63)`. -/
def v2Key (p : Str) (sfx : Str → Str) (k : Str) : Str :=
  let suffix := if k.length > 63 then sfx k else []
  pre p ++ edgedName sfx ((safeKey k).take (63 - suffix.length) ++ suffix) k 63

/-- `v1_fits = len(f'{self.prefix}/') + len(self.make_suffix('')) < 63` (since e916847): the V1
    scheme counts the prefix into the 63 characters; with a prefix of 55+ characters there is no
    room left for the key, and no V1 key is generated at all. -/
def v1Fits (p : Str) (sfx : Str → Str) : Bool := decide ((pre p).length + (sfx []).length < 63)

/-- `make_keys` after marking: `[v2] + list(set([v1] if self.v1 and v1_fits else []) - set([v2]))`. -/
def makeKeys (p : Str) (v1 : Bool) (sfx : Str → Str) (k : Str) : List Str :=
  if v1 && v1Fits p sfx && v1Key p sfx k != v2Key p sfx k then [v2Key p sfx k, v1Key p sfx k] else [v2Key p sfx k]

def ofDRS : Str := "-ofDRS".toList

/-- `CollisionEvadingConvention.mark_key` given the ReplicaSet-of-Deployment bit. -/
def markKey (drs : Bool) (k : Str) : Str := if drs then k ++ ofDRS else k

/-- `kind == 'ReplicaSet' and any(owner['kind'] == 'Deployment' for owner in ownerReferences)`.
    (Owners without a `kind` raise KeyError in Python; the harness never feeds them.) -/
def isDRS (body : J) : Bool :=
  match body.get? "kind" with
  | some (str "ReplicaSet") =>
    match resolve? body ["metadata", "ownerReferences"] with
    | some (arr owners) => owners.any (fun o =>
        match o.get? "kind" with
        | some (str "Deployment") => true
        | _ => false)
    | _ => false
  | _ => false

/-! ## Environment and configurations -/

structure Env where
  sfx : Str → Str
  enc : J → String
  dec : String → Option J

structure AnnCfg where
  pfx : Str
  v1 : Bool
  verbose : Bool
  touchKey : Str

structure StatusCfg where
  field : Path
  touchField : Path
  noWrite : Bool

inductive Leaf where
  | ann (c : AnnCfg)
  | status (c : StatusCfg)

abbrev Storage := List Leaf

def annPath (name : Str) : Path := ["metadata", "annotations", String.ofList name]

/-- the annotation names of handler id `k` on `body` under an annotations storage -/
def annNames (env : Env) (p : Str) (v1 : Bool) (body : J) (k : Str) : List Str :=
  makeKeys p v1 env.sfx (markKey (isDRS body) k)

def knownPrefixBase : Str := "kopf.zalando.org".toList
def markerName (p : Str) : Str := p ++ "/kopf-managed".toList

/-- the prefixes `_detect_marked_prefixes` recognises without a marker: `kopf.zalando.org` and its
    sub-domains (`__KNOWN_PREFIXES`) -/
def knownPrefix (p : Str) : Bool :=
  p == knownPrefixBase || ('.' :: knownPrefixBase).isSuffixOf p

/-- `StorageKeyMarkingConvention._store_marker` (since ef55390: skipped exactly for the prefixes
    that are detected without it) -/
def storeMarker (p : Str) (body patch : J) : Except Err J :=
  if !p.isEmpty && !(knownPrefix p) then
    if (resolve? body (annPath (markerName p))).isNone
        && (resolve? patch (annPath (markerName p))).isNone then
      liftD (ensure patch (annPath (markerName p)) (str "yes"))
    else .ok patch
  else .ok patch

/-- `dicts.ensure(patch, ['metadata','annotations',name], v)` for every name, left to right -/
def ensureAll : J → List Str → J → Except Err J
  | p, [], _ => .ok p
  | p, n :: ns, v =>
    match liftD (ensure p (annPath n) v) with
    | .ok p' => ensureAll p' ns v
    | .error e => .error e

/-- first-found read over annotation names with `json.loads`; `None`/`null` content is skipped -/
def fetchNames (env : Env) (body : J) : List Str → Except Err (Option J)
  | [] => .ok none
  | n :: ns =>
    match resolve? body (annPath n) with
    | none => fetchNames env body ns
    | some null => fetchNames env body ns
    | some (str s) =>
      match env.dec s with
      | none => .error .value
      | some null => fetchNames env body ns
      | some j => .ok (some j)
    | some _ => .error .type

/-- one key of `purge`: in the body → patch it to null; only in the patch → take it back -/
def purgePath (body patch : J) (path : Path) : Except Err J :=
  if (resolve? body path).isSome then liftD (ensure patch path null)
  else if (resolve? patch path).isSome then liftD (remove patch path)
  else .ok patch

def purgeAll (body : J) : J → List Path → Except Err J
  | p, [] => .ok p
  | p, q :: qs =>
    match purgePath body p q with
    | .ok p' => purgeAll body p' qs
    | .error e => .error e

/-- `{key: val for key, val in record.items() if self.verbose or val is not None}` -/
def stored (verbose : Bool) (r : Rec) : Rec :=
  if verbose then r else r.filter (fun kv => !kv.2.isNull)

/-! ## AnnotationsProgressStorage -/

def annFetch (env : Env) (c : AnnCfg) (body : J) (k : Str) : Except Err (Option J) :=
  fetchNames env body (annNames env c.pfx c.v1 body k)

def annStore (env : Env) (c : AnnCfg) (body patch : J) (k : Str) (r : Rec) : Except Err J :=
  match ensureAll patch (annNames env c.pfx c.v1 body k) (str (env.enc (obj (stored c.verbose r)))) with
  | .ok p1 => storeMarker c.pfx body p1
  | .error e => .error e

def annPurge (env : Env) (c : AnnCfg) (body patch : J) (k : Str) : Except Err J :=
  purgeAll body patch ((annNames env c.pfx c.v1 body k).map annPath)

def touchNames (p : Str) (body : J) (value : J) : J → List Str → Except Err J
  | patch, [] => .ok patch
  | patch, n :: ns =>
    if !(pyEq (resolveD body (annPath n)) value) then
      match liftD (ensure patch (annPath n) value) with
      | .ok p1 =>
        match storeMarker p body p1 with
        | .ok p2 => touchNames p body value p2 ns
        | .error e => .error e
      | .error e => .error e
    else touchNames p body value patch ns

/-- `value` is `null` (None) or a string -/
def annTouch (env : Env) (c : AnnCfg) (body patch : J) (value : J) : Except Err J :=
  touchNames c.pfx body value patch (annNames env c.pfx c.v1 body c.touchKey)

def underPrefix (p : Str) (name : String) : Bool :=
  !p.isEmpty && (p ++ ['/']).isPrefixOf name.toList

/-- `del d[k]` when present and falsy -/
def delIfFalsy (k : String) (kvs : List (String × J)) : List (String × J) :=
  match lookup k kvs with
  | some v => if v.truthy then kvs else erase k kvs
  | none => kvs

/-- `StorageStanzaCleaner.remove_empty_stanzas` (in place: positions are kept) -/
def removeEmptyStanzas : J → Except Err J
  | obj kvs =>
    let step (kvs1 : List (String × J)) : J :=
      obj (delIfFalsy "status" (delIfFalsy "metadata" kvs1))
    match lookup "metadata" kvs with
    | none => .ok (step kvs)
    | some (obj mk) =>
      .ok (step (insert "metadata" (obj (delIfFalsy "labels" (delIfFalsy "annotations" mk))) kvs))
    | some _ => .error .type
  | _ => .error .attr

/-- `StorageStanzaCleaner.remove_annotations` with the keys under the storage's prefix:
    rewritten only when at least one such key is present. -/
def removeOwnAnnotations (p : Str) : J → Except Err J
  | obj kvs =>
    match lookup "metadata" kvs with
    | none => .ok (obj kvs)
    | some (obj mk) =>
      match lookup "annotations" mk with
      | none => .ok (obj kvs)
      | some (obj ak) =>
        if ak.any (fun kv => underPrefix p kv.1) then
          .ok (obj (insert "metadata"
            (obj (insert "annotations" (obj (ak.filter (fun kv => !underPrefix p kv.1))) mk)) kvs))
        else .ok (obj kvs)
      | some _ => .error .type
    | some _ => .error .attr
  | _ => .error .attr

def annClear (c : AnnCfg) (essence : J) : Except Err J :=
  match removeOwnAnnotations c.pfx essence with
  | .ok e => removeEmptyStanzas e
  | .error e => .error e

/-! ## StatusProgressStorage (and the no-write variant of SmartProgressStorage) -/

def statusFetch (c : StatusCfg) (body : J) (k : Str) : Except Err (Option J) :=
  match (resolve? body c.field).getD (obj []) with
  | obj kvs =>
    match lookup (String.ofList k) kvs with
    | some null => .ok none
    | r => .ok r
  | _ => .error .attr

/-- the record goes in as it is: "Nones are cleaned by K8s API itself" -/
def statusStore (c : StatusCfg) (patch : J) (k : Str) (r : Rec) : Except Err J :=
  if c.noWrite then .ok patch else liftD (ensure patch (c.field ++ [String.ofList k]) (obj r))

def statusPurge (c : StatusCfg) (body patch : J) (k : Str) : Except Err J :=
  purgePath body patch (c.field ++ [String.ofList k])

def statusTouch (c : StatusCfg) (body patch : J) (value : J) : Except Err J :=
  if c.noWrite then .ok patch
  else if !(pyEq (resolveD body c.touchField) value) then liftD (ensure patch c.touchField value)
  else .ok patch

/-- `try: dicts.remove(essence, field)  except TypeError: pass` (kopf 571b1b2): a field hidden behind a
    non-mapping value (`status: "a string"`, `status.kopf: 7`, `status: null`) is not there — nothing
    is removed and nothing is raised. `dicts.remove` changes its argument only in its LAST step (the
    `del` at the end of the path, then the empty parents on the way back), so when it raises the
    essence is still as it was. Any other error (the empty path: ValueError) still propagates. -/
def removeLenient (e : J) (f : Path) : Except Err J :=
  match remove e f with
  | .ok e' => .ok e'
  | .error .typeError => .ok e
  | .error err => liftD (.error err)

/-- `StatusProgressStorage.clear`: since dbb523b the touch field is removed from the essence as well;
    since 571b1b2 each of the two removals is skipped when its field is hidden behind a non-mapping
    value (each on its own: a hidden `field` does not keep the `touch_field` in the essence). -/
def statusClear (c : StatusCfg) (essence : J) : Except Err J :=
  match removeLenient essence c.field with
  | .ok e =>
    match removeLenient e c.touchField with
    | .ok e2 => removeEmptyStanzas e2
    | .error err => .error err
  | .error e => .error e

/-- the variant before 571b1b2 (kept for the regression theorem `clear_hidden_regression`): the
    TypeError of `dicts.remove` went out of `clear`, and with it out of the detection of the cause —
    the object was never handled again (C04-F13) -/
def statusClearStrict (c : StatusCfg) (essence : J) : Except Err J :=
  match liftD (remove essence c.field) with
  | .ok e =>
    match liftD (remove e c.touchField) with
    | .ok e2 => removeEmptyStanzas e2
    | .error err => .error err
  | .error e => .error e

/-! ## Leaves and the Multi / Smart fan-out -/

def Leaf.fetch (env : Env) (body : J) (k : Str) : Leaf → Except Err (Option J)
  | .ann c => annFetch env c body k
  | .status c => statusFetch c body k

def Leaf.store (env : Env) (body patch : J) (k : Str) (r : Rec) : Leaf → Except Err J
  | .ann c => annStore env c body patch k r
  | .status c => statusStore c patch k r

def Leaf.purge (env : Env) (body patch : J) (k : Str) : Leaf → Except Err J
  | .ann c => annPurge env c body patch k
  | .status c => statusPurge c body patch k

def Leaf.touch (env : Env) (body patch : J) (value : J) : Leaf → Except Err J
  | .ann c => annTouch env c body patch value
  | .status c => statusTouch c body patch value

def Leaf.clear (essence : J) : Leaf → Except Err J
  | .ann c => annClear c essence
  | .status c => statusClear c essence

/-- `MultiProgressStorage.fetch`: first storage with non-None content -/
def fetch (env : Env) (body : J) (k : Str) : Storage → Except Err (Option J)
  | [] => .ok none
  | l :: ls =>
    match l.fetch env body k with
    | .ok none => fetch env body k ls
    | r => r

def store (env : Env) (body : J) (k : Str) (r : Rec) : J → Storage → Except Err J
  | patch, [] => .ok patch
  | patch, l :: ls =>
    match l.store env body patch k r with
    | .ok p' => store env body k r p' ls
    | .error e => .error e

def purge (env : Env) (body : J) (k : Str) : J → Storage → Except Err J
  | patch, [] => .ok patch
  | patch, l :: ls =>
    match l.purge env body patch k with
    | .ok p' => purge env body k p' ls
    | .error e => .error e

def touch (env : Env) (body : J) (value : J) : J → Storage → Except Err J
  | patch, [] => .ok patch
  | patch, l :: ls =>
    match l.touch env body patch value with
    | .ok p' => touch env body value p' ls
    | .error e => .error e

def clear : J → Storage → Except Err J
  | e, [] => .ok e
  | e, l :: ls =>
    match l.clear e with
    | .ok e' => clear e' ls
    | .error err => .error err

/-- `SmartProgressStorage(...)` = annotations first, status read-and-purge only -/
def smart (a : AnnCfg) (field touchField : Path) : Storage :=
  [.ann a, .status ⟨field, touchField, true⟩]

/-! ## Storage trees: `MultiProgressStorage` / `MultiDiffBaseStorage` may contain Multi storages

The real classes recurse: `for storage in self.storages: storage.store(...)` (store, purge, touch,
clear — the patch / essence is threaded left to right) and `for storage in self.storages: content =
storage.fetch(...); if content is not None: return content` (fetch). `STree` mirrors that recursion;
`Lemmas/C16_Multi.lean` proves that every operation on a tree equals the operation on the flat
list of its leaves (`STree.flatten`), which is what the theorems are stated about. -/

inductive STree where
  | leaf (l : Leaf)
  | multi (ts : List STree)

mutual
  def STree.flatten : STree → Storage
    | .leaf l => [l]
    | .multi ts => STree.flattenList ts
  def STree.flattenList : List STree → Storage
    | [] => []
    | t :: ts => t.flatten ++ STree.flattenList ts
end

mutual
  /-- thread a patch (or an essence) through the tree, left to right, depth first -/
  def STree.run (f : Leaf → J → Except Err J) : STree → J → Except Err J
    | .leaf l, p => f l p
    | .multi ts, p => STree.runList f ts p
  def STree.runList (f : Leaf → J → Except Err J) : List STree → J → Except Err J
    | [], p => .ok p
    | t :: ts, p =>
      match STree.run f t p with
      | .ok p' => STree.runList f ts p'
      | .error e => .error e
end

mutual
  def STree.fetch (env : Env) (body : J) (k : Str) : STree → Except Err (Option J)
    | .leaf l => l.fetch env body k
    | .multi ts => STree.fetchList env body k ts
  def STree.fetchList (env : Env) (body : J) (k : Str) : List STree → Except Err (Option J)
    | [] => .ok none
    | t :: ts =>
      match STree.fetch env body k t with
      | .ok none => STree.fetchList env body k ts
      | r => r
end

def STree.store (env : Env) (body : J) (k : Str) (r : Rec) (patch : J) (t : STree) : Except Err J :=
  t.run (fun l p => l.store env body p k r) patch
def STree.purge (env : Env) (body : J) (k : Str) (patch : J) (t : STree) : Except Err J :=
  t.run (fun l p => l.purge env body p k) patch
def STree.touch (env : Env) (body : J) (value : J) (patch : J) (t : STree) : Except Err J :=
  t.run (fun l p => l.touch env body p value) patch
def STree.clear (essence : J) (t : STree) : Except Err J :=
  t.run (fun l e => l.clear e) essence

/-- the same threading over a flat list of leaves -/
def runLeaves (f : Leaf → J → Except Err J) : Storage → J → Except Err J
  | [], p => .ok p
  | l :: ls, p =>
    match f l p with
    | .ok p' => runLeaves f ls p'
    | .error e => .error e

/-- the paths of the patch a `store` of id `k` may write (kopf terms: the annotations
    `<prefix>/<v2 name>`, `<prefix>/<v1 name>`, `<prefix>/kopf-managed`, or the status field) -/
def Leaf.writes (env : Env) (body : J) (k : Str) : Leaf → List Path
  | .ann c => (annNames env c.pfx c.v1 body k).map annPath ++ [annPath (markerName c.pfx)]
  | .status sc => if sc.noWrite then [] else [sc.field ++ [String.ofList k]]

/-- the paths a `fetch` of id `k` reads and a `purge` clears -/
def Leaf.owns (env : Env) (body : J) (k : Str) : Leaf → List Path
  | .ann c => (annNames env c.pfx c.v1 body k).map annPath
  | .status sc => [sc.field ++ [String.ofList k]]

/-! ## Diff-base storages (last-handled state) -/

structure AnnDiffCfg where
  pfx : Str
  key : Str
  v1 : Bool

inductive DLeaf where
  | ann (c : AnnDiffCfg)
  | status (field : Path)

abbrev DStorage := List DLeaf

def newline : String := "\n"

def DLeaf.fetch (env : Env) (body : J) : DLeaf → Except Err (Option J)
  | .ann c => fetchNames env body (annNames env c.pfx c.v1 body c.key)
  | .status field =>
    match resolveD body field with
    | null => .ok none
    | str s =>
      match env.dec s with
      | none => .error .value
      | some null => .ok none
      | some j => .ok (some j)
    | _ => .error .type

def DLeaf.store (env : Env) (body patch : J) (essence : J) : DLeaf → Except Err J
  | .ann c =>
    match ensureAll patch (annNames env c.pfx c.v1 body c.key) (str (env.enc essence ++ newline)) with
    | .ok p1 => storeMarker c.pfx body p1
    | .error e => .error e
  | .status field => liftD (ensure patch field (str (env.enc essence)))

def dfetch (env : Env) (body : J) : DStorage → Except Err (Option J)
  | [] => .ok none
  | l :: ls =>
    match l.fetch env body with
    | .ok none => dfetch env body ls
    | r => r

def dstore (env : Env) (body : J) (essence : J) : J → DStorage → Except Err J
  | patch, [] => .ok patch
  | patch, l :: ls =>
    match l.store env body patch essence with
    | .ok p' => dstore env body essence p' ls
    | .error e => .error e

inductive DTree where
  | leaf (l : DLeaf)
  | multi (ts : List DTree)

mutual
  def DTree.flatten : DTree → DStorage
    | .leaf l => [l]
    | .multi ts => DTree.flattenList ts
  def DTree.flattenList : List DTree → DStorage
    | [] => []
    | t :: ts => t.flatten ++ DTree.flattenList ts
end

mutual
  def DTree.store (env : Env) (body : J) (essence : J) : DTree → J → Except Err J
    | .leaf l, p => l.store env body p essence
    | .multi ts, p => DTree.storeList env body essence ts p
  def DTree.storeList (env : Env) (body : J) (essence : J) : List DTree → J → Except Err J
    | [], p => .ok p
    | t :: ts, p =>
      match DTree.store env body essence t p with
      | .ok p' => DTree.storeList env body essence ts p'
      | .error e => .error e
end

mutual
  def DTree.fetch (env : Env) (body : J) : DTree → Except Err (Option J)
    | .leaf l => l.fetch env body
    | .multi ts => DTree.fetchList env body ts
  def DTree.fetchList (env : Env) (body : J) : List DTree → Except Err (Option J)
    | [] => .ok none
    | t :: ts =>
      match DTree.fetch env body t with
      | .ok none => DTree.fetchList env body ts
      | r => r
end

/-- the paths of the patch a diff-base `store` may write -/
def DLeaf.writes (env : Env) (body : J) : DLeaf → List Path
  | .ann c => (annNames env c.pfx c.v1 body c.key).map annPath ++ [annPath (markerName c.pfx)]
  | .status field => [field]

end Kopf.C16
