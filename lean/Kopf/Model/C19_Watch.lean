/-
  C19 model, part 1 — one watch-stream: `watching.infinite_watch ∘ streaming_block ∘
  continuous_watch ∘ watch_objs ∘ api.stream`, against an API server kept as a change log with
  resource versions and a compaction horizon. Core Lean only.

  The *client* is the code's control state:

    listing     `fetching.list_objs` awaits the response                     (continuous_watch)
    connecting  `api.stream` awaits the response of `GET …?watch=true&resourceVersion=since`
    streaming   the watch response is open, `iter_jsonlines` awaits the next line
    backoff     `await asyncio.sleep(settings.watching.reconnect_backoff)`   (infinite_watch)
    blocked     `await operator_paused.wait_for(False)`                      (streaming_block)
    failed      an exception left `infinite_watch`

  plus `since` (the local `resource_version` of `continuous_watch`) and `pauseSeen`
  (`operator_pause_waiter.done()` of the current `streaming_block`).

  The *environment* (server, network, the pause toggle) is the adversary: it plays `Act`s.
  A request of the model is one call of `api.request` (its internal retries are C12's subject):
  `respond` answers the outstanding request as the API contract says, `failReq` is a failure that
  escalated out of `api.request`.

  What the code does, act by act (line numbers: kopf/_cogs/clients/watching.py):
    * list ok          → every item yielded as `{'type': None}`, `Bookmark.LISTED`, `since := list rv`,
                         then `while not operator_pause_waiter.done()`: watch since                (169-195)
    * list fails       → ClientConnectionError/TimeoutError: `return` (178); 429 escalated: swallowed
                         by `infinite_watch` (90); anything else propagates — then backoff, re-list
    * watch line       → ERROR 410: `return` (203-206); other ERROR: `raise WatchingError` (209);
                         unsupported type: `continue` — `since` untouched (213-215);
                         ADDED/MODIFIED/DELETED/BOOKMARK: `since := object.metadata.resourceVersion`,
                         yield (219-222)
    * stream ends      → EOF, ClientConnectionError, (inactivity/client/server) timeouts are swallowed
                         by `watch_objs` (285-289): the `while` re-watches since the same `since`
    * watch request    → ClientConnectionError/TimeoutError swallowed the same way; 429 and HTTP 410 (too
                         old) → `infinite_watch` swallows (`except APIClientError: if ex.status != 410: raise`)
                         → backoff → re-list; every other API error propagates out of `infinite_watch`
    * pause noticed    → a listing in progress is cancelled (it runs as a task raced with the pause-waiter), a pending
                         watch request is cancelled, an open response is closed by the waiter's callback; `return`;
                         after the backoff `streaming_block` blocks until un-paused; then a new
                         `continuous_watch`, i.e. a fresh listing
-/
namespace Kopf.C19

inductive Kind where
  | added | modified | deleted
  deriving DecidableEq, Repr

/-- One stored version of an object of the watched (resource, namespace): what a watch-event carries. -/
structure Entry where
  rv : Nat
  key : Nat
  kind : Kind
  deriving DecidableEq, Repr

inductive Phase where
  | listing | connecting | streaming | backoff | blocked | failed
  deriving DecidableEq, Repr

/-- How a request can fail after `api.request` gave up retrying. -/
inductive ReqFail where
  | conn      -- aiohttp.ClientConnectionError
  | timeout   -- asyncio.TimeoutError
  | tooMany   -- APITooManyRequestsError (429 escalated)
  | fatal     -- any other APIError (5xx escalated, 403 escalated, 404, …)
  deriving DecidableEq, Repr

/-- How an open watch response ends without an ERROR line. All are swallowed by `watch_objs`. -/
inductive Drop where
  | eof | conn | serverTimeout | clientTimeout | inactive
  deriving DecidableEq, Repr

inductive RaiseKind where
  | unknownError   -- WatchingError (an ERROR event that is not 410)
  | fatal          -- other APIError out of a request
  | garbage        -- a line that is not JSON (ValueError out of `api.stream`)
  deriving DecidableEq, Repr

/-- What the consumer of `infinite_watch` and the API server observe. -/
inductive Out where
  | item (key rv : Nat)                   -- a listed object, yielded with type None
  | listed (rv : Nat)                     -- Bookmark.LISTED (rv = the listing's resourceVersion)
  | event (kind : Kind) (key rv : Nat)    -- ADDED / MODIFIED / DELETED
  | bookmark (rv : Nat)                   -- a BOOKMARK event (yielded too; `queueing.watcher` drops it)
  | reqList                               -- `fetching.list_objs`: one call of `api.request` (its first attempt)
  | reqWatch (since : Nat)                -- `api.stream`: one call of `api.request` (its first attempt)
  | retryList                             -- a further attempt of the same listing, re-sent by `api.request`'s retry loop
  | retryWatch (since : Nat)              -- a further attempt of the same watch request
  | raised (k : RaiseKind)
  deriving DecidableEq, Repr

inductive Act where
  -- the server's side
  | change (key : Nat) (kind : Kind) (vis : Bool)  -- a write; `vis = false`: another resource/namespace (bumps rv only)
  | compact (upto : Nat)                           -- watch history up to `upto` is forgotten
  | setHttp410 (b : Bool)                          -- too-old watch requests are answered with HTTP 410 / in-stream ERROR
  -- the pause toggle and the two coroutines waiting on it
  | pause | resume
  | notice      -- `operator_paused.wait_for(True)` returned: the pause-waiter is done
  | unblock     -- `operator_paused.wait_for(False)` returned in `streaming_block`
  | wake        -- the reconnect backoff is over
  -- answers to the outstanding request
  | respond
  | failReq (k : ReqFail)
  | retry       -- an attempt failed with a retryable error and its backoff is over: `api.request` re-sends it.
                -- Both kinds of request are abandoned when a pause is noticed (`notice`): the watch request by the
                -- stopper's callback (d8da165), the listing by the race with the pause-waiter (64c8f5e).
  -- lines and endings of the open watch response
  | deliver                 -- the next stored version after what was sent so far
  | bookmark (b : Nat)
  | drop (d : Drop)
  | err410                  -- an in-stream ERROR 410
  | errUnknown              -- an in-stream ERROR with another code
  | unknownType             -- a line whose type is none of ADDED/MODIFIED/DELETED/BOOKMARK/ERROR
  | garbage                 -- a line that is not JSON
  deriving DecidableEq, Repr

structure World where
  -- server
  srv : Nat                 -- cluster-wide resourceVersion counter
  log : List Entry          -- every stored version in scope of this watch, ascending rv
  horizon : Nat             -- `watch since v` with `v < horizon` is too old
  http410 : Bool
  -- pause toggle
  paused : Bool
  -- client
  phase : Phase
  since : Nat               -- `resource_version` (meaningful while connecting/streaming)
  pauseSeen : Bool
  -- observations (ghost): newest first
  listRv : Nat              -- resourceVersion of the latest successful listing
  outs : List Out
  deriving Repr

def init : World :=
  { srv := 0, log := [], horizon := 0, http410 := false, paused := false,
    phase := .backoff, since := 0, pauseSeen := false, listRv := 0, outs := [] }

/-- Last stored version of an object. -/
def lastOf (log : List Entry) (k : Nat) : Option Entry :=
  (log.filter (fun e => e.key == k)).getLast?

/-- What a listing returns: the latest version of every object that is not deleted. -/
def liveItems (log : List Entry) : List Entry :=
  log.filter (fun e => e.kind != .deleted && lastOf log e.key == some e)

/-- The next line of a watch that has sent everything up to `since`. -/
def nextEntry (log : List Entry) (since : Nat) : Option Entry :=
  log.find? (fun e => decide (since < e.rv))

/-- A bookmark `b` is one the server may send: nothing in scope lies in `(since, b]`. -/
def bookmarkOK (w : World) (b : Nat) : Bool :=
  decide (w.since ≤ b) && decide (b ≤ w.srv) && w.log.all (fun e => decide (e.rv ≤ w.since) || decide (b < e.rv))

def emit (w : World) (os : List Out) : World := { w with outs := os ++ w.outs }

/-- `continuous_watch` returned (or an exception was swallowed by `infinite_watch`): sleep. -/
def toBackoff (w : World) : World := { w with phase := .backoff }

def fail (w : World) (k : RaiseKind) : World := { emit w [.raised k] with phase := .failed }

/-- A new `streaming_block` + `continuous_watch`: the pause-waiter is fresh, the listing is requested. -/
def startListing (w : World) : World :=
  { emit w [.reqList] with phase := .listing, pauseSeen := false }

/-- `while not operator_pause_waiter.done(): watch_objs(since=resource_version)` -/
def rewatch (w : World) : World :=
  if w.pauseSeen then toBackoff w
  else { emit w [.reqWatch w.since] with phase := .connecting }

def step (w : World) : Act → World
  | .change key kind vis =>
      let rv := w.srv + 1
      if vis then { w with srv := rv, log := w.log ++ [⟨rv, key, kind⟩] } else { w with srv := rv }
  | .compact upto => { w with horizon := max w.horizon (min upto w.srv) }
  | .setHttp410 b => { w with http410 := b }
  | .pause => { w with paused := true }
  | .resume => { w with paused := false }
  | .notice =>
      if w.paused then
        match w.phase with
        | .listing => toBackoff { w with pauseSeen := true }     -- the listing runs as a task raced with the pause-waiter:
                                                                 -- it is cancelled (with its retries), `return` (kopf 64c8f5e)
        | .connecting => toBackoff { w with pauseSeen := true }  -- the pending watch request (also one sleeping between
                                                                 -- its retries) is cancelled by the stopper's callback,
                                                                 -- swallowed by `api.stream`; the loop ends (kopf d8da165)
        | .streaming => toBackoff { w with pauseSeen := true }   -- response closed by the callback; loop ends
        | _ => w
      else w
  | .unblock =>
      match w.phase with
      | .blocked => if w.paused then w else startListing w
      | _ => w
  | .wake =>
      match w.phase with
      | .backoff => if w.paused then { w with phase := .blocked } else startListing w
      | _ => w
  | .respond =>
      match w.phase with
      | .listing =>
          let items := (liveItems w.log).map (fun e => Out.item e.key e.rv)
          let w1 := { emit w (.listed w.srv :: items.reverse) with since := w.srv, listRv := w.srv }
          rewatch w1
      | .connecting =>
          if decide (w.since < w.horizon) && w.http410 then toBackoff w   -- HTTP 410: APIClientError(410) swallowed by `infinite_watch`
          else if w.pauseSeen then toBackoff w                        -- `if stopper.done(): response.close(); return`
          else if decide (w.since < w.horizon) then toBackoff w       -- the stream is one ERROR 410 line: `return`
          else { w with phase := .streaming }
      | _ => w
  | .retry =>
      match w.phase with
      | .listing => emit w [.retryList]
      | .connecting => emit w [.retryWatch w.since]
      | _ => w
  | .failReq k =>
      match w.phase with
      | .listing =>
          match k with
          | .conn | .timeout | .tooMany => toBackoff w
          | .fatal => fail w .fatal
      | .connecting =>
          match k with
          | .conn | .timeout => rewatch w
          | .tooMany => toBackoff w
          | .fatal => fail w .fatal
      | _ => w
  | .deliver =>
      match w.phase with
      | .streaming =>
          match nextEntry w.log w.since with
          | some e => { emit w [.event e.kind e.key e.rv] with since := e.rv }
          | none => w
      | _ => w
  | .bookmark b =>
      match w.phase with
      | .streaming => if bookmarkOK w b then { emit w [.bookmark b] with since := b } else w
      | _ => w
  | .drop _ =>
      match w.phase with
      | .streaming => rewatch w
      | _ => w
  | .err410 =>
      match w.phase with
      | .streaming => toBackoff w
      | _ => w
  | .errUnknown =>
      match w.phase with
      | .streaming => fail w .unknownError
      | _ => w
  | .unknownType => w
  | .garbage =>
      match w.phase with
      | .streaming => fail w .garbage
      | _ => w

def run (w : World) : List Act → World
  | [] => w
  | a :: as => run (step w a) as

/-- Reachable from the start by some script of the adversary. -/
def Reach (w : World) : Prop := ∃ as, run init as = w

/-- What one act added to the observations (oldest first). -/
def newOuts (w : World) (a : Act) : List Out :=
  ((step w a).outs.take ((step w a).outs.length - w.outs.length)).reverse

/-! ### Specification-side scanners over the observations (newest first) -/

/-- The latest version the client has seen: the rv of the most recent listing / event / bookmark. -/
def lastSeen : List Out → Nat
  | [] => 0
  | .listed rv :: _ => rv
  | .event _ _ rv :: _ => rv
  | .bookmark rv :: _ => rv
  | _ :: past => lastSeen past

/-- Every watch request carries exactly the latest version seen before it. -/
def resumeOK : List Out → Bool
  | [] => true
  | .reqWatch v :: past => (v == lastSeen past) && resumeOK past
  | .retryWatch v :: past => (v == lastSeen past) && resumeOK past
  | _ :: past => resumeOK past

def Out.isReq : Out → Bool
  | .reqList => true
  | .reqWatch _ => true
  | _ => false

def reqCount (os : List Out) : Nat := (os.filter Out.isReq).length

/-- Every HTTP attempt the API server receives: first attempts and re-sent ones. -/
def Out.isAttempt : Out → Bool
  | .reqList => true
  | .reqWatch _ => true
  | .retryList => true
  | .retryWatch _ => true
  | _ => false

def attemptCount (os : List Out) : Nat := (os.filter Out.isAttempt).length

/-- Attempts of watch requests only. -/
def Out.isWatchAttempt : Out → Bool
  | .reqWatch _ => true
  | .retryWatch _ => true
  | _ => false

def watchAttemptCount (os : List Out) : Nat := (os.filter Out.isWatchAttempt).length

/-- The oldest request among the observations. -/
def oldestReq : List Out → Option Out
  | [] => none
  | o :: past =>
      match oldestReq past with
      | some r => some r
      | none => if o.isReq then some o else none

/-- A stored version has reached the consumer: as a watch event, or it is reflected in a listing
    made at or after it. -/
def Covered (w : World) (e : Entry) : Prop :=
  e.rv ≤ w.listRv ∨ Out.event e.kind e.key e.rv ∈ w.outs

/-! ### What the consumer knows -/

/-- Look a key up in the items block that follows (i.e. is older than) a `listed`. -/
def blockLookup : List Out → Nat → Option Nat
  | .item k' rv :: rest, k => if k' = k then some rv else blockLookup rest k
  | _, _ => none

/-- The consumer's knowledge of object `k`, read off what it was handed (newest first): a watch event
    sets it (DELETED: gone); a completed listing REPLACES it — an object that is not among the listed
    items is not there. (Whether kopf's consumers draw that last conclusion is a different matter:
    they are never *told* DELETED — `deleted_in_relist_gap_witness`, finding C19-F5.) -/
def viewOf : List Out → Nat → Option Nat
  | [], _ => none
  | .event kind k' rv :: past, k =>
      if k' = k then (if kind = .deleted then none else some rv) else viewOf past k
  | .listed _ :: past, k => blockLookup past k
  | _ :: past, k => viewOf past k

/-- The server's state of object `k` as of version `v`. -/
def stateAt (log : List Entry) (v : Nat) (k : Nat) : Option Nat :=
  match lastOf (log.filter (fun e => decide (e.rv ≤ v))) k with
  | some e => if e.kind = .deleted then none else some e.rv
  | none => none

/-- The pause has been noticed (or there is no stream to notice it): the pause-waiter of the current
    `streaming_block` is done, or the client is between two blocks. -/
def Quiet (w : World) : Prop :=
  w.pauseSeen = true ∨ w.phase = .backoff ∨ w.phase = .blocked ∨ w.phase = .failed

/-- What "the stream ends without an exception and the next request is a fresh listing" means, for the
    state `w'` reached from `w`: nothing was yielded or requested, the client sleeps the reconnect backoff,
    whatever happens afterwards the first request it sends is a list (never a `watch since`), and once the
    backoff is over and the operator is not paused it does send it. -/
def RelistsAfter (w w' : World) : Prop :=
  w'.phase = .backoff ∧ w'.outs = w.outs ∧
  (∀ as, ∃ new, (run w' as).outs = new ++ w'.outs ∧ ∀ v, oldestReq new ≠ some (.reqWatch v)) ∧
  (w'.paused = false → (step w' .wake).phase = .listing ∧ (step w' .wake).outs = .reqList :: w'.outs)

/-- A cooperative environment: un-pause, end whatever is going on, let the backoff pass, answer the
    listing and the watch request. From every state that has not failed this reaches an open,
    caught-up stream (`quiescence_reachable`). -/
def recover : List Act :=
  [.resume, .err410, .failReq .tooMany, .unblock, .wake, .respond, .respond]

end Kopf.C19
