/-
  C16 model, part 3: what a handling cycle does to ONE patch through an annotations storage before the
  PATCH is sent — any sequence of stores and purges of any handlers and of touches — and the variant of
  `AnnotationsProgressStorage.store` that skips an annotation the OBJECT already holds with the very
  value (the guard of `touch()` copied into `store()`; seeded change C16f).  The variant is not the code:
  it is here so that `Props/C16.lean` can show what goes wrong with it (`store_skip_unchanged_witness`).
-/
import Kopf.Model.C16_Storage
namespace Kopf.C16
open Kopf Kopf.J

/-- one operation of a cycle on the accumulated patch -/
inductive AnnOp where
  | store (k : Str) (r : Rec)
  | purge (k : Str)
  | touch (value : Option String)

def touchValue : Option String → J
  | some s => str s
  | none => null

def AnnOp.run (env : Env) (c : AnnCfg) (body patch : J) : AnnOp → Except Err J
  | .store k r => annStore env c body patch k r
  | .purge k => annPurge env c body patch k
  | .touch v => annTouch env c body patch (touchValue v)

/-- the operations of a cycle, left to right, all decided on the same `body`, all into one patch -/
def runAnnOps (env : Env) (c : AnnCfg) (body : J) : J → List AnnOp → Except Err J
  | p, [] => .ok p
  | p, o :: os =>
    match o.run env c body p with
    | .ok p' => runAnnOps env c body p' os
    | .error e => .error e

/-- VARIANT (not the code): `dicts.ensure` only where the object's value differs from the one written -/
def ensureChangedAll (body : J) : J → List Str → J → Except Err J
  | p, [], _ => .ok p
  | p, n :: ns, v =>
    if pyEq (resolveD body (annPath n)) v then ensureChangedAll body p ns v
    else
      match liftD (ensure p (annPath n) v) with
      | .ok p' => ensureChangedAll body p' ns v
      | .error e => .error e

/-- VARIANT (not the code): `store` that does not "re-send what is already there" -/
def annStoreSkipUnchanged (env : Env) (c : AnnCfg) (body patch : J) (k : Str) (r : Rec) : Except Err J :=
  match ensureChangedAll body patch (annNames env c.pfx c.v1 body k) (str (env.enc (obj (stored c.verbose r)))) with
  | .ok p1 => storeMarker c.pfx body p1
  | .error e => .error e

end Kopf.C16
