/-
  C16 model, part 4: where the bodies come from.  A freshly started operator LISTS the resource (`fetching.list_objs`): Kubernetes
  names kind & apiVersion once for the whole list ("ReplicaSetList"), the items of typed lists carry none, and `list_objs` puts them
  back into every item: `item.setdefault('kind', rsp['kind'].removesuffix('List'))`, `item.setdefault('apiVersion', rsp['apiVersion'])`.
  The annotation names of a ReplicaSet owned by a Deployment depend on that restored kind (`isDRS`).  The variant `rstripChars`
  (Python `str.rstrip('List')`: strips a trailing character SET; seeded change C16h) is here so that `Props/C16.lean` can show what
  goes wrong with it.  (A list kind that is not a string raises in Python; the harness never sends one: items are left as they are.)
-/
import Kopf.Model.C16_Storage
namespace Kopf.C16
open Kopf Kopf.J

def listWord : Str := "List".toList

/-- Python `s.removesuffix('List')` -/
def removeSuffix (sfx s : Str) : Str :=
  if sfx.isSuffixOf s then s.take (s.length - sfx.length) else s

/-- Python `s.rstrip(chars)`: drops trailing characters as long as they are IN THE SET `chars` -/
def rstripChars (cs s : Str) : Str := (s.reverse.dropWhile (fun c => cs.contains c)).reverse

/-- `dict.setdefault(k, v)` -/
def setDefault (k : String) (v : J) : J → J
  | obj kvs => match lookup k kvs with
    | some _ => obj kvs
    | none => obj (kvs ++ [(k, v)])
  | j => j

/-- one item of a list response, as `list_objs` hands it on; `strip` is how the kind is derived from the list's kind -/
def listedItem (strip : Str → Str) (rsp item : J) : J :=
  let item := match rsp.get? "kind" with
    | some (str kd) => setDefault "kind" (str (String.ofList (strip kd.toList))) item
    | _ => item
  match rsp.get? "apiVersion" with
  | some av => setDefault "apiVersion" av item
  | none => item

def listedItems (strip : Str → Str) (rsp : J) : List J :=
  match rsp.get? "items" with
  | some (arr xs) => xs.map (listedItem strip rsp)
  | _ => []

/-- the code: -/
def listObjs (rsp : J) : List J := listedItems (removeSuffix listWord) rsp
/-- the changed variant (C16h): -/
def listObjsRstrip (rsp : J) : List J := listedItems (rstripChars listWord) rsp

end Kopf.C16
