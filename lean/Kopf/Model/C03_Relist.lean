/-
  C03 model, part 2 — events that arrive WHILE `application.apply` sleeps, and the worker's queue discipline.

  `loopStep` (C03_Loop) takes the sleep of a turn and the touch after it as one atomic step: right in a silent tail
  in which every event is the echo of the framework's own last write. But every delivery timing of watch events is in
  the property's quantifier, and one event needs no write at all: when the watch stream is re-established (410 Gone
  after a while without events of the kind, a connection lost in the listing phase, un-pausing) it begins with a
  LISTING, and every object is delivered again AS IT IS (`type=None`, the resource version processed last).

    `queueing.watcher` puts it into the object's backlog and sets the stream pressure → `apply`'s sleep returns at once
    ("Sleeping was interrupted by new changes"), NO touch-dummy PATCH is sent — the new event is expected to be
    processed next and to re-arm the sleep → `queueing.worker` takes the event from the backlog and gives it to the
    processor: an ordinary turn on the same object, a little later.

  `workerTurn skipSame` has the worker's decision as a parameter: `false` = the code as it is (every event taken from the
  backlog is processed); `true` = a worker that drops a listed event carrying the version it has processed last (the
  seeded change C03f: "nothing new to detect").  Core Lean only.
-/
import Kopf.Model.C03_Loop
namespace Kopf.C03
open Kopf

variable {E : Type} [DecidableEq E]

/-- This turn ends in `apply`'s sleep: it reaches `process_changing_cause`, its patch changes nothing, delays are left.
    The value is the moment the sleep would end by itself (then the touch). -/
def sleepsTill (env : Env) (s : State E) : Option Tick :=
  if handlesNow env s && !decide ((causeOf s).reason = .free) && !changedOf env s then
    (minDelay (pass env s).delays).map (fun d => s.now + (if d > env.cap then env.cap else d))
  else none

/-- The state after a turn whose sleep was interrupted at `t` by a new event for the object: what the pass left
    (nothing that changes the object), the constant part of the patch was sent before the sleep, NO touch; the event
    that interrupted is pending, the clock reads `t`. -/
def interrupted (env : Env) (s : State E) (t : Tick) : State E :=
  nextState env s t true (s.writes + cp env)

/-- Does an event arriving at `t` fall into the sleep of this turn? -/
def inSleep (env : Env) (s : State E) (t : Tick) : Bool :=
  match sleepsTill env s with
  | some w => decide (s.now ≤ t) && decide (t < w)
  | none => false

/-- One turn of the loop during which the object is RE-LISTED as it is at `t`. Inside the turn's sleep: the sleep is
    interrupted (no touch); the listed event — same version as the one just processed — is then either processed
    (`skipSame = false`, the code as it is: pending) or dropped by the worker (`skipSame = true`: NOTHING is pending,
    nothing sleeps). Outside a sleep the listed event waits in the backlog behind the turn: if the turn wrote, the echo
    of that write is pending anyway (the listed event is then a stale view: C07's); if it settled the object, the
    listed event is one more event on a settled object (dropped or not, nothing is outstanding). -/
def workerTurn (skipSame : Bool) (env : Env) (t : Tick) (s : State E) : State E :=
  if inSleep env s t then { interrupted env s t with pending := !skipSame }
  else
    let s' := loopStep env s
    if s'.gone || s'.pending || skipSame then s' else { s' with pending := true, now := if s'.now < t then t else s'.now }

/-- a turn of the code as it is, with a re-listing at `t` -/
def loopStepR (env : Env) (t : Tick) (s : State E) : State E := workerTurn false env t s

/-- a turn of a worker that drops listed events repeating the processed version (seed C03f) -/
def loopStepRSkip (env : Env) (t : Tick) (s : State E) : State E := workerTurn true env t s

end Kopf.C03
