/-
  C18 model — admission responses. Mirrors the mechanism in
    * `kopf/_cogs/structs/patches.py`   `Patch._apply_patch` (and `as_json_patch` up to `from_diff`),
    * `kopf/_core/engines/admission.py`  `build_response`,
    * `kopf/_core/intents/registries.py` `WebhooksRegistry.iter_handlers`, `_matches_subresource`.
  Core Lean only.
-/
import Kopf.Base.J
import Kopf.Base.Merge
namespace Kopf.C18
open Kopf Kopf.J

/-! ## `Patch._apply_patch` -/

/-- The first step of the `Mapping` case (repair 74dc18a):
      `target = dicts.resolve(body, path, absent) if path else body`
      `if target is not absent and not isinstance(target, Mapping): dicts.ensure(body, path, {})`.
    `resolve` yields `absent` for a missing key and for a non-mapping intermediate (`J.resolve?`);
    with an empty path it yields the body itself (so a non-mapping body makes `ensure` raise
    ValueError: never totalised away). -/
def clearNonMapping (body : J) (path : List String) : Except DictErr J :=
  match resolve? body path with
  | none => .ok body
  | some (.obj _) => .ok body
  | some _ => ensure body path (.obj [])

mutual
  /-- `_apply_patch(body, path, value)`:
        `None`    → `dicts.remove(body, path)`
        `Mapping` → a present non-mapping target is first replaced by `{}` (`clearNonMapping`), then
                    for every `(key, val)`: `_apply_patch(body, path + (key,), val)` (body threaded)
        otherwise → `dicts.ensure(body, path, value)`.
      `ensure`/`remove` raise `TypeError` on a non-mapping parent: kept as `Except`. -/
  def applyInstr (body : J) (path : List String) : J → Except DictErr J
    | .null => remove body path
    | .obj kvs =>
        match clearNonMapping body path with
        | .ok b => applyKvs b path kvs
        | .error e => .error e
    | .bool b => ensure body path (.bool b)
    | .num n => ensure body path (.num n)
    | .str s => ensure body path (.str s)
    | .arr xs => ensure body path (.arr xs)
  def applyKvs (body : J) (path : List String) : List (String × J) → Except DictErr J
    | [] => .ok body
    | (k, v) :: rest =>
        match applyInstr body (path ++ [k]) v with
        | .ok b => applyKvs b path rest
        | .error e => .error e
end

/-- the merge-instruction part of `as_json_patch`: `self._apply_patch(body_to_be, (), dict(self))`
    (the root call is the `Mapping` case with the empty path). -/
def applyPatch (body : J) (patch : List (String × J)) : Except DictErr J :=
  applyInstr body [] (.obj patch)

/-! ## specification vocabulary for the fidelity clause -/

/-- The value at `path` if it is a *leaf* (anything but a mapping). Two objects with the same
    `leafAt` function are equal up to key order and the presence of empty mappings. -/
def leafAt : J → List String → Option J
  | .obj _, [] => none
  | .obj kvs, k :: ks =>
      match lookup k kvs with
      | some v => leafAt v ks
      | none => none
  | j, [] => some j
  | _, _ :: _ => none

/-- "equal up to (key order and) the presence of empty mappings" -/
def LeafEq (a b : J) : Prop := ∀ p, leafAt a p = leafAt b p

mutual
  /-- remove keys whose value is (recursively) an empty mapping; lists are opaque leaves. -/
  def dropEmpty : J → J
    | .obj kvs => .obj (dropEmptyKvs kvs)
    | j => j
  def dropEmptyKvs : List (String × J) → List (String × J)
    | [] => []
    | (k, v) :: rest =>
        match dropEmpty v with
        | .obj [] => dropEmptyKvs rest
        | v' => (k, v') :: dropEmptyKvs rest
end

/-! ## transformation functions (`patch.fns`) — the two the framework itself queues:
      `functools.partial(finalizers.block_deletion, finalizer=f)` and `…allow_deletion…`, and a user's
      own function that edits fields of the body in place (`mergeWith`). -/

inductive Fn where
  | addFinalizer (f : String)      -- finalizers.block_deletion
  | removeFinalizer (f : String)   -- finalizers.allow_deletion
  | mergeWith (q : List (String × J))
      -- a USER's transformation function (`patch.fns.append(fn)`): edits the body in place the way the
      -- RFC 7386 content `q` says (set / overwrite / delete / nested merge), e.g. `body['spec']['ratio'] = 1.0`
  deriving Repr

/-- `body.get('metadata', {})` as bindings; a present non-mapping `metadata` makes the real
    functions raise (AttributeError): an error here, never a default. -/
def metaOf : J → Except DictErr (Option (List (String × J)))
  | .obj kvs =>
      match lookup "metadata" kvs with
      | none => .ok none
      | some (.obj m) => .ok (some m)
      | some _ => .error .typeError
  | _ => .error .typeError

/-- `.get('finalizers', [])`; only lists are supported by the real functions. -/
def finsOf (m : Option (List (String × J))) : Except DictErr (Option (List J)) :=
  match m with
  | none => .ok none
  | some m =>
      match lookup "finalizers" m with
      | none => .ok none
      | some (.arr xs) => .ok (some xs)
      | some _ => .error .typeError

def isStr (f : String) : J → Bool
  | .str s => s == f
  | _ => false

/-- `while finalizer in …: body['metadata']['finalizers'].remove(finalizer)` (in place on the list) -/
def stripFinalizer (f : String) (body : J) : Except DictErr J :=
  match metaOf body with
  | .error e => .error e
  | .ok m =>
    match finsOf m with
    | .error e => .error e
    | .ok none => .ok body
    | .ok (some cur) =>
        if cur.any (isStr f)
        then ensure body ["metadata", "finalizers"] (.arr (cur.filter (fun x => !isStr f x)))
        else .ok body

/-- `if 'finalizers' in metadata and not metadata.get('finalizers'): del metadata['finalizers']` -/
def dropEmptyFins (body : J) : Except DictErr J :=
  match metaOf body with
  | .error e => .error e
  | .ok m =>
    match body, m with
    | .obj kvs, some mm =>
        (match lookup "finalizers" mm with
         | some (.arr []) => .ok (.obj (insert "metadata" (.obj (erase "finalizers" mm)) kvs))
         | _ => .ok body)
    | _, _ => .ok body

/-- `if 'metadata' in body and not body['metadata']: del body['metadata']` -/
def dropEmptyMeta (body : J) : Except DictErr J :=
  match metaOf body with
  | .error e => .error e
  | .ok m =>
    match body, m with
    | .obj kvs, some [] => .ok (.obj (erase "metadata" kvs))
    | _, _ => .ok body

def applyFn (body : J) : Fn → Except DictErr J
  | .addFinalizer f =>
      match metaOf body with
      | .error e => .error e
      | .ok m =>
        match finsOf m with
        | .error e => .error e
        | .ok fs =>
          let cur := fs.getD []
          if cur.any (isStr f) then .ok body
          else ensure body ["metadata", "finalizers"] (.arr (cur ++ [.str f]))
  | .removeFinalizer f =>
      match stripFinalizer f body with
      | .error e => .error e
      | .ok b1 =>
        match dropEmptyFins b1 with
        | .error e => .error e
        | .ok b2 => dropEmptyMeta b2
  | .mergeWith q =>
      match body with
      | .obj tk => .ok (.obj (mergeKvs tk q))
      | _ => .error .typeError

def applyFns (body : J) : List Fn → Except DictErr J
  | [] => .ok body
  | f :: rest =>
      match applyFn body f with
      | .ok b => applyFns b rest
      | .error e => .error e

/-- `body_to_be` of `as_json_patch`: merge instructions first, then the functions in order. -/
def mutated (body : J) (patch : List (String × J)) (fns : List Fn) : Except DictErr J :=
  match applyPatch body patch with
  | .ok b => applyFns b fns
  | .error e => .error e

/-! ## `build_response` -/

/-- what `build_response` can tell about an exception: its class (through `isinstance`). -/
inductive ErrKind where
  | admission | permanent | temporary | other
  deriving DecidableEq, Repr, Inhabited

structure Err where
  kind : ErrKind
  code : Option Int    -- `AdmissionError.code` (None allowed); meaningless for other kinds
  str : String         -- `str(e)`
  repr : String        -- `repr(e)`
  deriving DecidableEq, Repr, Inhabited

/-- `outcome.exception` per selected handler, in `outcomes` (= execution) order. -/
abbrev Outcome := Option Err

/-- the sort key of `errors.sort(key=...)` -/
def prio : ErrKind → Nat
  | .admission => 0
  | .permanent => 1
  | .temporary => 2
  | .other => 9

/-- first element with the minimal key = head of Python's stable `list.sort(key=...)`. -/
def pickMin : List Err → Option Err
  | [] => none
  | e :: rest =>
      match pickMin rest with
      | none => some e
      | some m => if prio m.kind < prio e.kind then some m else some e

def errorsOf (outs : List Outcome) : List Err := outs.filterMap id

/-- `str(e) or repr(e)` -/
def message (e : Err) : String := if e.str ≠ "" then e.str else e.repr

/-- `(e.code if isinstance(e, AdmissionError) else None) or 500` (`None` and `0` are falsy). -/
def statusCode (e : Err) : Int :=
  match e.kind, e.code with
  | .admission, some c => if c ≠ 0 then c else 500
  | _, _ => 500

structure Status where
  message : String
  code : Int
  deriving DecidableEq, Repr

/-- `Op` = one RFC 6902 operation as produced by `jsonpatch` (opaque to the model). -/
structure Response (Op : Type) where
  allowed : Bool
  status : Option Status          -- present iff there are errors
  warnings : Option (List String) -- present iff non-empty
  patch : Option (List Op)        -- `response['patch']` (base64(json) of the ops): present iff `jsonpatch` is truthy
  patchType : Option String       -- `'JSONPatch'`, present together with `patch`
  deriving Repr

/-- `build_response(request, outcomes, warnings, jsonpatch)`. NB: the patch is attached whenever it
    is non-empty — independently of `allowed`, i.e. also on denial. -/
def buildResponse {Op : Type} (outs : List Outcome) (warnings : List String) (jsonpatch : List Op) :
    Response Op :=
  { allowed := outs.all (fun o => o.isNone)
    status := (pickMin (errorsOf outs)).map (fun e => ⟨message e, statusCode e⟩)
    warnings := if warnings.isEmpty then none else some warnings
    patch := if jsonpatch.isEmpty then none else some jsonpatch
    patchType := if jsonpatch.isEmpty then none else some "JSONPatch" }

/-! ## `Patch.as_json_patch` — the diff library is a parameter -/

/-- `as_json_patch(body)`: `[]` when the patch is falsy (`len(self) == 0 and not self.fns`), else
    `jsonpatch.JsonPatch.from_diff(body_as_is, body_to_be).patch` with `body_to_be = mutated …`.
    `fromDiff` stands for the third-party `jsonpatch.from_diff`; nothing is assumed about it here. -/
def asJsonPatch {Op : Type} (fromDiff : J → J → List Op) (body : J) (patch : List (String × J))
    (fns : List Fn) : Except DictErr (List Op) :=
  if patch.isEmpty && fns.isEmpty then .ok []
  else match mutated body patch fns with
    | .ok toBe => .ok (fromDiff body toBe)
    | .error e => .error e

/-- REJECTED VARIANT of `as_json_patch` (never the code; the class of the seeded change C18f): after the
    merge instructions and the functions, `if body_to_be == body_as_is: return []` — "nothing changed,
    skip the costly diff" — with PYTHON's `==` (`J.pyEq`: `True == 1`, `False == 0`; floats likewise,
    outside `J`). `Props/C18.lean: eq_shortcut_witness` shows it drops a requested type change. -/
def asJsonPatchEqShortcut {Op : Type} (fromDiff : J → J → List Op) (body : J) (patch : List (String × J))
    (fns : List Fn) : Except DictErr (List Op) :=
  if patch.isEmpty && fns.isEmpty then .ok []
  else match mutated body patch fns with
    | .ok toBe => if J.pyEq toBe body then .ok [] else .ok (fromDiff body toBe)
    | .error e => .error e

/-- what the apiserver does with a response: apply the patch when there is one. `applyOps` stands
    for an RFC 6902 applier. -/
def appliedObject {Op : Type} (applyOps : J → List Op → Option J) (body : J) (r : Response Op) : Option J :=
  match r.patch with
  | none => some body
  | some ops => applyOps body ops

/-! ## the webhook gate: `WebhooksRegistry.iter_handlers` + `_matches_subresource` -/

inductive WebhookType where
  | validating | mutating
  deriving DecidableEq, Repr, Inhabited

structure Handler where
  id : String
  reason : WebhookType
  operations : Option (List String)   -- `handler.operations` (None or a collection)
  subresource : Option String         -- None = main resource only; "*" = any
  fn : String                         -- identity of the registered function (`id(handler.fn)`): stacked
                                      -- decorators register ONE function several times, under the SAME id
  deriving DecidableEq, Repr

structure Cause where
  reason : Option WebhookType         -- hint from the webhook server
  webhook : Option String             -- hinted handler id
  operation : Option String           -- request.operation
  subresource : Option String         -- request.subResource
  deriving DecidableEq, Repr

/-- `set(handler.operations or []) == {'DELETE'}` -/
def explicitlyForDeletion (h : Handler) : Bool :=
  match h.operations with
  | none => false
  | some ops => !ops.isEmpty && ops.all (· == "DELETE")

/-- `_matches_subresource` -/
def matchesSubresource (h : Handler) (c : Cause) : Bool :=
  h.subresource == some "*" || h.subresource == c.subresource

/-- truthiness of `handler.operations` (None and the empty collection are falsy) -/
def opsTruthy (h : Handler) : Bool :=
  match h.operations with
  | some (_ :: _) => true
  | _ => false

/-- `x in handler.operations` (only evaluated when the collection is truthy) -/
def opsContains (h : Handler) (x : String) : Bool := (h.operations.getD []).contains x

/-- `cause.operation in handler.operations` (only evaluated when `cause.operation` is not None) -/
def opInOps (h : Handler) (c : Cause) : Bool :=
  match c.operation with
  | some op => opsContains h op
  | none => false

/-- `matching_operation` (repair cc4195a):
    `not handler.operations or cause.operation is None or '*' in handler.operations or
     cause.operation in handler.operations` -/
def matchingOperation (h : Handler) (c : Cause) : Bool :=
  !opsTruthy h || c.operation == none || opsContains h "*" || opInOps h c

/-- The gate; `m` = the remaining filters of `match()` (resource selector, labels, annotations,
    field values/changes, `when` callback: C15's subject), opaque here. -/
def gate (h : Handler) (c : Cause) (m : Bool) : Bool :=
  (c.reason == none || c.reason == some h.reason) &&
  (c.webhook == none || c.webhook == some h.id) &&
  matchingOperation h c &&
  (h.reason != .mutating || c.operation != some "DELETE" || explicitlyForDeletion h) &&
  (matchesSubresource h c && m)

/-- `(id(handler.fn), handler.id)`, the key of `registries._deduplicated` -/
def Handler.key (h : Handler) : String × String := (h.fn, h.id)

/-- `_deduplicated(src)`: keep the first handler of every key, in order (`seen` = `seen_ids`). -/
def dedupAux (seen : List (String × String)) : List Handler → List Handler
  | [] => []
  | h :: rest =>
      if seen.contains h.key then dedupAux seen rest
      else h :: dedupAux (h.key :: seen) rest

/-- `get_handlers(cause) = list(_deduplicated(iter_handlers(cause)))`: the registrations passing the
    gate, in registry order, and only THEN deduplicated — a function registered several times (stacked
    decorators) is invoked once per review, through its first MATCHING registration. -/
def select (hs : List (Handler × Bool)) (c : Cause) : List Handler :=
  dedupAux [] ((hs.filter (fun hm => gate hm.1 c hm.2)).map (·.1))

/-! ## one admission review: selection, execution, response -/

/-- what one handler invocation did, as far as the response reads it: the warnings it appended to the
    shared `warnings` list (in order) and the exception it raised, if any. Its edits of the shared
    `patch` object are accounted for by the final patch content / fns given to `serve`. -/
structure Act where
  warnings : List String
  error : Outcome
  deriving Repr

/-- `serve_admission_request` after the cause is built (code after 2903555): the selected handlers are
    executed ONE BY ONE in registry order, each through its own `execute_handlers_once`, and their
    outcomes are kept per handler under the key `(index, id)` — so `build_response`, which only reads
    the values, sees exactly one outcome per selected handler, in order, also when two different
    functions share an id. `warnings` is one shared list appended to in that order; the response
    carries the JSON patch of the final patch object. -/
def serve {Op : Type} (fromDiff : J → J → List Op) (hs : List (Handler × Bool)) (c : Cause)
    (act : Handler → Act) (body : J) (patch : List (String × J)) (fns : List Fn) :
    Except DictErr (Response Op) :=
  let sel := select hs c
  match asJsonPatch fromDiff body patch fns with
  | .ok ops => .ok (buildResponse (sel.map (fun h => (act h).error)) (sel.flatMap (fun h => (act h).warnings)) ops)
  | .error e => .error e

/-! ## the review request: which object is reviewed -/

/-- `raw_body = new_body if new_body is not None else old_body` with `new_body = request.object`,
    `old_body = request.oldObject` (absent key = `None`): the object given to the handlers, to their
    filters and — `patch = patches.Patch(body=body)` — the reference the JSON patch is computed
    against. The apiserver applies the returned patch to `request.object`; only a DELETE review has
    no `object` (there `oldObject` is the one under review). -/
def reviewedBody (new old : Option J) : Option J :=
  match new with
  | some n => some n
  | none => old

/-- `serve_admission_request` from the request payload on: `none` stands for `MissingDataError`
    ("Either old or new object is missing"), raised before any handler runs. -/
def serveReview {Op : Type} (fromDiff : J → J → List Op) (hs : List (Handler × Bool)) (c : Cause)
    (act : Handler → Act) (new old : Option J) (patch : List (String × J)) (fns : List Fn) :
    Option (Except DictErr (Response Op)) :=
  match reviewedBody new old with
  | none => none
  | some b => some (serve fromDiff hs c act b patch fns)

/-! ## the managed webhook configuration (`build_webhooks`) as far as operations are concerned -/

/-- `'operations': list(handler.operations or ['*'])` of the rule generated for the handler's own
    webhook (whose URL carries the handler id: `_inject_handler_id(client_config, handler.id)`). -/
def managedRuleOps (h : Handler) : List String :=
  match h.operations with
  | none => ["*"]
  | some [] => ["*"]
  | some ops => ops

end Kopf.C18
