/-
  X01 — the COMPOSED reactor of ONE object: C03's closed loop (object + operator memory), C07's worker
  variables (`expected_version`, `consistency_time`) and processor (`process`), and the versioned transport
  (a server-side version counter, the watch events in flight with the version and the VIEW they carry; the
  version test of a JSON-patch is C08's `applyPayload`). Core Lean only. Nothing of C03/C07/C08 is re-implemented:
  the step CALLS `C07.arrive`, `C07.process`, `C07.feedback`, `C03.loopStep`, `C03.loopStepI`, `C03.loopStepC`,
  `C03.adjusting`, `C03.handlesNow`, `C03.changedOf`, `C03.pass`, `C03.minDelay`, `C03.cp`, `C08.applyPayload`.

  What the three models leave open and this file closes (THE GLUE, each item marked `GLUE n` below):

  GLUE 1 (versions are generated here). In C07 the versions of the events and of the own PATCHes are INPUTS of
    every iteration; in C03 there are no versions at all (`pending : Bool`). Here the server holds a counter
    `rv`; a turn of the worker that leaves an event behind in C03's sense (`pending` after the turn: the PATCH or
    the touch changed the object) bumps it ONCE (C03's turn is atomic over its requests) and queues the echo,
    which carries the new version and the object as stored then. A write of somebody else bumps it and queues its event.

  GLUE 2 (the view). C03's `loopStep` works on ONE state that is both what the server holds and what the worker
    sees. With events in flight the worker sees the object AS OF THE EVENT'S VERSION (`Ev.snap`), the server may be
    ahead. The turn is computed by C03 on the view (`viewOf`); what it changed ON ITS VIEW is written to the server as
    a merge-patch is: field by field (`writeBack`: the records it changed, the last-handled state if it changed it);
    essence and deletion mark are never written by the framework. With a fresh view this is C03's turn itself
    (`reactor_refines_loop`). The finalizer is edited by a JSON-patch that tests the view's version: on a stale view it
    is rejected (422) and, being the framework's own function, not carried (C08, 1c8f3dd): `finConflict`.
    A turn that changed something on a STALE view whose write-back changes nothing on the server (the same content was
    written before) makes NO version: the server answers with the version it holds (`noop` in `work`; found by the tie).
    NOT modelled: the closing patch of a release on a stale view (merge-patch first: its JSON-patch tests the fresh
    answer; taken as accepted). `constPatch` on a stale view: GLUE 7 in `turn` (with a constant patch the finalizer's JSON-patch tests
    the merge-patch's fresh answer and is NOT refused on a stale view: `finConflict` is right for `constPatch = false` only).

  GLUE 3 (which of C03's turns). C07's `process` decides from (deadline, clock, pressure, next arrival) whether the
    changing stage runs. ran / not required → `loopStep` on the view — at the deadline when the barrier slept it out,
    which is `loopStepI … false dl`; held back with a carried patch → `loopStepC`; held back with a patch
    accumulated (`constPatch`) → `loopStepI … true dl`; held back with NOTHING accumulated — the barrier sleep was
    interrupted by the next arrival — has no turn in C03 (its environment is silent): `heldIdle` — nothing is read or
    written, the reported waiting delay is "slept" by `apply` with the stream pressure still set, i.e. not at all.

  GLUE 4 (a sleep that is cut). C03's sleeping turn (`handleTurn`, nothing changed, delays → sleep → touch) assumes
    that nothing arrives during the sleep. Here the next event in flight may arrive before the sleep is over:
    `application.apply`'s sleep is woken by the stream pressure and the touch is skipped (`cutSleep`).

  GLUE 5 (clock). C03's `now` after a turn is when the NEXT event arrives (`lat` = round trip + delivery). Here the
    delivery delay is the environment's (`Act.work d`): C03's `now` after the turn is taken as the instant the
    processor returns (`tret`, also the instant the server applied the write: `tp`), the echo is available `d` ticks later,
    never before the events queued before it (per-object FIFO: C01).

  GLUE 6 (where a carried patch comes from). C03's `Env` has no handler-supplied transformation functions, so a 422
    on them cannot arise inside; the adversary injects `Carried` (`Act.carry`), the next turn consumes it.
-/
import Kopf.Model.C03_Loop
import Kopf.Model.C07_Barrier
import Kopf.Model.C08_Patching
namespace Kopf.X01
open Kopf

abbrev Id := C03.Id

/-- The object as the server stores it (or as an event shows it): C03's `State` without the operator's memory. -/
structure Obj (E : Type) where
  P : C02.Store
  base : Option E
  ess : E
  marked : Bool
  blocked : Bool
  gone : Bool

/-- A watch event in flight or in the worker's backlog. -/
structure Ev (E : Type) where
  ver : Nat          -- `metadata.resourceVersion` it carries
  snap : Obj E       -- the object as of that version: the worker's VIEW when it processes the event
  at_ : Int          -- it cannot be dequeued before (delivery)
  own : Bool         -- ghost: the echo of a write of the framework

/-- ghost: one run of the changing stage (`process_changing_cause` entered with a cause that has handlers) -/
structure Ran where
  ver : Nat                    -- the version of the view it ran on
  t : Int                      -- when
  owns : List (Nat × Int)      -- the framework's own writes issued before (version, server time), newest first

structure RState (E : Type) where
  srv : Obj E                  -- what the server holds
  rv : Nat                     -- … and its version: the counter
  queue : List (Ev E)          -- events not yet dequeued, oldest first
  noticed : Bool               -- operator memory (C03)
  fullyHandled : Bool
  resumed : List Id
  w : C07.WState               -- the worker's locals (C07)
  carried : C03.Carried        -- `memory.remaining_patch`, as far as the loop is concerned (C03/C08)
  clock : Int                  -- `loop.time()` when the worker became free
  writes : Nat                 -- PATCH requests of the framework so far (C03)
  owns : List (Nat × Int)      -- ghost: own effective writes (version, server time), newest first
  seen : Nat                   -- ghost: the highest version dequeued so far
  ran : List Ran               -- ghost: the runs of the changing stage, newest first

variable {E : Type} [DecidableEq E]

/-- GLUE 2: the state C03's turn is computed on: the view of the event + the operator's memory, at time `t`. -/
def viewOf (r : RState E) (o : Obj E) (t : Int) : C03.State E :=
  { P := o.P, base := o.base, ess := o.ess, marked := o.marked, blocked := o.blocked, gone := o.gone,
    noticed := r.noticed, fullyHandled := r.fullyHandled, resumed := r.resumed,
    now := t, pending := true, writes := r.writes }

/-- GLUE 2: a merge-patch writes the fields the turn changed ON ITS VIEW (`sv` → `sv'`), nothing else. -/
def writeBack (srv : Obj E) (sv sv' : C03.State E) : Obj E :=
  { srv with
    P := fun i => if sv'.P i != sv.P i then sv'.P i else srv.P i,
    base := if sv'.base = sv.base then srv.base else sv'.base,
    blocked := if sv'.blocked = sv.blocked then srv.blocked else sv'.blocked,
    gone := srv.gone || (sv'.gone && !sv.gone) }

/-- the object part of a C03 state -/
def objOfS (s : C03.State E) : Obj E :=
  { P := s.P, base := s.base, ess := s.ess, marked := s.marked, blocked := s.blocked, gone := s.gone }

/-- do two stored objects differ in what the framework writes (records of `ids`, last-handled state, finalizer, existence)? -/
def objDiffers (ids : List Id) (a b : Obj E) : Bool :=
  ids.any (fun i => b.P i != a.P i) || decide (b.base ≠ a.base) || (b.blocked != a.blocked) || (b.gone != a.gone)

/-- GLUE 2 (C08): the framework's finalizer edit is a JSON-patch `[test resourceVersion == view's, …]`; C08's
    `applyPayload` on the stored object says whether the test fails. -/
def finConflict (viewVer srvVer : Nat) (blocked : Bool) : Bool :=
  (C08.applyPayload (.json viewVer (some (if blocked then [] else ["kopf"])) none)
    { uid := 0, rv := srvVer, marked := false, fins := if blocked then ["kopf"] else [], body := [] }).isNone

/-- the C07 iteration as far as the processor reads it (the version handed back and its times are outputs: filled
    in by `iterOf`) -/
def iter0 (env : C03.Env) (r : RState E) (ev : Ev E) (rest : List (Ev E)) (t0 : Int) : C07.Iter :=
  let sv := viewOf r ev.snap t0
  { ver := some ⟨ev.ver, false⟩, now := t0, dur := 0,
    pressure := match rest with | nx :: _ => decide (nx.at_ ≤ t0) | [] => false,
    wake := match rest with | nx :: _ => some (nx.at_ - t0).toNat | [] => none,
    lag := 0, gone := sv.gone,
    -- `changing_cause is not None` at the barrier: not a turn dedicated to the finalizer, not blind (C03 `loopStepI`)
    required := !sv.gone && !C03.adjusting env sv && env.prematch,
    carried := r.carried != .none,
    patchMid := !env.constPatch,          -- the only thing that fills the patch before the barrier in C03's loop
    patched := none, tp := t0, tret := t0, listed := false, paused := false }

/-- GLUE 4: if C03's turn on `sv` is a sleeping one (nothing changed, delays), when its sleep ends -/
def sleepEnd (env : C03.Env) (sv : C03.State E) : Option Int :=
  if C03.handlesNow env sv && !C03.changedOf env sv && decide ((C03.causeOf sv).reason ≠ .free) then
    (C03.minDelay (C03.pass env sv).delays).map (fun d => sv.now + (if d > env.cap then env.cap else d))
  else none

/-- GLUE 4: the sleeping turn whose sleep was woken at `t`: the pass as C03 has it, no touch, no event of its own. -/
def cutSleep (env : C03.Env) (sv : C03.State E) (t : Int) : C03.State E :=
  { C03.loopStep env sv with pending := false, now := t, writes := sv.writes + C03.cp env }

/-- GLUE 3: held back with nothing accumulated (the barrier sleep was interrupted): nothing happens. -/
def heldIdle (sv : C03.State E) (t : Int) : C03.State E := { sv with pending := false, now := t }

/-- GLUE 2: a finalizer edit rejected with 422: the request was made (with the constant part, if any), nothing changed. -/
def rejected (env : C03.Env) (sv : C03.State E) : C03.State E :=
  { sv with pending := false, now := sv.now + C03.latS env, writes := sv.writes + C03.cp env + 1 }

/-- GLUE 3: which turn of C03 this iteration is, on the view `sv`, given the processor's outcome. -/
def turnOf (env : C03.Env) (c : C03.Carried) (dl : Option Int) (o : C07.Outcome) (viewVer srvVer : Nat)
    (nextAt : Option Int) (sv : C03.State E) : C03.State E :=
  if o.held then
    if c != .none then C03.loopStepC env c sv
    else if env.constPatch then
      match dl with
      | some d => C03.loopStepI env true d sv
      | none => heldIdle sv o.left                    -- unreachable: held ∧ nothing carried ⇒ a deadline (Lemmas)
    else heldIdle sv o.left
  else if !sv.gone && C03.adjusting env sv && finConflict viewVer srvVer sv.blocked then rejected env sv
  else
    let sv1 : C03.State E := { sv with now := o.left }
    match sleepEnd env sv1, nextAt with
    | some e, some a => if a < e then cutSleep env sv1 (if a < sv1.now then sv1.now else a)
                        else (match dl with | some d => C03.loopStepI env false d sv | none => C03.loopStep env sv)
    | _, _ => (match dl with | some d => C03.loopStepI env false d sv | none => C03.loopStep env sv)

/-- the iteration with what the turn handed back: the version of its write, when the server applied it, when the
    processor returned -/
def iterOf (it : C07.Iter) (patched : Option C07.Ver) (tret : Int) : C07.Iter :=
  { it with patched := patched, tp := tret, tret := tret }

/-- What one iteration works out before anything is committed. -/
structure Turn (E : Type) where
  it : C07.Iter            -- what C07's processor reads
  o : C07.Outcome          -- what it decided
  sv : C03.State E         -- the view
  sv' : C03.State E        -- C03's turn on the view
  tret : Int               -- when the processor returned (= when the server applied the write)
  srv' : Obj E             -- the server's object after the write-back
  released : Bool          -- this turn released the object
  noop : Bool              -- the turn changed its (stale) view, the write-back changes nothing on the server: no version
  echo : Bool              -- an event of the framework's own making follows
  wrote : Bool             -- a new version was made

/-- dequeue `ev` (the rest of the queue: `rest`): C07's reset-on-arrival and processor, C03's turn on the view, the write-back -/
def turn (env : C03.Env) (r : RState E) (ev : Ev E) (rest : List (Ev E)) : Turn E :=
  let t0 := if r.clock < ev.at_ then ev.at_ else r.clock
  let sv := viewOf r ev.snap t0
  let it := iter0 env r ev rest t0
  let w1 := C07.arrive r.w it.ver
  let o := C07.process w1.deadline it
  let sv0 := turnOf env r.carried w1.deadline o ev.ver r.rv (rest.head?.map (·.at_)) sv
  -- GLUE 7 (`constPatch` on a STALE view): the cycle's patch has content that changes nothing (an on.event handler's constant);
  -- when C03's turn changed nothing else on the view, that patch is the only request: the server makes no version and answers with
  -- the NEWER version it holds, `application.apply` takes "answered ≠ seen" for a change: no sleep, no touch; the worker is handed
  -- that version (and arms on it). Held back or not; not in a turn dedicated to the finalizer / on a blind or gone object.
  let constStale := env.constPatch && decide (ev.ver ≠ r.rv) && it.required && r.carried == .none &&
    !objDiffers (C03.ids env) (objOfS sv) (objOfS sv0) && !(sv0.gone && !sv.gone)
  let sv' : C03.State E :=
    if constStale then { sv0 with pending := false, now := o.left + env.rtt, writes := sv.writes + C03.cp env } else sv0
  let tret := if sv'.now < t0 then t0 else sv'.now
  -- GLUE 1: an event of its own follows / the object was released: ONE new version — unless (GLUE 2) the turn changed
  -- something ON ITS VIEW and writing that back changes NOTHING on the server (a stale view whose change was written
  -- before): the API server makes no version for a no-op PATCH and answers with the version it holds
  let released := sv'.gone && !sv.gone
  let srv' := writeBack r.srv sv sv'
  let noop := (sv'.pending && objDiffers (C03.ids env) (objOfS sv) (objOfS sv') &&
    !objDiffers (C03.ids env) r.srv srv' && !released) || constStale
  let echo := sv'.pending && !noop
  { it := it, o := o, sv := sv, sv' := sv', tret := tret, srv' := srv', released := released, noop := noop, echo := echo,
    wrote := echo || released }

/-- the version `application.apply` hands back to the worker -/
def patchedOf (rv : Nat) (k : Turn E) : Option C07.Ver :=
  if k.wrote then some ⟨rv + 1, k.released⟩ else if k.noop then some ⟨rv, false⟩ else none

/-- One worker iteration: `turn`, then the commit: the new version and its echo, the operator's memory, C07's feedback,
    the ghosts. `d`: delivery delay of the echo. -/
def work (T : Int) (env : C03.Env) (d : Nat) (r : RState E) : RState E :=
  match r.queue with
  | [] => r
  | ev :: rest =>
    let k := turn env r ev rest
    let lastAt := match rest.getLast? with | some l => l.at_ | none => k.tret
    let echoAt := if k.tret + (d : Int) < lastAt then lastAt else k.tret + d
    { srv := k.srv', rv := if k.wrote then r.rv + 1 else r.rv,
      queue := if k.echo then rest ++ [{ ver := r.rv + 1, snap := k.srv', at_ := echoAt, own := true }] else rest,
      noticed := k.sv'.noticed, fullyHandled := k.sv'.fullyHandled, resumed := k.sv'.resumed,
      w := (C07.stepEvent T r.w (iterOf k.it (patchedOf r.rv k) k.tret)).1,
      carried := .none,
      clock := k.tret, writes := k.sv'.writes,
      owns := if k.wrote then (r.rv + 1, k.tret) :: r.owns else r.owns,
      seen := if r.seen < ev.ver then ev.ver else r.seen,
      ran := match k.o.handlers with
        | some t => { ver := ev.ver, t := t, owns := r.owns } :: r.ran
        | none => r.ran }

/-- append an event, keeping the per-object FIFO (it is not available before the ones queued before it) -/
def enqueue (q : List (Ev E)) (ver : Nat) (snap : Obj E) (at_ : Int) : List (Ev E) :=
  let lastAt := match q.getLast? with | some l => l.at_ | none => at_
  q ++ [{ ver := ver, snap := snap, at_ := if at_ < lastAt then lastAt else at_, own := false }]

/-- What can happen, one action at a time. -/
inductive Act (E : Type) where
  | work (d : Nat)                       -- the worker takes the next event; the echo of its write is delivered `d` ticks late
  | foreign (e : E) (at_ : Int)          -- somebody else's write makes the essence `e`; its event is available at `at_`
  | delete (at_ : Int)                   -- somebody else's deletion request
  | carry (c : C03.Carried)              -- C08's transport left a handler's functions behind (422): GLUE 6
  | retire (t : Int)                     -- the idle worker exits at `t`; the next event gets a fresh one

/-- the worker may exit at `t`: nothing to dequeue till then, and its idle wait (C07 `idleTimeout`) has timed out -/
def mayRetire (idle : Int) (r : RState E) (t : Int) : Bool :=
  (match r.queue with | ev :: _ => decide (t < ev.at_) | [] => true) &&
    decide (r.clock + C07.idleTimeout idle r.w.deadline r.clock ≤ t)

def act (T idle : Int) (env : C03.Env) (r : RState E) : Act E → RState E
  | .work d => work T env d r
  | .foreign e a =>
      if r.srv.gone then r
      else
        let srv' := { r.srv with ess := e }
        { r with srv := srv', rv := r.rv + 1, queue := enqueue r.queue (r.rv + 1) srv' a }
  | .delete a =>
      if r.srv.gone then r
      else
        let srv' := { r.srv with marked := true, gone := !(r.srv.blocked || env.foreignFins) }
        { r with srv := srv', rv := r.rv + 1, queue := enqueue r.queue (r.rv + 1) srv' a }
  | .carry c => { r with carried := c }
  | .retire t => if mayRetire idle r t then { r with w := C07.WState.init, clock := if t < r.clock then r.clock else t } else r

def runActs (T idle : Int) (env : C03.Env) (r : RState E) (acts : List (Act E)) : RState E :=
  acts.foldl (act T idle env) r

/-- `n` iterations of the worker with a silent environment, every echo delivered at once -/
def witer (T : Int) (env : C03.Env) : Nat → RState E → RState E
  | 0, r => r
  | n + 1, r => witer T env n (work T env 0 r)

/-- the server's object + the operator's memory as a C03 state: the event pending iff one is queued, the clock
    that of the next dequeue -/
def absS (r : RState E) : C03.State E :=
  { viewOf r r.srv (match r.queue with
      | ev :: _ => if r.clock < ev.at_ then ev.at_ else r.clock
      | [] => r.clock) with pending := !r.queue.isEmpty }

/-- a C03 state as a reactor state: its one pending event (if any) is in the queue, fresh; nothing is expected -/
def ofLoop (s : C03.State E) (v : Nat) : RState E :=
  let o : Obj E := { P := s.P, base := s.base, ess := s.ess, marked := s.marked, blocked := s.blocked, gone := s.gone }
  { srv := o, rv := v, queue := if s.pending then [{ ver := v, snap := o, at_ := s.now, own := false }] else [],
    noticed := s.noticed, fullyHandled := s.fullyHandled, resumed := s.resumed, w := C07.WState.init, carried := .none,
    clock := s.now, writes := s.writes, owns := [], seen := 0, ran := [] }

/-- a freshly created object: its ADDED event (version 1) is in flight -/
def created (e : E) (t : Int) : RState E := ofLoop (C03.created e t) 1

end Kopf.X01
