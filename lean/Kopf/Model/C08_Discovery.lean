/-
  C08 — where `patch_obj`'s `sub` comes from: model of how kopf learns which subresources a resource has
  (`kopf._cogs.clients.scanning._read_version`). Core Lean only.

  What is mirrored (read from the code, not from the property):
  * the API discovery answer of one group/version is ONE flat list of entries; a resource is an entry whose name
    has no slash (`'/' not in resource['name']`), a subresource is an entry named `plural/subresource`;
  * the subresources of a resource are collected by NAME: every entry whose name starts with `plural + '/'`
    gives `name.split('/', 1)[-1]` (`subresourcesOf`); nothing else of the entry is looked at (kind, verbs, order);
  * `patching.patch_obj` asks `'status' in resource.subresources` (`believesStatus`) and nothing else: this Bool is the
    `sub` argument of `patchObj` in `C08_Patching.lean`.
  Names are character lists (`String.toList` in the driver): `startswith` is `List.isPrefixOf`.

  `subresourcesOfPrefix` is the variant without the delimiter (`name.startswith(plural)` over the entries with a
  slash), kept for the witness theorem only.
-/
import Kopf.Model.C08_Patching
namespace Kopf.C08

abbrev Name := List Char

/-- `name.split('/', 1)[-1]`: what follows the first slash; the whole name when there is none -/
def afterSlash (n : Name) : Name :=
  match n.dropWhile (fun c => c != '/') with
  | [] => n
  | _ :: t => t

def hasSlash (n : Name) : Bool := n.any (fun c => c == '/')

/-- `name.startswith(f'{plural}/')` -/
def isSubOf (plural n : Name) : Bool := (plural ++ ['/']).isPrefixOf n

/-- the `subresources=frozenset(...)` comprehension of `_read_version` (as a list; membership is what matters) -/
def subresourcesOf (names : List Name) (plural : Name) : List Name :=
  (names.filter (isSubOf plural)).map afterSlash

/-- the resources of the answer: `if '/' not in resource['name']`, each with its subresources -/
def readVersion (names : List Name) : List (Name × List Name) :=
  (names.filter (fun n => !hasSlash n)).map (fun p => (p, subresourcesOf names p))

def statusName : Name := ['s', 't', 'a', 't', 'u', 's']

/-- `'status' in resource.subresources` (patching.patch_obj's `as_subresource`) -/
def believesStatus (names : List Name) (plural : Name) : Bool :=
  (subresourcesOf names plural).any (fun s => s == statusName)

/-- the cluster's fact: a resource and the subresources it really serves -/
structure ResDef where
  plural : Name
  subs : List Name
  deriving Repr

/-- the entries an API server lists for these resources (in this order; the theorems hold for any order) -/
def discoveryNames (cl : List ResDef) : List Name :=
  cl.flatMap (fun r => r.plural :: r.subs.map (fun s => r.plural ++ '/' :: s))

/-- the cluster serves `/status` for this plural -/
def servesStatus (cl : List ResDef) (plural : Name) : Prop :=
  ∃ r ∈ cl, r.plural = plural ∧ statusName ∈ r.subs

/-- VARIANT (not the code): the delimiter is lost — every entry with a slash whose name merely begins with the plural -/
def subresourcesOfPrefix (names : List Name) (plural : Name) : List Name :=
  ((names.filter hasSlash).filter (fun n => plural.isPrefixOf n)).map afterSlash

def believesStatusPrefix (names : List Name) (plural : Name) : Bool :=
  (subresourcesOfPrefix names plural).any (fun s => s == statusName)

/-- A cluster that does not serve `/status` for the resource: both requests to it are answered 404 (no such route),
    whatever the object is. (In `step` the client's belief and the server's fact are one `sub`; a client that believes
    in a subresource the server does not have is this environment with `sub = true`.) -/
def noStatusEndpoint : Env := { slips := fun _ => [], faults := fun k => if k.toStatus then .notFound else .none }

def Outcome.isGone : Outcome → Bool
  | .gone => true
  | _ => false

end Kopf.C08
