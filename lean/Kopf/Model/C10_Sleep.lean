/-
  C10 — the sleep every wait of `daemons._timer` goes through: `kopf._cogs.aiokits.aiotime.sleep(delays, wakeup)`.

      minimal_delay = min(actual_delays) if actual_delays else 0
      if minimal_delay <= 0: return None
      try:    await asyncio.wait_for(wakeup.wait(), timeout=minimal_delay)
      except asyncio.TimeoutError: return None                         # slept in full
      else:   return max(0., minimal_delay - (loop.time() - start_time))  # woken: seconds left

  `_timer` IGNORES the result of its open-loop sleeps (initial delay, interval, sharp remainder): the schedule model
  (`sleepUntil` in C10_Timer) is right only because an un-woken sleep lasts the whole delay. This file states the
  mechanism with the single degree of freedom a "robust" rewrite has — an upper bound `cap` on one uninterrupted wait
  (`none` = the code) — so that the contract can be proved for the code and refuted for every finite cap.
  Integer ticks; `wake` = the instant the wakeup event (the stopper) is set, `none` = never. Core Lean only.
-/
import Kopf.Model.C10_Timer

namespace Kopf.C10

/-- what a sleep did: the instant it returned and its result (`none` = Python's `None` = slept in full) -/
structure SleepOut where
  ret : Int
  left : Option Int
deriving DecidableEq, Repr

/-- `aiotime.sleep(d, wakeup)` entered at `now`, one uninterrupted wait bounded by `cap`.
    An event already set (`w ≤ now`) ends the wait at once; one set exactly at the deadline loses to the timeout. -/
def sleepCapped (cap : Option Int) (now d : Int) (wake : Option Int) : SleepOut :=
  if d ≤ 0 then ⟨now, none⟩ else
  let timeout := match cap with | none => d | some c => min d c
  match wake with
  | some w =>
    if w < now + timeout then
      let ret := max now w
      ⟨ret, some (max 0 (d - (ret - now)))⟩
    else if timeout ≥ d then ⟨now + timeout, none⟩ else ⟨now + timeout, some (max 0 (d - timeout))⟩
  | none => if timeout ≥ d then ⟨now + timeout, none⟩ else ⟨now + timeout, some (max 0 (d - timeout))⟩

/-- the code: no cap -/
def sleep (now d : Int) (wake : Option Int) : SleepOut := sleepCapped none now d wake

end Kopf.C10
