/-
  X01 — the composed worker iteration with the reset-on-arrival as a PARAMETER (`arr`), for the sensitivity witness:
  `workA C07.arrive` IS `work` (`Kopf.X01.workA_arrive`, by `rfl`); a worker that clears what it awaits on ANY arrival
  (`arriveAny`: "an event came, so the write must have been seen") is the seeded variant. Core Lean only.
-/
import Kopf.Model.X01_Reactor
namespace Kopf.X01
open Kopf

variable {E : Type} [DecidableEq E]

/-- the seeded variant of `queueing.worker`'s `if expected_version is not None and expected_version == get_version(raw_event)`:
    the comparison dropped — any arrival resets both locals -/
def arriveAny (_ : C07.WState) (_ : Option C07.Ver) : C07.WState := C07.WState.init

/-- `turn` with the reset-on-arrival `arr` -/
def turnA (arr : C07.WState → Option C07.Ver → C07.WState) (env : C03.Env) (r : RState E) (ev : Ev E) (rest : List (Ev E)) : Turn E :=
  let t0 := if r.clock < ev.at_ then ev.at_ else r.clock
  let sv := viewOf r ev.snap t0
  let it := iter0 env r ev rest t0
  let w1 := arr r.w it.ver
  let o := C07.process w1.deadline it
  let sv0 := turnOf env r.carried w1.deadline o ev.ver r.rv (rest.head?.map (·.at_)) sv
  -- GLUE 7 (`constPatch` on a STALE view): the cycle's patch has content that changes nothing (an on.event handler's constant);
  -- when C03's turn changed nothing else on the view, that patch is the only request: the server makes no version and answers with
  -- the NEWER version it holds, `application.apply` takes "answered ≠ seen" for a change: no sleep, no touch; the worker is handed
  -- that version (and arms on it). Held back or not; not in a turn dedicated to the finalizer / on a blind or gone object.
  let constStale := env.constPatch && decide (ev.ver ≠ r.rv) && it.required && r.carried == .none &&
    !objDiffers (C03.ids env) (objOfS sv) (objOfS sv0) && !(sv0.gone && !sv.gone)
  let sv' : C03.State E :=
    if constStale then { sv0 with pending := false, now := o.left + env.rtt, writes := sv.writes + C03.cp env } else sv0
  let tret := if sv'.now < t0 then t0 else sv'.now
  let released := sv'.gone && !sv.gone
  let srv' := writeBack r.srv sv sv'
  let noop := (sv'.pending && objDiffers (C03.ids env) (objOfS sv) (objOfS sv') &&
    !objDiffers (C03.ids env) r.srv srv' && !released) || constStale
  let echo := sv'.pending && !noop
  { it := it, o := o, sv := sv, sv' := sv', tret := tret, srv' := srv', released := released, noop := noop, echo := echo,
    wrote := echo || released }

/-- `work` with the reset-on-arrival `arr` (also in the feedback: C07's `stepEvent` is `feedback ∘ arrive`) -/
def workA (arr : C07.WState → Option C07.Ver → C07.WState) (T : Int) (env : C03.Env) (d : Nat) (r : RState E) : RState E :=
  match r.queue with
  | [] => r
  | ev :: rest =>
    let k := turnA arr env r ev rest
    let lastAt := match rest.getLast? with | some l => l.at_ | none => k.tret
    let echoAt := if k.tret + (d : Int) < lastAt then lastAt else k.tret + d
    { srv := k.srv', rv := if k.wrote then r.rv + 1 else r.rv,
      queue := if k.echo then rest ++ [{ ver := r.rv + 1, snap := k.srv', at_ := echoAt, own := true }] else rest,
      noticed := k.sv'.noticed, fullyHandled := k.sv'.fullyHandled, resumed := k.sv'.resumed,
      w := C07.feedback T (arr r.w k.it.ver) (iterOf k.it (patchedOf r.rv k) k.tret),
      carried := .none,
      clock := k.tret, writes := k.sv'.writes,
      owns := if k.wrote then (r.rv + 1, k.tret) :: r.owns else r.owns,
      seen := if r.seen < ev.ver then ev.ver else r.seen,
      ran := match k.o.handlers with
        | some t => { ver := ev.ver, t := t, owns := r.owns } :: r.ran
        | none => r.ran }

def actA (arr : C07.WState → Option C07.Ver → C07.WState) (T idle : Int) (env : C03.Env) (r : RState E) : Act E → RState E
  | .work d => workA arr T env d r
  | a => act T idle env r a

def runActsA (arr : C07.WState → Option C07.Ver → C07.WState) (T idle : Int) (env : C03.Env) (r : RState E)
    (acts : List (Act E)) : RState E := acts.foldl (actA arr T idle env) r

end Kopf.X01
