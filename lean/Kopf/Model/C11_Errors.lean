/-
  C11 model — the handler error policy of kopf, as the code has it. Core Lean only.

  Mirrors
  * `execution.execute_handler_once`  : `precheck` (the two strict checks before the call),
    `post` (the `except` chain in its textual order, with the look-ahead checks), `classify`;
  * `progression.HandlerState`        : `Rec` (persisted record), `finished/sleeping/awakened/runtime`,
    `fromScratch`, `withOutcome`, `toStorage/fromStorage` (what survives an operator restart);
  * the gate of `execution.execute_handlers_once` (`state[h.id].awakened`) and the drivers around it:
    `runEnv` — processing cycles as the ENVIRONMENT can make them happen: at arbitrary times, on a
             possibly STALE view of the object (the code re-reads the record from the event body:
             `State.from_storage(body=cause.body)`, processing.py / subhandling.py), with the cycle's
             patch possibly LOST (API failure) or the operator KILLED between the handler call and
             the applied patch (= lost patch + restart), restarts anywhere;
    `run`  — the same with record continuity: every cycle sees the record stored by the previous
             one (`run_is_continuous_env`): change handlers and sub-handlers;
    `loopRun` — the in-memory loop of `activities.run_activity`, `daemons._daemon` and one retry
             series of `daemons._timer`: "while not done: execute; with_outcome; sleep(state.delay)";
    `timerRun` — the whole life of `daemons._timer` (interval, no idle);
    `childrenRaised` — what `kopf.execute()` raises in the parent for the sub-handlers' records;
    `stepStored` — the gate and one execution on a record re-read from the storage, whatever the spelling of
             its timestamps (`_as_utc`, e01f630; `stepStoredRaw` = the code before);
    `namesakeFresh` / `namesakeInherits` — one function registered under one id for two reasons, the second
             cause superseding the first (f7d6401: top-level handlers start from scratch; their sub-handlers
             still inherit).

  Time is integer ticks (in C11 1 tick = 2^-10 s). The harness only uses multiples of 16 ticks
  (2^-6 s = 15625 µs) so that kopf's microsecond `datetime` arithmetic and float seconds are exact.
  One monotone clock: `now = basetime + loop.time()`; clock skew/steps between operator instances
  are outside the model.
-/
namespace Kopf.C11

/-- `execution.ErrorsMode` -/
inductive Mode where
  | ignored | temporary | permanent
  deriving DecidableEq, Repr, Inhabited

/-- What `execute_handler_once` reads of the handler (`None` = not set). -/
structure Limits where
  errors : Option Mode    -- handler.errors
  timeout : Option Int    -- handler.timeout, ticks
  retries : Option Int    -- handler.retries (a Python int: may be 0 or negative)
  backoff : Option Int    -- handler.backoff, ticks
  deriving DecidableEq, Repr

/-- What it reads of its surroundings. -/
structure Env where
  defaultErrors : Mode    -- `default_errors=` argument (TEMPORARY; IGNORED for `on.event`)
  defaultBackoff : Int    -- `settings.execution.default_backoff` (60 s)
  deriving DecidableEq, Repr

/-- `progression.HandlerState`, the fields that decide anything (timestamps as ticks). -/
structure Rec where
  started : Int
  stopped : Option Int
  delayed : Option Int
  retries : Int
  success : Bool
  failure : Bool
  deriving DecidableEq, Repr

/-- What the handler function did when (and if) it was called. -/
inductive Raised where
  | ok                                  -- returned a result
  | temporary (delay : Option Int)      -- `TemporaryError(delay=…)`; `None` is allowed
  | permanent                           -- `PermanentError`
  | arbitrary                           -- any other `Exception`
  | childrenRetry (delay : Option Int)  -- `HandlerChildrenRetry` from `kopf.execute()` (sub-handlers pending)
  deriving DecidableEq, Repr

/-- Which exception the outcome carries. -/
inductive Exc where
  | none      -- `outcome.exception is None`
  | raised    -- the handler's own exception
  | timeout   -- `HandlerTimeoutError` made by the framework
  | retries   -- `HandlerRetriesError` made by the framework
  deriving DecidableEq, Repr

/-- `execution.Outcome` (+ whether the function was called at all). -/
structure Outcome where
  invoked : Bool
  final : Bool
  delay : Option Int
  exc : Exc
  deriving DecidableEq, Repr

def Limits.mode (env : Env) (l : Limits) : Mode :=
  match l.errors with
  | some m => m
  | none => env.defaultErrors

def Limits.backoffOr (env : Env) (l : Limits) : Int :=
  match l.backoff with
  | some b => b
  | none => env.defaultBackoff

def Rec.finished (r : Rec) : Bool := r.success || r.failure

/-- `not finished and delayed is not None and delayed > now` -/
def Rec.sleeping (r : Rec) (now : Int) : Bool :=
  !r.finished && (match r.delayed with
                  | some d => decide (d > now)
                  | none => false)

def Rec.awakened (r : Rec) (now : Int) : Bool := !r.finished && !r.sleeping now

def Rec.runtime (r : Rec) (now : Int) : Int := now - r.started

/-- `HandlerState.from_scratch` -/
def fromScratch (now : Int) : Rec :=
  { started := now, stopped := none, delayed := none, retries := 0, success := false, failure := false }

/-- `handler.timeout is not None and <runtime> >= handler.timeout` -/
def timedOut (l : Limits) (runtime : Int) : Bool :=
  match l.timeout with
  | some t => decide (runtime ≥ t)
  | none => false

/-- `handler.retries is not None and <n> >= handler.retries` -/
def retriesOut (l : Limits) (n : Int) : Bool :=
  match l.retries with
  | some k => decide (n ≥ k)
  | none => false

/-- The strict checks before the call: timeout first, then retries. -/
def precheck (l : Limits) (r : Rec) (now : Int) : Option Exc :=
  if timedOut l (r.runtime now) then some .timeout
  else if retriesOut l r.retries then some .retries
  else none

/-- The look-ahead checks after a retryable failure: timeout first, then retries. -/
def lookahead (l : Limits) (r : Rec) (now : Int) (extra : Int) : Option Exc :=
  if timedOut l (r.runtime now + extra) then some .timeout
  else if retriesOut l (r.retries + 1) then some .retries
  else none

/-- Python's `e.delay or 0` -/
def orZero : Option Int → Int
  | some d => d
  | none => 0

def finalWith (e : Exc) : Outcome := { invoked := true, final := true, delay := none, exc := e }
def retryWith (d : Option Int) : Outcome := { invoked := true, final := false, delay := d, exc := .raised }

/-- The `except … else` chain after the call, evaluated at `now` = the moment the call ended. -/
def post (env : Env) (l : Limits) (r : Rec) (now : Int) : Raised → Outcome
  | .ok => finalWith .none
  | .childrenRetry d => retryWith d                       -- no look-ahead for unfinished children
  | .temporary d =>
      match lookahead l r now (orZero d) with
      | some e => finalWith e
      | none => retryWith d
  | .permanent => finalWith .raised
  | .arbitrary =>
      match l.mode env with
      | .ignored => finalWith .none
      | .permanent => finalWith .raised
      | .temporary =>
          match lookahead l r now (l.backoffOr env) with
          | some e => finalWith e
          | none => retryWith (some (l.backoffOr env))

/-- `execute_handler_once`: called at `now`; if the function is invoked it takes `dur` ticks. -/
def classify (env : Env) (l : Limits) (r : Rec) (now : Int) (dur : Nat) (x : Raised) : Outcome :=
  match precheck l r now with
  | some e => { invoked := false, final := true, delay := none, exc := e }
  | none => post env l r (now + dur) x

/-- When the outcome is known: immediately if the function was not called, else `dur` later. -/
def endTime (o : Outcome) (now : Int) (dur : Nat) : Int := if o.invoked then now + dur else now

/-- `HandlerState.with_outcome`, evaluated at `now`. -/
def withOutcome (r : Rec) (now : Int) (o : Outcome) : Rec :=
  { started := r.started
    stopped := match r.stopped with
               | some s => some s
               | none => if o.final then some now else none
    delayed := match o.delay with
               | some d => some (now + d)
               | none => none
    retries := r.retries + 1
    success := o.final && (o.exc == .none)
    failure := o.final && !(o.exc == .none) }

/-! ### Persistence: what an operator restart keeps (change handlers, sub-handlers) -/

/-- `progress.ProgressRecord` as stored (`as_in_storage`: `None`s are not stored). -/
structure Stored where
  started : Option Int
  stopped : Option Int
  delayed : Option Int
  retries : Option Int
  success : Option Bool
  failure : Option Bool
  deriving DecidableEq, Repr

def toStorage (r : Rec) : Stored :=
  { started := some r.started, stopped := r.stopped, delayed := r.delayed,
    retries := some r.retries, success := some r.success, failure := some r.failure }

/-- `HandlerState.from_storage` (`started or now`, `retries or 0`, `success or False`, …). -/
def fromStorage (s : Stored) (now : Int) : Rec :=
  { started := match s.started with | some t => t | none => now
    stopped := s.stopped
    delayed := s.delayed
    retries := match s.retries with | some n => n | none => 0
    success := match s.success with | some b => b | none => false
    failure := match s.failure with | some b => b | none => false }

/-! ### Attempt sequences -/

/-- One call of `execute_handler_once` (the handler was awake in that cycle). -/
structure Attempt where
  time : Int          -- when the cycle ran (= when the function was called, if it was)
  retry : Int         -- the `retry` kwarg = stored retries before the call
  out : Outcome
  endTime : Int       -- when `execute_handler_once` returned the outcome
  merged : Int        -- when `with_outcome` merged it into the record (after the whole batch)
  recAfter : Rec
  deriving DecidableEq, Repr

inductive Step where
  /-- a processing cycle `dt` ticks after the previous step ended. The gate (`awakened`) is read
      when the cycle starts; the handler's turn comes `wait` ticks later (handlers selected before
      it in the same batch run first); if it is called it does `x` and takes `dur` ticks; the
      outcomes of the batch are merged `lag` ticks after its call ended (handlers after it). -/
  | cycle (dt : Nat) (wait : Nat) (x : Raised) (dur : Nat) (lag : Nat)
  /-- the operator dies and a new one starts `downtime` ticks later: every in-memory thing is
      lost, the record goes through the storage -/
  | restart (downtime : Nat)
  deriving DecidableEq, Repr

inductive Ev where
  | idle (time : Int) (done : Bool)   -- a cycle in which the handler was not awake (finished/sleeping)
  | att (a : Attempt)
  | restarted (time : Int)
  | skipped (time : Int)              -- awake, but the lifecycle (`asap`, `one_by_one`, …) chose another handler
  deriving DecidableEq, Repr

def attemptAt (env : Env) (l : Limits) (now : Int) (r : Rec) (x : Raised) (dur lag : Nat) : Attempt :=
  let o := classify env l r now dur x
  let e := endTime o now dur
  { time := now, retry := r.retries, out := o, endTime := e, merged := e + lag,
    recAfter := withOutcome r (e + lag) o }

/-! ### Records written by somebody else: how the stored timestamps are spelled

  kopf writes TZ-aware UTC timestamps (`2020-01-01T00:00:00.000000+00:00`); `now` is TZ-aware as well
  (`_get_basetime`: `datetime.now(tz=utc)`). `parse_iso8601` calls `iso8601.parse_date(val,
  default_timezone=None)`: a string WITHOUT an offset (what `datetime.utcnow().isoformat()` of the kopf
  releases before the TZ-aware clock wrote, and what kopf's own tests feed: `started='2000-01-01T00:00:00'`)
  comes back TZ-naive, and Python refuses to compare or subtract a naive and an aware datetime (TypeError).
  `Z` and numeric offsets are parsed as aware and behave like `+00:00` (same instant).
  Since e01f630 `HandlerState.from_storage` passes every parsed timestamp through `_as_utc`: a value
  without a tzinfo gets UTC attached (`val.replace(tzinfo=utc)`: the same digits, i.e. the same ticks
  in `Rec`), an aware one is left as it is. -/

/-- Which of the two timestamps that decide anything came back TZ-naive from `parse_iso8601`. -/
structure Spelling where
  startedNaive : Bool
  delayedNaive : Bool
  deriving DecidableEq, Repr

/-- `progression._as_utc`, applied by `from_storage` to `started`, `stopped` and `delayed`: whatever came
    back without an offset is UTC now; the instant (the ticks of `Rec`: the digits read as UTC) is kept. -/
def Spelling.asUtc (_ : Spelling) : Spelling := { startedNaive := false, delayedNaive := false }

/-- One cycle's dealing with one handler, on a record re-read from the storage. -/
inductive StoredStep where
  | raised                -- TypeError escapes `execute_handlers_once`: the cycle fails, nothing is stored
  | idle (done : Bool)    -- not awakened
  | att (a : Attempt)
  deriving DecidableEq, Repr

/-- The gate and one execution on timestamps TAKEN AS PARSED (the code before e01f630; kept as the
    variant the regression theorems `naive_*` are about), with the places where the timestamps are
    touched in their order:
    `sleeping` = `not finished and delayed is not None and delayed > now` (the comparison raises);
    in `execute_handler_once` `state.runtime` = `now - started` is evaluated by the strict timeout check
    (only if `timeout` is set), else after the retries check as the kwarg `runtime=` of the call —
    inside the `try`, so it lands in `except Exception`, whose first statement (the look-ahead)
    evaluates `state.runtime` again and raises out of the function. Only a handler that is refused
    by `retries` alone never looks at `started`. -/
def stepStoredRaw (env : Env) (l : Limits) (sp : Spelling) (r : Rec) (now : Int) (x : Raised) (dur : Nat) : StoredStep :=
  if r.finished then .idle true
  else if sp.delayedNaive && r.delayed.isSome then .raised
  else if r.sleeping now then .idle false
  else if sp.startedNaive && (l.timeout.isSome || !retriesOut l r.retries) then .raised
  else .att (attemptAt env l now r x dur 0)

/-- The code as it is (e01f630): `from_storage` normalises the spelling first (`_as_utc`), then the
    same gate and execution. -/
def stepStored (env : Env) (l : Limits) (sp : Spelling) (r : Rec) (now : Int) (x : Raised) (dur : Nat) : StoredStep :=
  stepStoredRaw env l sp.asUtc r now x dur

/-! ### The time zone of the operator's process (the ambient environment of `from_storage`)

  Python reads a TZ-naive `datetime` as LOCAL time of the process wherever it has to place it on the
  time line by itself (`astimezone()`, `timestamp()`, `now()` without `tz=`): `TZ` / `/etc/localtime`
  of the pod decide then. `_as_utc` does not ask: `val.replace(tzinfo=utc)` attaches UTC to the digits,
  an aware value is compared/subtracted by its instant. So the zone of the process is an input of the
  mechanism that the code does not consult; it is a parameter here (`zone` = the offset of the
  process's local time from UTC in ticks, east positive) so that this can be STATED and so that the
  variant that does consult it (`val.astimezone(utc)` for every value) has a counterpart. -/

/-- A stored timestamp as `parse_iso8601` returns it: the digits (the wall-clock reading in ticks) and
    the UTC offset the string carried (`none`: TZ-naive). -/
structure Stamp where
  wall : Int
  off : Option Int
  deriving DecidableEq, Repr

/-- The instant `t` written with the offset `o`; without one the way the older releases wrote it:
    `utcnow().isoformat()`, the UTC digits. -/
def Stamp.spell (t : Int) : Option Int → Stamp
  | some o => ⟨t + o, some o⟩
  | none => ⟨t, none⟩

/-- `progression._as_utc` as the code has it, as an instant: an aware value is its instant, a naive one
    is its digits read as UTC — whatever the zone of the process. -/
def Stamp.asUtc (_zone : Int) (s : Stamp) : Int :=
  match s.off with
  | some o => s.wall - o
  | none => s.wall

/-- The variant `val.astimezone(utc)` for every value: the same for aware values, a naive one is read
    as the LOCAL time of the process. -/
def Stamp.asUtcLocal (zone : Int) (s : Stamp) : Int :=
  match s.off with
  | some o => s.wall - o
  | none => s.wall - zone

/-- With which offsets (`none`: without any) the three timestamps of a record stand in the storage. -/
structure Offsets where
  started : Option Int
  stopped : Option Int
  delayed : Option Int
  deriving DecidableEq, Repr

def Offsets.spelling (os : Offsets) : Spelling := ⟨os.started.isNone, os.delayed.isNone⟩

/-- The record `from_storage` makes with the reader `conv` of the record `r` written with the offsets `os`. -/
def Rec.reread (conv : Stamp → Int) (os : Offsets) (r : Rec) : Rec :=
  { r with started := conv (Stamp.spell r.started os.started)
           stopped := r.stopped.map (fun t => conv (Stamp.spell t os.stopped))
           delayed := r.delayed.map (fun t => conv (Stamp.spell t os.delayed)) }

/-- One cycle on the stored record in a process whose local time is `zone` ticks ahead of UTC: the code. -/
def stepStoredIn (zone : Int) (env : Env) (l : Limits) (os : Offsets) (r : Rec) (now : Int) (x : Raised) (dur : Nat) : StoredStep :=
  stepStored env l os.spelling (r.reread (Stamp.asUtc zone) os) now x dur

/-- … and the variant that normalises every stored timestamp with `astimezone(utc)`. -/
def stepStoredLocal (zone : Int) (env : Env) (l : Limits) (os : Offsets) (r : Rec) (now : Int) (x : Raised) (dur : Nat) : StoredStep :=
  stepStored env l os.spelling (r.reread (Stamp.asUtcLocal zone) os) now x dur

/-- The whole history of one handler: cycles at arbitrary times, gated by `awakened`. -/
def run (env : Env) (l : Limits) : Int → Rec → List Step → List Ev
  | _, _, [] => []
  | now, r, .restart dn :: rest =>
      .restarted (now + dn) :: run env l (now + dn) (fromStorage (toStorage r) (now + dn)) rest
  | now, r, .cycle dt wait x dur lag :: rest =>
      let t := now + dt
      if r.awakened t then
        let a := attemptAt env l (t + wait) r x dur lag
        .att a :: run env l a.merged a.recAfter rest
      else
        .idle t r.finished :: run env l t r rest

/-! ### One function registered for two reasons under one id (stacked decorators)

  `@kopf.on.update` + `@kopf.on.delete` on one function = TWO handlers (each with its own `errors/retries/
  timeout/backoff`) and ONE progress record, keyed by the id. When the second cause supersedes the first
  at `t1` while the first handling is still open:
  * top-level handlers since f7d6401 (`process_changing_cause`: the records of handlers that are declared
    for the current reason but carry another purpose are left out of the state): the second handler
    starts from scratch at the first cycle of its cause — `namesakeFresh`;
  * before f7d6401, and STILL for the SUB-handlers of such a parent (`subhandling.execute` reads the
    records by their ids whatever their purpose): the second handling goes on from the record the
    first one left — `namesakeInherits`.
  Handlers without a reason of their own (resuming mix-ins; `reason=None`) are one handler for every
  cause: their record is re-purposed and the series goes on (`run` as it is). -/

/-- The record a handling leaves behind: its last attempt's, else the one it started from. -/
def lastRec (r0 : Rec) : List Ev → Rec
  | [] => r0
  | .att a :: rest => lastRec a.recAfter rest
  | _ :: rest => lastRec r0 rest

def namesakeFresh (env : Env) (l1 l2 : Limits) (t0 : Int) (s1 : List Step) (t1 : Int) (s2 : List Step) :
    List Ev × List Ev :=
  (run env l1 t0 (fromScratch t0) s1, run env l2 t1 (fromScratch t1) s2)

def namesakeInherits (env : Env) (l1 l2 : Limits) (t0 : Int) (s1 : List Step) (t1 : Int) (s2 : List Step) :
    List Ev × List Ev :=
  let e1 := run env l1 t0 (fromScratch t0) s1
  (e1, run env l2 t1 (lastRec (fromScratch t0) e1) s2)

def attempts : List Ev → List Attempt
  | [] => []
  | .att a :: rest => a :: attempts rest
  | _ :: rest => attempts rest

def invocations (evs : List Ev) : List Attempt := (attempts evs).filter (fun a => a.out.invoked)

/-- The moment the in-memory loops wake up: `sleep(state.delay)` with
    `delay = max(0, delayed - now)` or `0` without `delayed`. -/
def wakeTime (r : Rec) (now : Int) : Int :=
  match r.delayed with
  | some d => if d > now then d else now
  | none => now

/-- `run_activity` / `_daemon` / one series of `_timer`: the loop drives itself. -/
def loopRun (env : Env) (l : Limits) : Int → Rec → List (Raised × Nat) → List Attempt
  | _, _, [] => []
  | now, r, (x, dur) :: rest =>
      if r.finished then []
      else
        let a := attemptAt env l (wakeTime r now) r x dur 0
        a :: loopRun env l a.merged a.recAfter rest

/-- The same loop as a script for `run` (each cycle exactly when the sleep ends). -/
def loopSteps (env : Env) (l : Limits) : Int → Rec → List (Raised × Nat) → List Step
  | _, _, [] => []
  | now, r, (x, dur) :: rest =>
      if r.finished then []
      else
        let a := attemptAt env l (wakeTime r now) r x dur 0
        .cycle (wakeTime r now - now).toNat 0 x dur 0 :: loopSteps env l a.merged a.recAfter rest

/-- How long `_timer` sleeps after a finished series: the interval; if `sharp`, up to the next
    multiple of the interval since the execution started (`interval - passed % interval`).
    (`interval = 0` with `sharp` raises ZeroDivisionError in Python; here it sleeps 0, so that the
    model's clock never runs backwards; the driver refuses 0.) -/
def timerPause (interval : Nat) (sharp : Bool) (passed : Int) : Int :=
  if sharp then (if interval = 0 then 0 else interval - passed % interval) else interval

/-- Where `_timer` (with `interval`, without `idle`) is at the top of its loop again after an
    execution: after an unfinished one it sleeps `state.delays`; after a finished one the pause. -/
def timerNext (interval : Nat) (sharp : Bool) (a : Attempt) : Int :=
  if a.recAfter.finished then a.merged + timerPause interval sharp (a.merged - a.time)
  else wakeTime a.recAfter a.merged

/-- … and after an iteration in which nothing was awakened (`passed = 0`). -/
def timerIdleNext (interval : Nat) (sharp : Bool) (r : Rec) (now : Int) : Int :=
  if r.finished then now + timerPause interval sharp 0 else wakeTime r now

/-- `if state.done and not state.counts.failure: state = State.from_scratch()` -/
def timerReset (r : Rec) (now : Int) : Rec :=
  if r.finished && !r.failure then fromScratch now else r

/-- When the iteration that starts at `now` gets to its execution: `_timer` first waits until the
    object has been idle long enough (`while clock() - memory.idle_reset_time < handler.idle`), i.e.
    until `idleUntil = idle_reset_time + idle` (no `idle=`: `idleUntil ≤` the spawn time). -/
def timerAt (now idleUntil : Int) : Int := if idleUntil > now then idleUntil else now

/-- The record an iteration of `_timer` that starts at `now` executes at `t` (after the idle wait):
    `if state.done and not state.counts.failure: state = from_scratch()` at the top of the loop, and
    after the idle wait `if not state[handler.id].retries: state = from_scratch()` — a series that
    has not made an attempt yet starts its clock (`started`) with its first attempt (9118944). -/
def timerState (r : Rec) (now t : Int) : Rec :=
  if (timerReset r now).retries = 0 then fromScratch t else timerReset r now

/-- The whole life of ONE `_timer` task, one script element per iteration of its loop: what the function
    does if it is called (`x`, `dur`; not used when nothing is awakened) and `idleUntil` =
    `memory.idle_reset_time + handler.idle` as the iteration's idle wait found it when it let the
    iteration through (the object may be changed at any time — also in the middle of a retry series —
    and every change moves `idle_reset_time`; no `idle=`: any value `≤` the spawn time). A new retry
    series starts after a SUCCEEDED one only; a series that has failed for good is kept, the gate of
    `execute_handlers_once` finds nothing awakened in it, and the loop only keeps sleeping its interval.
    A running series is NOT restarted by an idle wait (`timerState` looks at `retries` only). -/
def timerRun (env : Env) (l : Limits) (interval : Nat) (sharp : Bool) :
    Int → Rec → List (Raised × Nat × Int) → List Ev
  | _, _, [] => []
  | now, r, (x, dur, idleUntil) :: rest =>
      let t := timerAt now idleUntil
      let r1 := timerState r now t
      if r1.awakened t then
        let a := attemptAt env l t r1 x dur 0
        .att a :: timerRun env l interval sharp (timerNext interval sharp a) a.recAfter rest
      else
        .idle t r1.finished :: timerRun env l interval sharp (timerIdleNext interval sharp r1 t) r1 rest

/-- A script of iterations that all find the same `idleUntil` (an object nobody touches). -/
def constIdle (idleUntil : Int) (script : List (Raised × Nat)) : List (Raised × Nat × Int) :=
  script.map (fun e => (e.1, e.2, idleUntil))

/-- The function's part of an iteration script. -/
def plainScript (script : List (Raised × Nat × Int)) : List (Raised × Nat) :=
  script.map (fun e => (e.1, e.2.1))

/-- A timer across re-spawns (`match_daemons` / `pause_daemons` stop the task with a reason, a later
    `spawn_daemons` starts a new one from `State.from_scratch()`). A task whose series failed for
    good puts the handler into `memory.forever_stopped` (a6c10de), and `process_spawning_cause` never
    spawns it again: the later tasks do not happen. -/
def respawnRun (env : Env) (l : Limits) (interval : Nat) (sharp : Bool) :
    List (Int × List (Raised × Nat × Int)) → List Ev
  | [] => []
  | (t0, script) :: rest =>
      let evs := timerRun env l interval sharp t0 (fromScratch t0) script
      evs ++ (if (attempts evs).any (fun a => a.recAfter.failure) then [] else respawnRun env l interval sharp rest)

/-- A daemon or a timer with `initial_delay=`: the task sleeps first and creates its state
    (`State.from_scratch()`) afterwards: the series' clock (`started`) begins `delay` after the spawn. -/
def spawnedAt (t0 : Int) (initialDelay : Nat) : Int := t0 + initialDelay

/-- `_daemon` from its spawn at `t0`: the initial delay, then the in-memory loop from scratch. -/
def daemonRun (env : Env) (l : Limits) (t0 : Int) (initialDelay : Nat) (script : List (Raised × Nat)) : List Attempt :=
  loopRun env l (spawnedAt t0 initialDelay) (fromScratch (spawnedAt t0 initialDelay)) script

/-- A daemon across re-spawns: a task that was stopped with a reason (filter mismatch, pause) in the
    middle of its series is spawned again from scratch when the object matches again; a task that
    ENDED ON ITS OWN — its function returned, or failed for good — is remembered by `_runner`
    (`stopper.reason is None` ⇒ `memory.forever_stopped`) and `process_spawning_cause` never spawns
    it again. One element per task: spawn time and what the function does in that task. -/
def daemonRespawnRun (env : Env) (l : Limits) : List (Int × List (Raised × Nat)) → List Attempt
  | [] => []
  | (t0, script) :: rest =>
      let as := daemonRun env l t0 0 script
      as ++ (if as.any (fun a => a.recAfter.finished) then [] else daemonRespawnRun env l rest)

/-- The attempts of a list up to and including the first one that finished the record: one series. -/
def takeSeries : List Attempt → List Attempt
  | [] => []
  | a :: rest => if a.recAfter.finished then [a] else a :: takeSeries rest

/-! ### Sub-handlers: what `kopf.execute()` tells the parent -/

/-- `State.delays` entry of one unfinished record: `max(0, delayed - now)`, or `0` without `delayed`. -/
def remaining (r : Rec) (now : Int) : Int :=
  match r.delayed with
  | some d => if d > now then d - now else 0
  | none => 0

def minList : List Int → Option Int
  | [] => none
  | x :: rest => match minList rest with
                 | some m => some (if x ≤ m then x else m)
                 | none => some x

/-- After the sub-handlers' batch (records `subs`, read at `now`): all finished → the parent's
    function returns; else `raise HandlerChildrenRetry(delay=state.delay)` with the smallest
    remaining delay of the unfinished ones. -/
def childrenRaised (subs : List Rec) (now : Int) : Raised :=
  match minList ((subs.filter (fun r => !r.finished)).map (fun r => remaining r now)) with
  | none => .ok
  | some d => .childrenRetry (some d)

/-! ### The adversarial environment: stale views, lost patches, kills in the middle of a cycle -/

inductive EStep where
  /-- a processing cycle on the record as it was `view` stored versions ago (`0` = current; beyond the
      first stored version = the object without a record); `stored = false`: the cycle's patch never
      lands (API failure, or the operator is killed after the handler call and before the patch). -/
  | cycle (view : Nat) (stored : Bool) (dt wait : Nat) (x : Raised) (dur lag : Nat)
  | restart (downtime : Nat)
  /-- a cycle in which the handler is awake on the shown version but the lifecycle selects another
      handler (`asap`, the default, runs one handler per cycle): no attempt; `State.store` still
      writes the handler's record if it is new (a fresh `from_scratch` record: `started` begins here). -/
  | skipped (view : Nat) (stored : Bool) (dt : Nat)
  deriving DecidableEq, Repr

/-- `State.from_storage(body).with_handlers(...)` on that version of the body. -/
def viewOf (hist : List Rec) (view : Nat) (t : Int) : Rec :=
  match hist[view]? with
  | some r => r
  | none => fromScratch t

/-- `hist` = the stored versions of the record, newest first. -/
def runEnv (env : Env) (l : Limits) : Int → List Rec → List EStep → List Ev
  | _, _, [] => []
  | now, hist, .restart dn :: rest => .restarted (now + dn) :: runEnv env l (now + dn) hist rest
  | now, hist, .cycle view stored dt wait x dur lag :: rest =>
      let t := now + dt
      let r := viewOf hist view t
      if r.awakened t then
        let a := attemptAt env l (t + wait) r x dur lag
        .att a :: runEnv env l a.merged (if stored then a.recAfter :: hist else hist) rest
      else
        .idle t r.finished :: runEnv env l t hist rest
  | now, hist, .skipped view stored dt :: rest =>
      let t := now + dt
      .skipped t :: runEnv env l t (if stored && (hist[view]?).isNone then fromScratch t :: hist else hist) rest

/-- A step of `run` as a step of the environment in which nothing is stale and nothing is lost.
    (A cycle that skips the handler is, for a record that exists, time passing: `.restart dt`.) -/
def Step.lift : Step → EStep
  | .cycle dt wait x dur lag => .cycle 0 true dt wait x dur lag
  | .restart dn => .restart dn

/-- Restarts are nothing but time passing for the persisted record: fold every downtime into the
    next cycle's `dt` (trailing restarts vanish). -/
def squashFrom (acc : Nat) : List Step → List Step
  | [] => []
  | .restart dn :: rest => squashFrom (acc + dn) rest
  | .cycle dt wait x dur lag :: rest => .cycle (acc + dt) wait x dur lag :: squashFrom 0 rest

def squash (s : List Step) : List Step := squashFrom 0 s

end Kopf.C11
