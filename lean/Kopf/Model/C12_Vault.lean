/-
  C12 model, part 3 — `credentials.Vault` + `auth.authenticated` + the authenticator, as a labelled
  transition system of any number of requesters (indexed by `Nat`) and one authenticator.
  Core Lean only.

  One label = one atomic code segment: a stretch executed under `Vault._guard` (an
  `asyncio.Condition`) between acquiring the lock / waking up in `wait_for` and releasing the lock /
  going to sleep in `wait_for`; or a step of the wrapped request function in `authenticated`.

    start r        the wrapped function is called                       (auth.authenticated)
    acquire r k    `_items`: `wait_for(_ready)` passed, `select()` chose key k, item yielded;
                   the request runs with that item's context
    acquireFail r  `_items`: ready, but `select()` raised LoginError (`_current` empty)
    ok r / fail r  the request returned / raised something that is not 401/APISessionClosed
    unauth r       the request raised APIUnauthorizedError / APISessionClosed
    inval r        `invalidate` 1st segment: identity check, removal, history `[-2:] + [item]`,
                   and if nothing is left: `_ready = False; notify_all(); wait_for(_ready)` (blocks)
    invalWake r    `invalidate` 2nd segment: woken with `_ready`; LoginError if still nothing
    post r         `_items` after the yield: `_current[key] is yielded_item` → break (→ the
                   "impossible state" RuntimeError of `authenticated`), otherwise loop again
    authStart      authenticator: `wait_for_emptiness()` returned (`not _ready`)
    populate src   authenticator: `populate(src)`: `_update_converted`, `_ready = True; notify_all()`

  Not modelled: expiration (`_expire`: every `expiration` is None), the per-item caches
  (`extended`), cancellation.
-/
namespace Kopf.C12.V

abbrev Key := Nat

/-- A `VaultItem`. `id` is the identity of the object (and of its `info` object: every populate
    brings newly constructed infos); `info` is the value that dataclass `==` compares. -/
structure Item where
  id : Nat
  info : Nat
  prio : Int
  deriving DecidableEq, Repr, Inhabited

inductive Res where
  | ok | error | loginError | impossible
  deriving DecidableEq, Repr, Inhabited

inductive Pc where
  | idle
  | acquiring
  | using (k : Key) (it : Item)
  | invalidating (k : Key) (it : Item)
  | invalWaiting (k : Key) (it : Item)
  | postYield (k : Key) (it : Item)
  | done (r : Res)
  deriving DecidableEq, Repr, Inhabited

inductive APc where
  | idle      -- in `wait_for_emptiness`
  | running   -- in `run_activity` (login handlers)
  deriving DecidableEq, Repr, Inhabited

abbrev Cur := List (Key × Item)

def lookup (k : Key) : Cur → Option Item
  | [] => none
  | (k', v) :: rest => if k' = k then some v else lookup k rest

def erase (k : Key) : Cur → Cur
  | [] => []
  | (k', v) :: rest => if k' = k then erase k rest else (k', v) :: erase k rest

/-- `_current[key] = item` (order is irrelevant: `select` picks at random among the top priority). -/
def set (k : Key) (v : Item) (c : Cur) : Cur := (k, v) :: erase k c

/-- the last `n` elements: Python's `xs[-n:]` for `n > 0` -/
def lastN (n : Nat) (xs : List Item) : List Item := xs.drop (xs.length - n)

/-- How many invalidated items per key `invalidate` remembers: `[-2:] + [item]`. -/
def historyBound : Nat := 3

structure St where
  cur : Cur                       -- `_current`
  inv : Key → List Item           -- `_invalid[key]`, oldest first
  ready : Bool                    -- `_ready`
  nextId : Nat                    -- serial of the next VaultItem to be constructed
  reqs : Nat → Pc
  auth : APc
  -- ghost (never read by `step` to decide anything):
  invAll : Key → List Item        -- every item ever invalidated under the key, oldest first
  episodes : Nat                  -- authentication activities started
  flips : Nat                     -- times `_ready` went True → False (+1 if the vault starts empty)
  removed : List Nat              -- ids of the items removed by `invalidate`
  emptyHits : Nat                 -- `invalidate` calls that met a ready, empty vault (+1 if it starts empty)
  emptyPops : Nat                 -- `populate` calls that left `_current` empty (the login delivered nothing usable)
  startedEmpty : Bool             -- the vault was constructed empty (initial authentication)

inductive Label where
  | start (r : Nat)
  | acquire (r : Nat) (k : Key)
  | acquireFail (r : Nat)
  | ok (r : Nat)
  | fail (r : Nat)
  | unauth (r : Nat)
  | inval (r : Nat)
  | invalWake (r : Nat)
  | post (r : Nat)
  | authStart
  | populate (src : List (Key × Nat × Int))    -- (key, info value, priority), in dict order
  deriving Repr

def upd {α} (f : Nat → α) (k : Nat) (v : α) : Nat → α := fun k' => if k' = k then v else f k'

@[simp] theorem upd_same {α} (f : Nat → α) (k : Nat) (v : α) : upd f k v k = v := by simp [upd]
@[simp] theorem upd_other {α} (f : Nat → α) (k k' : Nat) (v : α) (h : k' ≠ k) :
    upd f k v k' = f k' := by simp [upd, h]

/-- `select()`'s priority rule: `it` may be chosen iff nothing in `_current` has a higher priority. -/
def isTop (c : Cur) (it : Item) : Bool := c.all (fun p => decide (p.2.prio ≤ it.prio))

/-- `_update_converted`: accept every (key, info) whose info is not `==` to a remembered invalid
    one of that key (dataclass equality: the credential value and the priority; the other fields
    are constant here); each accepted one becomes a brand-new VaultItem. -/
def accept (inv : Key → List Item) : List (Key × Nat × Int) → Cur → Nat → Cur × Nat
  | [], c, n => (c, n)
  | (k, info, prio) :: rest, c, n =>
    if (inv k).any (fun j => j.info = info && j.prio = prio) then accept inv rest c n
    else accept inv rest (set k ⟨n, info, prio⟩ c) (n + 1)

/-- `Vault(src)`: everything is accepted (no history yet); `_ready = not is_empty()`. -/
def init (src : List (Key × Nat × Int)) : St :=
  let (c, n) := accept (fun _ => []) src [] 0
  { cur := c, inv := fun _ => [], ready := !c.isEmpty, nextId := n, reqs := fun _ => .idle,
    auth := .idle, invAll := fun _ => [], episodes := 0,
    flips := if c.isEmpty then 1 else 0, removed := [], emptyHits := if c.isEmpty then 1 else 0,
    emptyPops := 0, startedEmpty := c.isEmpty }

def setPc (s : St) (r : Nat) (pc : Pc) : St := { s with reqs := upd s.reqs r pc }

/-- `invalidate`, 1st segment, when `key in _current and _current[key].info is info` holds:
    `c` (the current item) is flushed, remembered (`[-2:] + [c]`) and deleted; if nothing is left:
    `_ready = False; notify_all(); await wait_for(lambda: _ready)` — which always blocks here. -/
def invalHit (s : St) (r : Nat) (k : Key) (it c : Item) : St :=
  if (erase k s.cur).isEmpty then
    { s with cur := erase k s.cur,
             inv := upd s.inv k (lastN 2 (s.inv k) ++ [c]),
             invAll := upd s.invAll k (s.invAll k ++ [c]),
             removed := c.id :: s.removed,
             ready := false,
             flips := if s.ready then s.flips + 1 else s.flips,
             reqs := upd s.reqs r (.invalWaiting k it) }
  else
    { s with cur := erase k s.cur,
             inv := upd s.inv k (lastN 2 (s.inv k) ++ [c]),
             invAll := upd s.invAll k (s.invAll k ++ [c]),
             removed := c.id :: s.removed,
             reqs := upd s.reqs r (.postYield k it) }

/-- `invalidate`, 1st segment, when the identity check fails (the credential was already replaced
    or removed by someone else): nothing is removed; the caller blocks only if nothing is left. -/
def invalMiss (s : St) (r : Nat) (k : Key) (it : Item) : St :=
  if s.cur.isEmpty then
    { s with ready := false,
             flips := if s.ready then s.flips + 1 else s.flips,
             emptyHits := if s.ready then s.emptyHits + 1 else s.emptyHits,
             reqs := upd s.reqs r (.invalWaiting k it) }
  else setPc s r (.postYield k it)

/-- is `it` (by identity) the current item of key `k`? -/
def isCurrent (c : Cur) (k : Key) (it : Item) : Bool :=
  match lookup k c with
  | some x => decide (x.id = it.id)
  | none => false

def populated (s : St) (src : List (Key × Nat × Int)) : St :=
  { s with cur := (accept s.inv src s.cur s.nextId).1, nextId := (accept s.inv src s.cur s.nextId).2,
           ready := true, auth := .idle,
           emptyPops := if (accept s.inv src s.cur s.nextId).1.isEmpty then s.emptyPops + 1 else s.emptyPops }

def step (s : St) : Label → Option St
  | .start r =>
    match s.reqs r with
    | .idle | .done _ => some (setPc s r .acquiring)
    | _ => none
  | .acquire r k =>
    match s.reqs r, s.ready, lookup k s.cur with
    | .acquiring, true, some it => if isTop s.cur it then some (setPc s r (.using k it)) else none
    | _, _, _ => none
  | .acquireFail r =>
    match s.reqs r, s.ready, s.cur with
    | .acquiring, true, [] => some (setPc s r (.done .loginError))
    | _, _, _ => none
  | .ok r =>
    match s.reqs r with
    | .using _ _ => some (setPc s r (.done .ok))
    | _ => none
  | .fail r =>
    match s.reqs r with
    | .using _ _ => some (setPc s r (.done .error))
    | _ => none
  | .unauth r =>
    match s.reqs r with
    | .using k it => some (setPc s r (.invalidating k it))
    | _ => none
  | .inval r =>
    match s.reqs r with
    | .invalidating k it =>
      match lookup k s.cur with
      | some c => if c.id = it.id then some (invalHit s r k it c) else some (invalMiss s r k it)
      | none => some (invalMiss s r k it)
    | _ => none
  | .invalWake r =>
    match s.reqs r, s.ready with
    | .invalWaiting k it, true =>
      -- `if not self._current: raise LoginError(...) from exc`
      if s.cur.isEmpty then some (setPc s r (.done .loginError))
      else some (setPc s r (.postYield k it))
    | _, _ => none
  | .post r =>
    match s.reqs r with
    | .postYield k it =>
      -- `yielded_key in _current and _current[yielded_key] is yielded_item` → break
      if isCurrent s.cur k it then some (setPc s r (.done .impossible))
      else some (setPc s r .acquiring)
    | _ => none
  | .authStart =>
    match s.auth, s.ready with
    | .idle, false => some { s with auth := .running, episodes := s.episodes + 1 }
    | _, _ => none
  | .populate src =>
    match s.auth with
    | .running => some (populated s src)
    | .idle => none

/-- `j == it` for two credentials as `Vault._update_converted` compares them (`info not in
    [invalid infos]`, dataclass equality): the same credential value AND the same priority. -/
def matches_ (j it : Item) : Prop := j.info = it.info ∧ j.prio = it.prio

def run (s : St) : List Label → Option St
  | [] => some s
  | l :: ls => match step s l with
    | some s' => run s' ls
    | none => none

/-- Reachability from a constructor call `Vault(src)` by any label list. -/
def Reach (s : St) : Prop := ∃ src ls, run (init src) ls = some s

end Kopf.C12.V
