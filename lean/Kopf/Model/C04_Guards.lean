/-
  C04 — statement-level vocabulary: the guards and descriptions that appear in the hypotheses and
  conclusions of the property theorems (`Props/C04.lean`). Definitions only; each says what it means
  in kopf terms. Proofs live in `Lemmas/`.
-/
import Kopf.Base.J
import Kopf.Base.Merge
import Kopf.Model.C04_Essence
namespace Kopf.C04
open Kopf Kopf.J

/-- the bindings of a JSON object (a parsed dict), in document order. -/
abbrev Kvs := List (String × J)

/-! ### handler fields (`extra_fields` of `build`: the `field=` of the registered handlers) -/

/-- no handler field starts with the top-level key `top` (e.g. no `@kopf.on.field('status…')`). -/
def ExtraAvoids (top : String) (extra : List (List String)) : Prop :=
  ∀ f, f ∈ extra → ∃ k ks, f = k :: ks ∧ k ≠ top

/-- handler fields reach into `metadata` only below keys whose value is the same in the old (`m`) and
    the new (`m'`) metadata mapping (e.g. `metadata.labels.x` while only `resourceVersion` changes). -/
def ExtraMetaOK (m m' : Kvs) (extra : List (List String)) : Prop :=
  ∀ f, f ∈ extra → (∃ k ks, f = k :: ks ∧ k ≠ "metadata") ∨
    (∃ k2 ks, f = "metadata" :: k2 :: ks ∧ lookup k2 m' = lookup k2 m)

/-- handler fields stay out of `metadata.annotations` and do not take `metadata` as a whole. -/
def ExtraAnnOK (extra : List (List String)) : Prop :=
  ∀ f, f ∈ extra → (∃ k ks, f = k :: ks ∧ k ≠ "metadata") ∨
    (∃ k2 ks, f = "metadata" :: k2 :: ks ∧ k2 ≠ "annotations")

/-! ### annotation names -/

/-- the part of an annotation name before the first `/` (`key.split('/', 1)[0]`), if there is a `/`. -/
def pfx (key : String) : Option (List Char) := (splitSlash key.toList).map (·.1)

/-- the prefix `p0` of the annotation `k0` is marked as a Kopf operator's independently of `k0`'s own
    presence: it is `kopf.zalando.org`/a sub-domain, or another annotation of `A` (e.g. the
    `<prefix>/kopf-managed` marker) marks it. -/
def Robust (A : Kvs) (k0 : String) (p0 : List Char) : Prop :=
  knownish p0 = true ∨ ∃ k1, k1 ≠ k0 ∧ k1 ∈ keys A ∧ markedPrefix? k1 = some p0

/-- in the annotations `B`, every key under the prefix `p0` is dropped by the marked-prefix rule:
    if there is any key under `p0`, then `p0` is among the marked prefixes of `B`. -/
def GroupDropped (p0 : List Char) (B : Kvs) : Prop :=
  ∀ k, k ∈ keys B → pfx k = some p0 → p0 ∈ markedPrefixes (keys B)

/-- the annotations `A'` and `A` are the same off the prefix `p0` (same keys, values, order). -/
def AgreeOffPrefix (p0 : List Char) (A' A : Kvs) : Prop :=
  A'.filter (fun kv => pfx kv.1 != some p0) = A.filter (fun kv => pfx kv.1 != some p0)

/-- the annotations `A'` and `A` are the same off the single key `k0` (`k0` set, changed or removed). -/
def AgreeOffKey (k0 : String) (A' A : Kvs) : Prop :=
  A'.filter (fun kv => kv.1 != k0) = A.filter (fun kv => kv.1 != k0)

/-- the body after a write that replaces the `metadata.annotations` mapping by `A'`
    (`kvs`: the body's bindings, `m`: its `metadata` mapping). -/
def withAnn (kvs m A' : Kvs) : Kvs := J.insert "metadata" (.obj (J.insert "annotations" (.obj A') m)) kvs

/-- the body after a write that replaces the `metadata.labels` mapping by `L'`. -/
def withLabels (kvs m L' : Kvs) : Kvs := J.insert "metadata" (.obj (J.insert "labels" (.obj L') m)) kvs

/-- `body.metadata.labels` (whatever JSON value it is), if `metadata` is a mapping that has it. -/
def bodyLabels (kvs : Kvs) : Option J :=
  match lookup "metadata" kvs with
  | some (.obj m) => lookup "labels" m
  | _ => none

/-- the `body.metadata.annotations` mapping, if present (and a mapping). -/
def bodyAnn (kvs : Kvs) : Option Kvs :=
  match lookup "metadata" kvs with
  | some (.obj m) =>
      (match lookup "annotations" m with
       | some (.obj a) => some a
       | _ => none)
  | _ => none

/-- the value of label `lk` of the body (labels being a mapping), `none` when absent. -/
def labelOf (kvs : Kvs) (lk : String) : Option J :=
  match bodyLabels kvs with
  | some (.obj lb) => lookup lk lb
  | _ => none

/-- the value of annotation `ak` of the body, `none` when absent. -/
def annOf (kvs : Kvs) (ak : String) : Option J :=
  match bodyAnn kvs with
  | some a => lookup ak a
  | none => none

/-- an *ordinary* annotation of an object with annotations `A`: not kubectl's last-applied one, and its
    prefix (if any) is not marked as a Kopf operator's by any annotation of the object. -/
def Ordinary (k : String) (A : Kvs) : Prop :=
  k ≠ lastApplied ∧ ∀ p, pfx k = some p → p ∉ markedPrefixes (keys A)

/-! ### storage configuration -/

/-- `k` is a payload key: not one of the four stanzas `build` removes first. -/
def PayloadKey (k : String) : Prop := k ≠ "apiVersion" ∧ k ≠ "kind" ∧ k ≠ "metadata" ∧ k ≠ "status"

/-- no field of the list starts with the top-level key `k`. -/
def AvoidKey (k : String) (fs : List (List String)) : Prop := ∀ f, f ∈ fs → ∃ h, f.head? = some h ∧ h ≠ k

/-- the fields a diff-base storage removes from the essence: `ignored_fields`, and the own field of
    a `StatusDiffBaseStorage`. -/
def leafFields : DiffBaseLeaf → List (List String)
  | .annotations _ _ _ ig => ig
  | .status f ig => f :: ig

def diffbaseFields : DiffBaseCfg → List (List String)
  | .leaf l => leafFields l
  | .multi ls => ls.flatMap leafFields

/-- the fields the (NoWrite)StatusProgressStorages remove in `clear`. -/
def progressFields : ProgressCfg → List (List String)
  | [] => []
  | .annotations _ :: ls => progressFields ls
  | .status f t :: ls => f :: t :: progressFields ls

/-- the annotation prefixes of the configured storages (diff-base and progress). -/
def leafPrefixes : DiffBaseLeaf → List String
  | .annotations p _ _ _ => [p]
  | .status _ _ => []

def diffbasePrefixes : DiffBaseCfg → List String
  | .leaf l => leafPrefixes l
  | .multi ls => ls.flatMap leafPrefixes

def progressPrefixes : ProgressCfg → List String
  | [] => []
  | .annotations p :: ls => p :: progressPrefixes ls
  | .status _ _ :: ls => progressPrefixes ls

/-- the leaf storages of a diff-base configuration. -/
def diffbaseLeaves : DiffBaseCfg → List DiffBaseLeaf
  | .leaf l => [l]
  | .multi ls => ls

/-- `k0` is one of the operator's own annotation names for the object `body`: an exact key of one of
    the configured `AnnotationsDiffBaseStorage`s (as `make_keys(key, body=body)` forms it, `-ofDRS`
    mark included), or a name under the prefix of a configured `AnnotationsProgressStorage`
    (handler records, touch-dummy). -/
def OwnKeyOf (cfg : Cfg) (body : J) (k0 : String) : Prop :=
  (∃ p key v1 ig mk ks, DiffBaseLeaf.annotations p key v1 ig ∈ diffbaseLeaves cfg.diffbase ∧
      markKey body key.toList = .ok mk ∧ makeKeys cfg.hashes v1 p.toList mk = .ok ks ∧ k0 ∈ ks) ∨
  (∃ q, q ∈ progressPrefixes cfg.progress ∧ underPrefix q.toList k0 = true)

/-- the annotation `k` is not under any prefix the operator's own storages use. -/
def NotOwn (cfg : Cfg) (k : String) : Prop :=
  ∀ p, p ∈ diffbasePrefixes cfg.diffbase ++ progressPrefixes cfg.progress → underPrefix p.toList k = false

/-- the storage configuration and the handler fields leave the `metadata` stanza to `build`'s own
    rules: no ignored/storage field and no handler field starts with `metadata`. -/
def MetaPlain (cfg : Cfg) (extra : List (List String)) : Prop :=
  AvoidKey "metadata" (diffbaseFields cfg.diffbase) ∧ AvoidKey "metadata" (progressFields cfg.progress) ∧
    ExtraAvoids "metadata" extra

/-! ### locations of the essence (for the "what every nested storage cleans" theorems) -/

/-- the path resolves through mappings down to some value (`dicts.resolve` without default succeeds). -/
def Present (e : J) (p : List String) : Prop := ∃ v, resolveE e p = .ok v

/-- the location `p` is not in `e`: nothing can be read at it, so nothing written there by anybody can
    show up in a diff of two such essences. -/
def Absent (e : J) (p : List String) : Prop := ¬ Present e p

/-- a location the pseudo-body of `MultiDiffBaseStorage.build` cannot bring back: not `kind…`, not
    `metadata` as a whole, not `metadata.ownerReferences…` (true of every status field under `status`
    or the payload, of every annotation key, of every ordinary `ignored_fields` entry). -/
def PseudoApart (p : List String) : Prop :=
  p.head? ≠ some "kind" ∧ p ≠ ["metadata"] ∧ ¬ (["metadata", "ownerReferences"] <+: p)

/-- the `ignored_fields` of a (nested) diff-base storage. -/
def leafIgnored : DiffBaseLeaf → List (List String)
  | .annotations _ _ _ ig => ig
  | .status _ ig => ig

end Kopf.C04
