/-
  X01 — the TWO-REQUEST turn (additive: `work` is untouched; `work2` is the iteration in which a turn whose merge-patch AND
  JSON-patch both change the server makes TWO versions). In C03's loop the only such turn is the release whose closing pass changed
  records / last-handled state (`releaseTurn` with `changedOf`: `writes + 2`): merge-patch (records purged, last-handled written;
  the finalizer still there) = version `rv+1`, its MODIFIED echo is queued; JSON-patch (finalizer removed) = version `rv+2`: the
  object is gone and its DELETED event is queued (C03's `pending := foreignFins` hides that event; here it is in flight and is
  handled by C03's `gone` turn), or — a foreign finalizer holding the object — the MODIFIED echo of `rv+2`. The worker is handed the
  LAST version (`rv+2`, `never` on a release that let the object go) and arms on it; the intermediate echo `rv+1`, dequeued while
  `rv+2` is awaited, is an ordinary held-back iteration (`heldIdle` when the final event is already there). Core Lean only.
-/
import Kopf.Model.X01_Reactor
namespace Kopf.X01
open Kopf

variable {E : Type} [DecidableEq E]

/-- this turn sends two requests that both change the server: a release whose merge half changes something -/
def twoReq (env : C03.Env) (k : Turn E) : Bool :=
  k.wrote && !k.noop && (k.sv'.gone && !k.sv.gone || (k.sv.blocked && !k.sv'.blocked && k.sv.marked)) &&
    C03.changedOf env { k.sv with now := k.o.left }

/-- the server's object after the merge half only: records and last-handled written, finalizer and existence as before -/
def midObj (r : RState E) (k : Turn E) : Obj E := { k.srv' with blocked := r.srv.blocked, gone := r.srv.gone }

/-- the events this iteration puts in flight, in order -/
def echoes (env : C03.Env) (r : RState E) (k : Turn E) (at_ : Int) : List (Ev E) :=
  if twoReq env k then
    [{ ver := r.rv + 1, snap := midObj r k, at_ := at_, own := true },
     { ver := r.rv + 2, snap := k.srv', at_ := at_, own := true }]          -- the echo of the JSON-patch, or the DELETED event
  else if k.echo then [{ ver := r.rv + 1, snap := k.srv', at_ := at_, own := true }] else []

/-- the version the server holds after this iteration's writes -/
def lastVer (env : C03.Env) (r : RState E) (k : Turn E) : Nat :=
  if k.wrote then (if twoReq env k then r.rv + 2 else r.rv + 1) else r.rv

def patchedOf2 (env : C03.Env) (r : RState E) (k : Turn E) : Option C07.Ver :=
  if k.wrote then some ⟨lastVer env r k, k.released⟩ else if k.noop then some ⟨r.rv, false⟩ else none

/-- One worker iteration with the two-request turn. -/
def work2 (T : Int) (env : C03.Env) (d : Nat) (r : RState E) : RState E :=
  match r.queue with
  | [] => r
  | ev :: rest =>
    let k := turn env r ev rest
    let lastAt := match rest.getLast? with | some l => l.at_ | none => k.tret
    let echoAt := if k.tret + (d : Int) < lastAt then lastAt else k.tret + d
    { srv := k.srv', rv := lastVer env r k,
      queue := rest ++ echoes env r k echoAt,
      noticed := k.sv'.noticed, fullyHandled := k.sv'.fullyHandled, resumed := k.sv'.resumed,
      w := (C07.stepEvent T r.w (iterOf k.it (patchedOf2 env r k) k.tret)).1,
      carried := .none,
      clock := k.tret, writes := k.sv'.writes,
      owns := if k.wrote then (lastVer env r k, k.tret) :: r.owns else r.owns,
      seen := if r.seen < ev.ver then ev.ver else r.seen,
      ran := match k.o.handlers with
        | some t => { ver := ev.ver, t := t, owns := r.owns } :: r.ran
        | none => r.ran }

def act2 (T idle : Int) (env : C03.Env) (r : RState E) : Act E → RState E
  | .work d => work2 T env d r
  | a => act T idle env r a

def runActs2 (T idle : Int) (env : C03.Env) (r : RState E) (acts : List (Act E)) : RState E :=
  acts.foldl (act2 T idle env) r

end Kopf.X01
