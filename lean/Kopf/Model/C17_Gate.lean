/-
  C17 model, part 2 — the start-up gate: the `operator_indexed` `ToggleSet(all)` of
  `orchestration.Ensemble`, as `orchestration.spawn_missing_watchers`, `queueing.watcher`,
  `queueing.worker` and `processing.process_resource_event` use it. Core Lean only.

  All toggles of this set are created "off" (`make_toggle(name=…)`, default `False`) and nobody
  ever turns one on, so `ToggleSet(all).is_on()` ⇔ the set is empty. The state therefore keeps
  *which* toggles are in the set.

  Labels are the code's atomic segments (between awaits), in program order per task:

  * orchestrator  `spawnBegin kinds` — `operator_blocked = await make_toggle("orchestration blocker")`
                  `spawn r`          — `[resource_indexed = await make_toggle(name=what)]`, watcher task created
                  `spawnEnd`         — `await drop_toggle(operator_blocked)`
  * watcher r     `die r`            — the watcher task of r ends (exception / cancellation), its scheduler
                                       closes its workers; nobody drops their toggles any more
                  `check r o on`     — first event of object `o` without a stream, watcher still gating:
                                       `if operator_indexed.is_on(): operator_indexed = None`
                                       (`on` = what `is_on()` returned; the following
                                       `await make_toggle` may suspend, so this is its own label)
                  `arrive r o …`     — `[await make_toggle(name=key)]` done, worker spawned
                  `listed r`         — `Bookmark.LISTED`: `[await drop_toggle(resource_indexed)]`
  * worker (r,o)  `index`            — `await indexing.index_resource(...)` returned
                  `indexFail`        — the cycle ended without `index_resource` returning: it (or a filter
                                       before it) raised and the throttler swallowed it, or the cycle was
                                       skipped by the throttler, or the worker was cancelled inside it.
                                       Since kopf 58a504d the per-object toggle is dropped all the same
                                       (`finally:` / the throttled branch): the attempt counts, the object
                                       is simply absent from the indices, as after a failed index function
                  `drop`             — `[await drop_toggle(resource_indexed)]`, enters `wait_for(True)`
                  `pass`             — `await operator_indexed.wait_for(True)` returned
                  `skip`             — the worker was started with `operator_indexed=None`: no wait
                  `handle`           — `process_resource_causes` begins (handlers, daemons, timers)
                  `finish`, `again`, `exit` — end of the cycle, next event of the same worker, idle exit

  `spawn_missing_watchers` may run any number of times (`spawnBegin` whenever no batch is in
  progress), also with nothing to spawn: the real start-up of a namespaced operator begins with
  an EMPTY batch (no namespaces known yet), the kinds come with the second one. A "kind" of this
  model is one watcher: a (resource, namespace) pair. The property's "every indexed resource
  kind … once" is about the START-UP kinds: those of the batches begun before anybody has seen the set on
  (`first`, `Ready1`) — kinds discovered after that do not close the gate again for watchers that
  have seen it open (by design: "NOT when the readiness is already achieved once"; finding C17-F4).
  `Ready` is the stronger momentary fact about every kind spawned so far; it holds whenever a
  waiter passes. A watcher task may end (`die r`: its LIST answered 404, it was cancelled because
  its namespace vanished, …): its workers are closed with it, every toggle they still hold stays in
  the set for good (`leaked`, `leakedK`); the kind may be spawned again by a later batch.

  `Bug` selects deliberately broken variants, used only for non-vacuity witnesses.
-/
import Kopf.Model.C17_Index
namespace Kopf.C17.Gate
open Kopf.C17

inductive Pc where
  | queued | indexed | waiting | passed | handling | idle
  deriving DecidableEq, Repr

structure Worker where
  pc : Pc
  gated : Bool       -- `operator_indexed is not None` as given to the worker
  hasToggle : Bool   -- `resource_indexed is not None` as given to the worker (the per-object toggle)
  deriving DecidableEq, Repr

inductive Bug where
  | none
  | noBlocker          -- `spawn_missing_watchers` without the "orchestration blocker"
  | noKindToggle       -- the per-kind toggle is not held until LISTED (never put into the set)
  | dropBeforeIndex    -- the per-object toggle is dropped before `index_resource`
  deriving DecidableEq, Repr

structure GState (R O : Type) where
  started : Bool                  -- the batch has begun (once)
  spawning : Bool                 -- inside `spawn_missing_watchers`
  blocker : Bool                  -- the blocker toggle is in the set
  pending : List (R × Bool)       -- kinds still to be spawned: (kind, is it indexed?)
  spawned : List (R × Bool)       -- watchers created: kind ↦ has a per-kind toggle
  resTog : List R                 -- per-kind toggles in the set
  objTog : List (R × O)           -- per-object toggles in the set
  listed : List R                 -- kinds whose LISTED has been consumed at least once
  detached : List R               -- watchers with `operator_indexed = None`
  checked : List (R × O)          -- watcher r saw `is_on() == False` for object o and is about to add its toggle
  workers : R × O → Option Worker
  -- history variables (for the property only; no guard reads them)
  listing : List (R × O)          -- objects of indexed kinds that arrived before the kind's LISTED
  indexedOnce : List (R × O)      -- objects whose indexing was attempted at least once (`index_resource` returned or failed)
  everOn : Bool                   -- somebody has observed the set to be on
  handled : Bool                  -- some worker has reached the handlers
  first : List R                  -- start-up kinds: indexed kinds of the batches begun before anybody saw the set on
  wlist : List (R × O)            -- every object that ever got a worker (to enumerate `workers`)
  leaked : List (R × O)           -- per-object toggles still in the set whose worker has exited: nobody can drop them
  leakedK : List R                -- per-kind toggles still in the set whose watcher has ended

def GState.init {R O : Type} : GState R O :=
  { started := false, spawning := false, blocker := false, pending := [], spawned := [],
    resTog := [], objTog := [], listed := [], detached := [], checked := [], workers := fun _ => none,
    listing := [], indexedOnce := [], everOn := false, handled := false,
    first := [], wlist := [], leaked := [], leakedK := [] }

inductive Label (R O : Type) where
  | spawnBegin (kinds : List (R × Bool))
  | spawn (r : R)
  | spawnEnd
  | die (r : R)
  | check (r : R) (o : O) (on : Bool)                 -- `on` as observed
  | arrive (r : R) (o : O) (gated hasToggle : Bool)   -- flags as observed on the started worker
  | listed (r : R)
  | index (r : R) (o : O)
  | indexFail (r : R) (o : O)
  | drop (r : R) (o : O)
  | pass (r : R) (o : O)
  | skip (r : R) (o : O)
  | handle (r : R) (o : O)
  | finish (r : R) (o : O)
  | again (r : R) (o : O)
  | exit (r : R) (o : O)
  deriving Repr

section
variable {R O : Type} [DecidableEq R] [DecidableEq O]

/-- `ToggleSet(all).is_on()` -/
def GState.isOn (s : GState R O) : Bool :=
  !s.blocker && s.resTog.isEmpty && s.objTog.isEmpty && s.leaked.isEmpty && s.leakedK.isEmpty

def setPc (s : GState R O) (ro : R × O) (w : Worker) (pc : Pc) : GState R O :=
  { s with workers := upd s.workers ro (some { w with pc := pc }) }

/-- `streams[key]` is absent: no worker yet, or the previous one has finished (idle exit) -/
def free (s : GState R O) (ro : R × O) : Bool :=
  match s.workers ro with
  | none => true
  | some w => decide (w.pc = .idle)

/-- the (exited or exiting) worker of `ro` still has its per-object toggle in the set -/
def holds (s : GState R O) (ro : R × O) : Bool :=
  match s.workers ro with
  | some w => w.hasToggle && decide (ro ∈ s.objTog)
  | none => false

def step (bug : Bug) (s : GState R O) : Label R O → Option (GState R O)
  | .spawnBegin kinds =>
    -- only kinds without a watcher task are spawned (`if dkey not in ensemble.watcher_tasks`)
    if !s.spawning && decide ((kinds.map Prod.fst).Nodup) &&
        kinds.all (fun p => (aget p.1 s.spawned).isNone) then
      some { s with started := true, spawning := true,
                    blocker := (bug != .noBlocker), pending := kinds,
                    -- the kinds of a batch begun before anybody saw the set on are start-up kinds
                    first := if s.everOn then s.first
                             else s.first ++ (kinds.filter (·.2)).map Prod.fst }
    else none
  | .spawn r =>
    match s.pending with
    | [] => none
    | (r', ind) :: rest =>
      if s.spawning && decide (r' = r) && (aget r s.spawned).isNone then
        some { s with pending := rest, spawned := s.spawned ++ [(r, ind)],
                      resTog := if ind && (bug != .noKindToggle) then sadd r s.resTog else s.resTog }
      else none
  | .spawnEnd =>
    if s.spawning && s.pending.isEmpty then
      some { s with spawning := false, blocker := false }
    else none
  | .die r =>
    match aget r s.spawned with
    | some ind =>
      some { s with spawned := adel r s.spawned,
                    resTog := sdel r s.resTog,
                    leakedK := if ind && decide (r ∈ s.resTog) then r :: s.leakedK else s.leakedK,
                    detached := sdel r s.detached,
                    checked := s.checked.filter (fun ro => !decide (ro.1 = r)),
                    objTog := s.objTog.filter (fun ro => !decide (ro.1 = r)),
                    leaked := s.objTog.filter (fun ro => decide (ro.1 = r)) ++ s.leaked,
                    workers := fun ro => if ro.1 = r then none else s.workers ro }
    | none => none
  | .check r o on =>
    match aget r s.spawned with
    | some _ =>
      if free s (r, o) = true ∧ on = s.isOn ∧ r ∉ s.detached ∧ r ∉ s.checked.map Prod.fst then
        if on then some { s with detached := sadd r s.detached, everOn := true }
        else some { s with checked := sadd (r, o) s.checked }
      else none
    | none => none
  | .arrive r o gated hasToggle =>
    match aget r s.spawned with
    | some ind =>
      if free s (r, o) then
        let det := decide (r ∈ s.detached)
        let t := !det && ind
        if gated = (!det) ∧ hasToggle = t ∧ (det = true ∨ (r, o) ∈ s.checked) then
          -- a previous worker of this object has exited (unobserved); a toggle it still held is lost
          let base := if holds s (r, o) then sdel (r, o) s.objTog else s.objTog
          some { s with checked := sdel (r, o) s.checked,
                        leaked := if holds s (r, o) then (r, o) :: s.leaked else s.leaked,
                        objTog := if t then sadd (r, o) base else base,
                        workers := upd s.workers (r, o) (some ⟨.queued, !det, t⟩),
                        wlist := sadd (r, o) s.wlist,
                        listing := if ind && !decide (r ∈ s.listed) then sadd (r, o) s.listing else s.listing }
        else none
      else none
    | none => none
  | .listed r =>
    match aget r s.spawned with
    | some ind =>
      -- one watcher coroutine: LISTED is not consumed between its `is_on()` test and the toggle
      if r ∈ s.checked.map Prod.fst then none
      else
        some { s with listed := sadd r s.listed,
                      resTog := if ind && !decide (r ∈ s.detached) then sdel r s.resTog else s.resTog }
    | none => none
  | .index r o =>
    match s.workers (r, o) with
    | some w =>
      if w.pc = .queued then
        some { setPc s (r, o) w .indexed with indexedOnce := sadd (r, o) s.indexedOnce }
      else none
    | none => none
  | .indexFail r o =>
    match s.workers (r, o) with
    | some w =>
      if w.pc = .queued then
        some { setPc s (r, o) w .idle with
                 objTog := if w.hasToggle then sdel (r, o) s.objTog else s.objTog,
                 indexedOnce := sadd (r, o) s.indexedOnce }
      else none
    | none => none
  | .drop r o =>
    match s.workers (r, o) with
    | some w =>
      if (w.pc = .indexed ∨ (bug = .dropBeforeIndex ∧ w.pc = .queued)) ∧ w.gated = true then
        some { setPc s (r, o) w .waiting with
                 objTog := if w.hasToggle then sdel (r, o) s.objTog else s.objTog }
      else none
    | none => none
  | .pass r o =>
    match s.workers (r, o) with
    | some w =>
      if w.pc = .waiting ∧ s.isOn = true then some { setPc s (r, o) w .passed with everOn := true }
      else none
    | none => none
  | .skip r o =>
    match s.workers (r, o) with
    | some w => if w.pc = .indexed ∧ w.gated = false then some (setPc s (r, o) w .passed) else none
    | none => none
  | .handle r o =>
    match s.workers (r, o) with
    | some w => if w.pc = .passed then some { setPc s (r, o) w .handling with handled := true } else none
    | none => none
  | .finish r o =>
    match s.workers (r, o) with
    | some w => if w.pc = .handling then some (setPc s (r, o) w .idle) else none
    | none => none
  | .again r o =>
    match s.workers (r, o) with
    | some w =>
      -- the worker is alive (its stream exists): the watcher made no `is_on()` test for this object
      if w.pc = .idle ∧ (r, o) ∉ s.checked then some (setPc s (r, o) w .queued) else none
    | none => none
  | .exit r o =>
    match s.workers (r, o) with
    | some w =>
      if w.pc = .idle then
        some { s with workers := upd s.workers (r, o) none,
                      objTog := if holds s (r, o) then sdel (r, o) s.objTog else s.objTog,
                      leaked := if holds s (r, o) then (r, o) :: s.leaked else s.leaked }
      else none
    | none => none

def run (bug : Bug) : GState R O → List (Label R O) → Option (GState R O)
  | s, [] => some s
  | s, l :: ls =>
    match step bug s l with
    | some s' => run bug s' ls
    | none => none

/-- reachable by some label list from the initial state (faithful variant) -/
def Reach (s : GState R O) : Prop := ∃ ls, run .none GState.init ls = some s

/-- The property's right-hand side: the batch is complete, every indexed kind has delivered
    LISTED, and every object of the initial listings has been through `index_resource`. -/
def Ready (s : GState R O) : Prop :=
  s.blocker = false ∧ s.spawning = false ∧ s.pending = [] ∧
  (∀ r, aget r s.spawned = some true → r ∈ s.listed) ∧
  (∀ ro, ro ∈ s.listing → ro ∈ s.indexedOnce)

/-- The property's right-hand side proper: every START-UP kind (indexed, of a batch begun before anybody saw
    the set on — in the real start-ups: every kind of the first non-empty batch) has delivered
    LISTED, and every object of those initial listings has been through `index_resource`.
    Stable: once true it stays true, also when later batches re-close the gate. -/
def Ready1 (s : GState R O) : Prop :=
  (∀ r, r ∈ s.first → r ∈ s.listed) ∧
  (∀ ro, ro ∈ s.listing → ro.1 ∈ s.first → ro ∈ s.indexedOnce)

def ready1B (s : GState R O) : Bool :=
  s.first.all (fun r => decide (r ∈ s.listed)) &&
  s.listing.all (fun ro => !decide (ro.1 ∈ s.first) || decide (ro ∈ s.indexedOnce))

/-- No toggle is stranded: no per-object toggle outlived its worker, no per-kind toggle its watcher. -/
def Healthy (s : GState R O) : Prop := s.leaked = [] ∧ s.leakedK = []

/-- decidable form of `Healthy` (for examples) -/
def healthyB (s : GState R O) : Bool := s.leaked.isEmpty && s.leakedK.isEmpty

/-- the gate is open and every worker is past it -/
def Open (s : GState R O) : Prop :=
  s.isOn = true ∧ s.checked = [] ∧
  ∀ ro w, s.workers ro = some w → w.pc ≠ .queued ∧ w.pc ≠ .indexed ∧ w.pc ≠ .waiting

/-- decidable form of `Ready` for the witnesses and the driver -/
def readyB (s : GState R O) : Bool :=
  !s.blocker && !s.spawning && s.pending.isEmpty &&
  s.spawned.all (fun p => !p.2 || decide (p.1 ∈ s.listed)) &&
  s.listing.all (fun ro => decide (ro ∈ s.indexedOnce))

end
end Kopf.C17.Gate
