/-
  C13 — the pinger's keep-alive PATCH as a request IN FLIGHT (seed C13f's mechanism).

  In `C13_Peering.step` a regular keep-alive is one atomic label (`keepalive i lag`: sent `lag` ticks ago, lands now): nothing
  can happen to its operator between sending and landing. The code has a window there: `keepalive()` awaits `touch()`, and a
  graceful stop cancels that very await; only then does the `finally` send the withdrawal. Whether the request in flight can
  still land afterwards is the whole question of "removes it on graceful exit".

  This layer adds exactly that window on top of `step` (the base labels and all their theorems stay what they are):
    * `kaIssue i`  — the pinger of a running operator `i` sends its regular keep-alive (stamped now); one at a time;
    * `kaLand i`   — the API applies the request in flight of `i` now (whatever has happened to `i` meanwhile);
    * `base l`     — a label of `step`. What the code does (`kstep`): the stop of the pinger — `exitEnd i`, the one-step `exit i`,
                     and the pinger's own end `keepaliveFail i _` — CANCELS the request the pinger is awaiting before the
                     withdrawal is sent: a cancelled request is not applied (ASSUMPTIONS of c13.py), the window is closed.
                     A `kill i` takes nothing back (the request is on the wire).
  NAMED VARIANT (seeded change C13f, NOT what the code does): `kstepShield` — the regular `touch()` is wrapped in
  `asyncio.shield`: the stop ends the pinger's await, not the request; the request stays in flight through `exitEnd`/`exit`
  and may land after the withdrawal (`shielded_keepalive_returns_witness`).
  Core Lean only.
-/
import Kopf.Model.C13_Peering
namespace Kopf.C13

inductive KLabel where
  | base (l : Label)
  | kaIssue (i : Identity)
  | kaLand (i : Identity)
  deriving Repr

structure KState where
  s : State
  flight : Identity → Option Int     -- the stamp of the regular keep-alive of that operator that is on its way to the API

def kinit : KState := { s := init, flight := fun _ => none }

def setFlight (f : Identity → Option Int) (i : Identity) (v : Option Int) : Identity → Option Int :=
  fun k => if k = i then v else f k

/-- whose pinger a base label stops (its awaited request is cancelled with it) -/
def stopsPinger : Label → Option Identity
  | .exit i => some i
  | .exitEnd i => some i
  | .keepaliveFail i _ => some i
  | _ => none

def kaIssueStep (ks : KState) (i : Identity) : Option KState :=
  match ks.s.ops i with
  | some o => if o.alive && (ks.flight i).isNone then some { ks with flight := setFlight ks.flight i (some ks.s.now) } else none
  | none => none

def kaLandStep (u : Int) (ks : KState) (i : Identity) : Option KState :=
  match ks.s.ops i, ks.flight i with
  | some o, some t =>
    some { s := { ks.s with ver := ks.s.ver + 1, status := ks.s.status.patch i (touchVal u o.prio o.lifetime t) },
           flight := setFlight ks.flight i none }
  | _, _ => none

/-- what the code does -/
def kstep (u : Int) (ks : KState) : KLabel → Option KState
  | .base l =>
    match step u ks.s l with
    | some s' => some { s := s', flight := match stopsPinger l with
                                           | some i => setFlight ks.flight i none      -- cancelled with the pinger: never applied
                                           | none => ks.flight }
    | none => none
  | .kaIssue i => kaIssueStep ks i
  | .kaLand i => kaLandStep u ks i

def krun (u : Int) : KState → List KLabel → Option KState
  | ks, [] => some ks
  | ks, l :: ls => match kstep u ks l with | some ks' => krun u ks' ls | none => none

/-- NAMED VARIANT (seed C13f): the request survives the stop of the pinger. Everything else as in `kstep`. -/
def kstepShield (u : Int) (ks : KState) : KLabel → Option KState
  | .base l =>
    match step u ks.s l with
    | some s' => some { s := s', flight := ks.flight }
    | none => none
  | .kaIssue i => kaIssueStep ks i
  | .kaLand i => kaLandStep u ks i

def krunShield (u : Int) : KState → List KLabel → Option KState
  | ks, [] => some ks
  | ks, l :: ls => match kstepShield u ks l with | some ks' => krunShield u ks' ls | none => none

end Kopf.C13
