/-
  C20 — the RELEASE of a dimension of the orchestrator's ensemble, and what the orchestrator's exit knows of it.

  `Kopf.Model.C20_Lifecycle` lets the orchestrator's exit (`rootStopping orchestrator`) stop EVERY `sub i` that is alive: it takes
  for granted that whatever is alive of the ensemble is still in the `Ensemble`'s dictionaries when the cancellation arrives.
  This file models the mechanism that is to establish it (kopf/_core/reactor/orchestration.py):

      terminate_redundancies():   redundant_tasks = ensemble.get_tasks(redundant_keys)
                                  await aiotasks.stop(redundant_tasks, …)        # cancels them, WAITS for them (depletion, farewell)
                                  await ensemble.operator_paused.drop_toggles(…)
                                  ensemble.del_keys(redundant_keys)              # … only then forgotten
      orchestrator(), except CancelledError:
                                  keys = ensemble.get_keys(); stop (and wait for) `ensemble.get_tasks(keys)`

  The only step that takes time is the wait inside `stop`; a cancellation of the orchestrator (stop flag, failed stream, …) can
  arrive there (`interrupted`). Keys are `Nat`s; `alive` = keys whose tasks have not ended, `known` = keys in the dictionaries.
  `stopFirst := true` is the code (tie T: `Kopf.C20.Tie.release_stops_before_forgetting_eq`); `stopFirst := false` forgets the keys
  (and drops the toggles) before it waits — the seeded change C20h.
-/
namespace Kopf.C20.Release

abbrev Key := Nat

structure St where
  known : List Key          -- the keys of the Ensemble's dictionaries
  alive : List Key          -- GHOST: the keys whose tasks have not ended yet (cancelled or not)
deriving Repr, DecidableEq

inductive Step | stop | forget
deriving Repr, DecidableEq

def without (l red : List Key) : List Key := l.filter (fun k => !red.contains k)

/-- the steps of one `terminate_redundancies`, in order; `interrupted`: the orchestrator is cancelled while it waits in `stop`
    (the tasks are cancelled but have not ended: `alive` unchanged; the rest of the function does not run). Returns the state and
    whether the function ran to its end. -/
def release (red : List Key) (interrupted : Bool) : List Step → St → St × Bool
  | [], s => (s, true)
  | .stop :: rest, s => if interrupted then (s, false) else release red interrupted rest { s with alive := without s.alive red }
  | .forget :: rest, s => release red interrupted rest { s with known := without s.known red }

def order (stopFirst : Bool) : List Step := if stopFirst then [.stop, .forget] else [.forget, .stop]

/-- the orchestrator's exit after a cancellation: it stops, and waits for, the tasks of the keys it KNOWS; what is alive and not
    known is left behind (to run on through the cleanup activity, until the hung-task stop) -/
def leftBehind (s : St) : List Key := without s.alive s.known

/-- a sequence of adjustments (each with its redundant keys and newly served keys), the LAST of which may be interrupted -/
def adjust (stopFirst : Bool) (s : St) (red add : List Key) (interrupted : Bool) : St × Bool :=
  let r := release red interrupted (order stopFirst) s
  if r.2 then ({ known := r.1.known ++ add.filter (fun k => !r.1.known.contains k),
                 alive := r.1.alive ++ add.filter (fun k => !r.1.known.contains k) }, true)
  else r

def run (stopFirst : Bool) : St → List (List Key × List Key) → Bool → St
  | s, [], _ => s
  | s, [(d, a)], i => (adjust stopFirst s d a i).1
  | s, (d, a) :: rest, i => run stopFirst (adjust stopFirst s d a false).1 rest i

def init : St := { known := [], alive := [] }

/-- the order of the current tree (tie T) -/
def headStopsBeforeForgetting : Bool := true

end Kopf.C20.Release
