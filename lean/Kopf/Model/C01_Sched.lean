/-
  C01 model, part 2 — the hand-over INSIDE `kopf/_cogs/aiokits/aiotasks.py::Scheduler` that the LTS of
  `C01_Queueing.lean` takes as one atomic `insert`: `spawn()` puts the coroutine into `_pending_coros`
  *inside* `async with self._condition`, the spawner (`_task_spawner`) and the cleaner (`_task_cleaner`)
  need the same lock to start pending coroutines / to announce a freed slot.

      async def spawn(coro):                        async def _task_spawner():
          async with self._condition:                   while True:
              await self._pending_coros.put(job)            async with self._condition:
              self._condition.notify_all()                      await self._condition.wait_for(self._can_spawn)
          await asyncio.sleep(0)                                while self._can_spawn(): get_nowait(); create_task; add
      def _task_done_callback(task):                async def _task_cleaner():
          self._running_tasks.discard(task)             task = await self._cleaning_queue.get(); await task
          self._cleaning_queue.put_nowait(task)         async with self._condition: discard(task); notify_all()

  The ONLY await inside a locked section that can suspend is `_pending_coros.put()`; it suspends iff the queue
  is bounded and full. `cap` is the bound of the queue AS `Scheduler.__init__` BUILDS IT (`none` = `asyncio.Queue()`,
  maxsize 0 = unbounded — the code as it is). Whoever is suspended there holds the lock (`blocked = some j`).

  Labels = atomic segments:
    `call j`  — the watcher calls `spawn(job j)`: takes the lock; with a place in the queue: put, notify, release (one
                segment); without: suspends inside `put()` HOLDING the lock
    `round`   — the notified spawner re-takes the lock and starts pending jobs while `_can_spawn()`
    `done j`  — a running task ends: done-callback (synchronous, no lock): leaves `_running_tasks`, into `_cleaning_queue`
    `clean`   — the cleaner takes the lock and notifies (-> spawner, close())
    `resume`  — the suspended `put()` gets a place: put, notify, release
  Core Lean only.
-/
namespace Kopf.C01.Sched

structure S where
  cap : Option Nat        -- bound of `_pending_coros` as built by `Scheduler.__init__`; none = unbounded
  limit : Option Nat      -- `Scheduler._limit` (`settings.queueing.worker_limit`)
  pending : List Nat      -- `_pending_coros` (job ids, FIFO)
  running : List Nat      -- `_running_tasks`
  cleaning : List Nat     -- `_cleaning_queue`
  notified : Bool         -- the spawner was notified since its last round
  blocked : Option Nat    -- the job whose `spawn()` is suspended in `put()`: it HOLDS `_condition`'s lock
  accepted : List Nat     -- history: jobs whose `put()` has completed, in order

def init (cap limit : Option Nat) : S :=
  { cap := cap, limit := limit, pending := [], running := [], cleaning := [], notified := false,
    blocked := none, accepted := [] }

inductive L where
  | call (j : Nat)
  | round
  | done (j : Nat)
  | clean
  | resume
  deriving DecidableEq, Repr

/-- `self._limit is None or len(self._running_tasks) < self._limit` -/
def room (limit : Option Nat) (running : List Nat) : Bool :=
  match limit with
  | none => true
  | some n => running.length < n

/-- `not self._pending_coros.full()` -/
def hasPlace (s : S) : Bool :=
  match s.cap with
  | none => true
  | some c => s.pending.length < c

/-- `while self._can_spawn(): …` — (pending, running) after the spawner's round -/
def drain (limit : Option Nat) : List Nat → List Nat → List Nat × List Nat
  | [], run => ([], run)
  | j :: rest, run => if room limit run then drain limit rest (run ++ [j]) else (j :: rest, run)

/-- `_can_spawn()` -/
def canSpawn (s : S) : Bool := !s.pending.isEmpty && room s.limit s.running

def step (s : S) : L → Option S
  | .call j =>
    if s.blocked = none then
      if hasPlace s then
        some { s with pending := s.pending ++ [j], notified := true, accepted := s.accepted ++ [j] }
      else some { s with blocked := some j }
    else none
  | .round =>
    if s.notified = true ∧ s.blocked = none then
      some { s with pending := (drain s.limit s.pending s.running).1,
                    running := (drain s.limit s.pending s.running).2, notified := false }
    else none
  | .done j =>
    if j ∈ s.running then some { s with running := s.running.erase j, cleaning := s.cleaning ++ [j] }
    else none
  | .clean =>
    match s.cleaning with
    | _ :: rest => if s.blocked = none then some { s with cleaning := rest, notified := true } else none
    | [] => none
  | .resume =>
    match s.blocked with
    | some j =>
      if hasPlace s then
        some { s with pending := s.pending ++ [j], notified := true, blocked := none,
                      accepted := s.accepted ++ [j] }
      else none
    | none => none

def run : S → List L → Option S
  | s, [] => some s
  | s, l :: ls => match step s l with
    | some s' => run s' ls
    | none => none

def Reach (cap limit : Option Nat) (ls : List L) (s : S) : Prop := run (init cap limit) ls = some s

end Kopf.C01.Sched
