/-
  C14 model, second part — a processing cycle that an exception cuts short, as far as resuming is concerned.

  `process_changing_cause` runs the selected handlers, writes their progress into the patch (`state.store`), delivers
  their RESULTS into the patch (`progression.deliver_results`) and only THEN does the in-memory bookkeeping
  (`memory.resumed_handlers.update(...)`, later `memory.fully_handled_once = True`); the patch is sent after all that
  (`application.apply` in `process_resource_event`). Whatever is raised on the way is swallowed by the per-object error
  throttler; the object's memory stays as it was at that moment, and the next event of the object is processed with it.

  * `deliver_results` puts a mapping result into the patch item by item (`dict.update`) and any other result through
    `copy.deepcopy`: a result that is neither None nor a mapping and that `copy.deepcopy` rejects (a lock, a generator,
    a coroutine, an open file, anything holding one) raises THERE — after the handlers and after `resumed_handlers`, before `fully_handled_once`.
  * a result JSON cannot write down (a datetime, a set, a Decimal, bytes, a view nested in it, …) raises when the PATCH
    request is made (the HTTP client serialises the payload) — after the bookkeeping; likewise every API error.

  Core Lean only.
-/
import Kopf.Model.C14_Resume
namespace Kopf.C14
open Kopf

/-- What the delivery of one handler's result depends on (measured on the returned value). -/
structure ResultShape where
  isNone : Bool        -- the handler returned None (nothing is delivered)
  isMapping : Bool     -- `isinstance(result, collections.abc.Mapping)`
  copyable : Bool      -- `copy.deepcopy(result)` succeeds
  jsonRaw : Bool       -- `json.dumps(result)` succeeds on the value as it is
  jsonPatch : Bool     -- `json.dumps` succeeds on what goes into the patch (a mapping's items in a dict; else the value)
  deriving DecidableEq, Repr

/-- `deliver_results` as it is: only the deep copy of a non-mapping result can raise. -/
def deliveryRaises (rs : List ResultShape) : Bool :=
  rs.any (fun r => !r.isNone && !r.isMapping && !r.copyable)

/-- The seeded variant C14f: every result goes through `json.loads(json.dumps(result))` in `deliver_results`. -/
def deliveryRaisesJson (rs : List ResultShape) : Bool :=
  rs.any (fun r => !r.isNone && !r.jsonRaw)

/-- The patch of this cycle cannot be serialised for the wire because of a delivered result. -/
def wireRaises (rs : List ResultShape) : Bool :=
  rs.any (fun r => !r.isNone && !r.jsonPatch)

/-- THE CODE AS IT IS (since /repo 4eb6f10, the repair of finding F11): the cycle cut in the delivery of the results —
    after the handlers were executed AND after `memory.resumed_handlers.update(...)`, but before `fully_handled_once` is
    written and before anything reaches the object: the resuming handlers that reached a final outcome in this pass are
    remembered (even if the pass would have closed the cycle: the set is not cleared), nothing else is. -/
def cutAtDelivery (decls : List Decl) (m : Option Mem) (P : C02.Store) (e : Event) : StepResult :=
  let mem := recall m e
  let bound := boundOf decls (causeOf mem e)
  let newly := (C02.cycleFinalsB (cfgOf decls mem e) bound P e.now e.exec).filter (isInitial decls)
  { mem := if e.deleted then none else some { mem with resumed := mem.resumed ++ newly }, P := P,
    invoked := (step decls m P e).invoked, closed := false }

/-- The order BEFORE /repo 4eb6f10 (`deliver_results` came before `memory.resumed_handlers.update`): the cycle cut
    before ANY memory bookkeeping — the handlers have run, the memory is the recalled one (only the first-event flag is
    decided), nothing reaches the object. Kept as the subject of the regression theorems of F11. -/
def cutBeforeMemoryOld (decls : List Decl) (m : Option Mem) (P : C02.Store) (e : Event) : StepResult :=
  { mem := if e.deleted then none else some (recall m e), P := P, invoked := (step decls m P e).invoked, closed := false }

/-- One `process_resource_event`, given the order of the bookkeeping (`old` = as before 4eb6f10), how the delivery of
    results fails (`raises`: `deliveryRaises` for the code as it is) and whether the patch is lost on its way (`patchLost`:
    an API error, a connection error — in addition to the results the wire cannot carry). `rs` = the results returned by
    the handlers invoked in this pass. -/
def stepWith (old : Bool) (raises : List ResultShape → Bool) (decls : List Decl) (m : Option Mem) (P : C02.Store) (e : Event)
    (rs : List ResultShape) (patchLost : Bool) : StepResult :=
  if !e.suppressed && !(step decls m P e).invoked.isEmpty && raises rs then
    (if old then cutBeforeMemoryOld decls m P e else cutAtDelivery decls m P e)
  else if patchLost || wireRaises rs then { step decls m P e with P := P }
  else step decls m P e

/-- the code as it is -/
def stepR := stepWith false deliveryRaises

/-- the code before /repo 4eb6f10 -/
def stepROld := stepWith true deliveryRaises

/-- the seeded variant C14f, on the tree it was written for (before 4eb6f10) and on the repaired one -/
def stepJsonOld := stepWith true deliveryRaisesJson
def stepJson := stepWith false deliveryRaisesJson

/-- One event of a history with results: the event, the results its handlers return, whether its patch is lost. -/
structure EventR where
  e : Event
  rs : List ResultShape
  patchLost : Bool

def runWith (old : Bool) (raises : List ResultShape → Bool) (decls : List Decl) :
    Option Mem → C02.Store → List EventR → List (List (C02.Id × Nat))
  | _, _, [] => []
  | m, P, x :: rest =>
      let r := stepWith old raises decls m P x.e x.rs x.patchLost
      r.invoked :: runWith old raises decls r.mem r.P rest

def runR := runWith false deliveryRaises
def runROld := runWith true deliveryRaises
def runJson := runWith false deliveryRaisesJson
def runJsonOld := runWith true deliveryRaisesJson

end Kopf.C14
