/-
  C17 model, part 1 — `kopf/_core/engines/indexing.py` and the indexing part of
  `processing.process_resource_event`. Core Lean only.

  What is mirrored (read from the code, not from the property):

  * `Store` = a Python dict  object-key ↦ value            (`Store.__items`)
  * `Index` = forward dict   index-key ↦ Store             (`Index.__items`)
            + reverse dict   object-key ↦ set of index keys (`Index.__reverse`)
    with `Index._discard(acckey, obj_keys=None)` and `Index._replace(acckey, mapping)` statement
    by statement, *including* the `self.__items[obj_key]` lookup that raises `KeyError` when the two
    maps disagree (modelled as `none`, never defaulted), the removal of freshly emptied stores and
    of emptied reverse sets.
  * Python dicts are association lists with Python's ordering rules (`aset`: replace in place or
    append; `adel`: remove), so that the driver can print the very iteration order the real views
    show. Python sets (`__reverse[acckey]`) are duplicate-free lists (order unobservable).
  * `Store._replace` assigns unconditionally (kopf 5068b98; before it a value `==` to the stored
    one was not stored: the repaired finding C17-F1);
  * `OperatorIndexer.replace` (non-mapping result ↦ `{None: result}`), `OperatorIndexers.replace`
    (two loops: outcomes → discard on exception / replace on a non-None result / nothing on None;
    then every indexer *absent from the outcomes* discards), `OperatorIndexers.discard`.
  * `index_resource`: `has_handlers(resource)` → nothing at all; `DELETED` → discard from all;
    otherwise handler selection (resource + label filter), the in-memory retry state
    (`progression.State`: `with_handlers`, `awakened` = not failed and not sleeping,
    `with_outcomes`, `without_successes`), `execute_handler_once`'s outcome table (retries limit,
    timeout, look-ahead of both, errors mode with the indexing default IGNORED, backoff).
  * `process_resource_event`: the memory is forgotten on `DELETED` before indexing.

  `timeout=` is modelled in whole seconds of the loop clock (`started` of the series, the strict
  check before the call and the look-ahead check after a temporary failure).
  Not modelled (stated limits): sub-handlers, duplicate handler ids,
  `annotations=/when=/field=` filters (C15's subject; one label filter stands for "a filter").
-/
namespace Kopf.C17

/-! ### Python dict / set as lists -/
section AList
variable {α β : Type} [DecidableEq α]

/-- `d.get(k)` -/
def aget (k : α) : List (α × β) → Option β
  | [] => none
  | (k', v) :: r => if k' = k then some v else aget k r

/-- `d[k] = v`: an existing key keeps its position, a new key is appended. -/
def aset (k : α) (v : β) : List (α × β) → List (α × β)
  | [] => [(k, v)]
  | (k', v') :: r => if k' = k then (k, v) :: r else (k', v') :: aset k v r

/-- `del d[k]` (all occurrences: a dict has at most one). -/
def adel (k : α) : List (α × β) → List (α × β)
  | [] => []
  | (k', v') :: r => if k' = k then adel k r else (k', v') :: adel k r

/-- `s.add(k)` on a set kept as a duplicate-free list. -/
def sadd (k : α) (s : List α) : List α := if k ∈ s then s else s ++ [k]

/-- `s.discard(k)` -/
def sdel (k : α) (s : List α) : List α := s.filter (fun x => !decide (x = k))

end AList

/-! ### `Store`, `Index` -/

/-- `Store.__items`: object key ↦ value. -/
abbrev Store (O V : Type) := List (O × V)

structure Index (K V O : Type) where
  items : List (K × Store O V)      -- `__items`
  reverse : List (O × List K)       -- `__reverse`
  deriving Repr

def Index.empty {K V O : Type} : Index K V O := ⟨[], []⟩

section Idx
variable {K V O : Type} [DecidableEq K] [DecidableEq O]

/-- The body of the `for obj_key in obj_keys:` loop of `Index._discard`. `none` = `KeyError`. -/
def discardKeys (o : O) : List K → Index K V O → Option (Index K V O)
  | [], ix => some ix
  | k :: ks, ix =>
    match aget k ix.items with
    | none => none                                            -- `store = self.__items[obj_key]`
    | some st =>
      let st' := adel o st                                    -- `store._discard(acckey)`
      let items' := if st'.isEmpty then adel k ix.items       -- `if not store: del self.__items[obj_key]`
                    else aset k st' ix.items                  -- (the store object was mutated in place)
      match aget o ix.reverse with
      | none => none                                          -- `self.__reverse[acckey]`
      | some rk =>                                            -- `.discard(obj_key)`
        discardKeys o ks { items := items', reverse := aset o (sdel k rk) ix.reverse }

/-- `Index._discard(acckey, obj_keys)`; `keys = none` is the default `obj_keys=None`. -/
def Index.discard (o : O) (keys : Option (List K)) (ix : Index K V O) : Option (Index K V O) :=
  match aget o ix.reverse with
  | none => some ix                                           -- `if acckey in self.__reverse:` else nothing
  | some rk =>
    let ks := match keys with | some ks => ks | none => rk    -- `.copy()`
    match discardKeys o ks ix with
    | none => none
    | some ix' =>
      match aget o ix'.reverse with
      | none => none
      | some r => if r.isEmpty then some { ix' with reverse := adel o ix'.reverse } else some ix'

/-- `Store._replace(acckey, obj)`: `self.__items[acckey] = obj` — always the latest value
    (kopf 5068b98; an existing key keeps its position). -/
def Store.replace (o : O) (v : V) (st : Store O V) : Store O V := aset o v st

/-- The `for obj_key, obj_val in obj.items():` loop of `Index._replace` on (items, reverse-set). -/
def replaceLoop (o : O) :
    List (K × V) → List (K × Store O V) × List K → List (K × Store O V) × List K
  | [], acc => acc
  | (k, v) :: rest, (items, rev) =>
    let st := match aget k items with | some st => st | none => []   -- `except KeyError: Store()`
    replaceLoop o rest (aset k (Store.replace o v st) items, sadd k rev)

/-- `Index._replace(acckey, obj)` -/
def Index.replace (o : O) (m : List (K × V)) (ix : Index K V O) :
    Option (Index K V O) :=
  let rev0 := match aget o ix.reverse with | some r => r | none => []  -- `except KeyError: set()`
  let r := replaceLoop o m (ix.items, rev0)
  let ix1 : Index K V O := { items := r.1, reverse := aset o r.2 ix.reverse }
  -- `self._discard(acckey, reverse - set(obj.keys()))`
  ix1.discard o (some (r.2.filter (fun k => !(m.map Prod.fst).contains k)))

/-- read-only view: `index[k]` restricted to one object (`none` = the object has no value there). -/
def Index.val (ix : Index K V O) (k : K) (o : O) : Option V :=
  match aget k ix.items with
  | none => none
  | some st => aget o st

/-- the reverse set of an object (empty when absent). -/
def Index.rkeys (ix : Index K V O) (o : O) : List K :=
  match aget o ix.reverse with | some r => r | none => []

end Idx

/-! ### results, outcomes, the per-object retry state -/

/-- What an index function does when called (one entry of the outcome script). -/
inductive Script (K V : Type) where
  | dict (m : List (Option K × V))     -- returns a mapping
  | scalar (v : V)                     -- returns anything else that is not None
  | none                               -- returns None
  | tempErr (delay : Option Nat)       -- raises TemporaryError(delay=…)
  | permErr                            -- raises PermanentError
  | otherErr                           -- raises an arbitrary exception
  deriving Repr

inductive Mode where
  | ignored | temporary | permanent
  deriving DecidableEq, Repr

/-- `execution.Outcome` as far as indexing reads it; `result` already passed through
    `OperatorIndexer.replace`'s `obj if isinstance(obj, Mapping) else {None: obj}`. -/
structure Outcome (K V : Type) where
  final : Bool
  delay : Option Nat
  exception : Bool
  result : Option (List (Option K × V))
  deriving Repr

/-- `progression.HandlerState` as far as `awakened` / `with_outcome` read it. Successes are never
    kept (`without_successes`), so `finished` = `failed`. Times are absolute loop seconds. -/
structure HState where
  retries : Nat
  delayed : Option Nat
  failed : Bool
  started : Nat              -- `HandlerState.started`: the time of the first attempt of the series
  deriving DecidableEq, Repr

/-- `HandlerState.from_scratch` at loop time `now` -/
def HState.scratch (now : Nat) : HState := ⟨0, none, false, now⟩

/-- `State.with_handlers`: a selected handler without a record starts from scratch (now). -/
def HState.ofOpt (now : Nat) : Option HState → HState
  | some h => h
  | none => HState.scratch now

/-- `HandlerState.awakened` at loop time `now`. -/
def HState.awake (h : HState) (now : Nat) : Bool :=
  !h.failed && !(match h.delayed with | some d => decide (d > now) | none => false)

structure Indexer (Id Res L : Type) where
  id : Id
  res : Res
  want : Option L            -- `labels={'grp': want}`; none = no filter
  errors : Option Mode       -- `errors=`; none ↦ the indexing default IGNORED
  retries : Option Nat       -- `retries=`
  backoff : Option Nat       -- `backoff=`; none ↦ settings.execution.default_backoff
  timeout : Option Nat       -- `timeout=` (whole seconds since the first attempt of the series)
  deriving Repr

structure Event (Id Res L K V O : Type) where
  t : Nat                    -- loop time (whole seconds)
  res : Res
  obj : O                    -- (namespace, name, uid)
  deleted : Bool             -- raw_event['type'] == 'DELETED'
  label : Option L           -- metadata.labels.get('grp')
  script : Id → Script K V   -- what each index function would do if called for this event

section Exec
variable {Id Res L K V O : Type}

/-- The strict checks before the call: `state.runtime >= handler.timeout` (HandlerTimeoutError) or
    `state.retries >= handler.retries` (HandlerRetriesError) — the function is not called. -/
def Indexer.exhausted (c : Indexer Id Res L) (h : HState) (now : Nat) : Bool :=
  (match c.timeout with | some T => decide (now - h.started ≥ T) | none => false) ||
  (match c.retries with | some r => decide (h.retries ≥ r) | none => false)

/-- The look-ahead checks after a temporary failure with the given delay: the next attempt would
    be over the timeout / over the retries limit, so the failure is final already. -/
def Indexer.lookahead (c : Indexer Id Res L) (h : HState) (now delay : Nat) : Bool :=
  (match c.timeout with | some T => decide (now - h.started + delay ≥ T) | none => false) ||
  (match c.retries with | some r => decide (h.retries + 1 ≥ r) | none => false)

/-- `handler.backoff if handler.backoff is not None else settings.execution.default_backoff` -/
def Indexer.backoffOr (c : Indexer Id Res L) (defaultBackoff : Nat) : Nat := c.backoff.getD defaultBackoff

/-- `execute_handler_once` for an indexing handler (`default_errors = IGNORED`) at loop time `now`. -/
def execOne (c : Indexer Id Res L) (defaultBackoff : Nat) (now : Nat) (h : HState) (s : Script K V) :
    Outcome K V :=
  let backoff := c.backoffOr defaultBackoff
  let mode := match c.errors with | some m => m | none => Mode.ignored
  if c.exhausted h now then ⟨true, none, true, none⟩          -- timeout / retries error, fn not called
  else match s with
    | .dict m => ⟨true, none, false, some m⟩
    | .scalar v => ⟨true, none, false, some [(none, v)]⟩
    | .none => ⟨true, none, false, none⟩
    | .tempErr d =>                                           -- `e.delay or 0` in the look-ahead
      if c.lookahead h now (d.getD 0) then ⟨true, none, true, none⟩
      else ⟨false, d, true, none⟩
    | .permErr => ⟨true, none, true, none⟩
    | .otherErr =>
      match mode with
      | .ignored => ⟨true, none, false, none⟩
      | .temporary => if c.lookahead h now backoff then ⟨true, none, true, none⟩
                      else ⟨false, some backoff, true, none⟩
      | .permanent => ⟨true, none, true, none⟩

/-- `HandlerState.with_outcome` followed by `State.without_successes` for that handler. -/
def HState.next (h : HState) (now : Nat) (out : Outcome K V) : Option HState :=
  if out.final && !out.exception then none
  else some ⟨h.retries + 1, out.delay.map (now + ·), out.final && out.exception, h.started⟩

variable [DecidableEq Res] [DecidableEq L]

/-- `registry._indexing.get_handlers(cause)`: the resource selector and the label filter. -/
def Indexer.selects (c : Indexer Id Res L) (e : Event Id Res L K V O) : Bool :=
  decide (c.res = e.res) && (match c.want with | none => true | some l => decide (e.label = some l))

end Exec

/-! ### the operator's indexers and memories -/

/-- function-map update -/
def upd {α β : Type} [DecidableEq α] (f : α → β) (a : α) (b : β) : α → β :=
  fun x => if x = a then b else f x

structure State (Id K V O : Type) where
  ixs : Id → Index (Option K) V O           -- `OperatorIndexers` (pre-created by `ensure`)
  mem : O → Id → Option HState              -- `memories[uid].indexing_memory.indexing_state`

def State.init {Id K V O : Type} : State Id K V O := ⟨fun _ => Index.empty, fun _ _ => none⟩

section Step
variable {Id Res L K V O : Type} [DecidableEq Id] [DecidableEq Res] [DecidableEq L]
  [DecidableEq K] [DecidableEq O]

/-- one `for …: self[id].…(key)` loop over indexers; `none` = a `KeyError` inside. -/
def foldUpd (f : Id → Index (Option K) V O → Option (Index (Option K) V O)) :
    List Id → (Id → Index (Option K) V O) → Option (Id → Index (Option K) V O)
  | [], ixs => some ixs
  | i :: rest, ixs =>
    match f i (ixs i) with
    | none => none
    | some ix' => foldUpd f rest (upd ixs i ix')

/-- the body of the first loop of `OperatorIndexers.replace` for one outcome. -/
def applyOutcome (o : O) (out : Outcome K V) (ix : Index (Option K) V O) :
    Option (Index (Option K) V O) :=
  if out.exception then ix.discard o none
  else match out.result with
    | some m => ix.replace o m
    | none => some ix

/-- body of `for id, outcome in outcomes.items():` -/
def loop1 (o : O) (outs : List (Id × Outcome K V)) (i : Id)
    (ix : Index (Option K) V O) : Option (Index (Option K) V O) :=
  match aget i outs with
  | some out => applyOutcome o out ix
  | none => some ix

/-- body of `for id, indexer in self.items(): if id not in outcomes: indexer.discard(key)` -/
def loop2 (o : O) (outs : List (Id × Outcome K V)) (i : Id) (ix : Index (Option K) V O) :
    Option (Index (Option K) V O) :=
  if (aget i outs).isSome then some ix else ix.discard o none

/-- `OperatorIndexers.replace(body, outcomes)`; `ids` = the keys of `self` in order. -/
def replaceAll (ids : List Id) (o : O) (outs : List (Id × Outcome K V))
    (ixs : Id → Index (Option K) V O) : Option (Id → Index (Option K) V O) :=
  match foldUpd (loop1 o outs) (outs.map Prod.fst) ixs with
  | none => none
  | some ixs1 => foldUpd (loop2 o outs) ids ixs1

/-- `OperatorIndexers.discard(body)` -/
def discardAll (ids : List Id) (o : O) (ixs : Id → Index (Option K) V O) :
    Option (Id → Index (Option K) V O) :=
  foldUpd (fun _ ix => ix.discard o none) ids ixs

/-- `State.with_handlers`: the state a selected handler runs with. -/
def hstateOf (now : Nat) (mem : Id → Option HState) (i : Id) : HState := HState.ofOpt now (mem i)

/-- The indexing part of `process_resource_event` for one event. -/
def step (cfg : List (Indexer Id Res L)) (defaultBackoff : Nat)
    (s : State Id K V O) (e : Event Id Res L K V O) : Option (State Id K V O) :=
  let ids := cfg.map (·.id)
  -- `if raw_type == 'DELETED': await memories.forget(raw_body)`
  let mem0 : O → Id → Option HState := if e.deleted then upd s.mem e.obj (fun _ => none) else s.mem
  if !(cfg.any (fun c => decide (c.res = e.res))) then
    some ⟨s.ixs, mem0⟩                                       -- `has_handlers` is false: `pass`
  else if e.deleted then
    match discardAll ids e.obj s.ixs with
    | none => none
    | some ixs' => some ⟨ixs', mem0⟩
  else
    let sel := cfg.filter (fun c => c.selects e)             -- get_handlers(cause)
    let todo := sel.filter (fun c => (hstateOf e.t (s.mem e.obj) c.id).awake e.t)
    let outs : List (Id × Outcome K V) :=
      todo.map (fun c => (c.id, execOne c defaultBackoff e.t (hstateOf e.t (s.mem e.obj) c.id) (e.script c.id)))
    match replaceAll ids e.obj outs s.ixs with
    | none => none
    | some ixs' =>
      -- `state.with_handlers(sel).with_outcomes(outcomes).without_successes()`
      let memo : Id → Option HState := fun i =>
        match aget i outs with
        | some out => (hstateOf e.t (s.mem e.obj) i).next e.t out
        | none => if sel.any (fun c => decide (c.id = i)) then some (hstateOf e.t (s.mem e.obj) i)
                  else s.mem e.obj i
      some ⟨ixs', upd s.mem e.obj memo⟩

def run (cfg : List (Indexer Id Res L)) (defaultBackoff : Nat) :
    State Id K V O → List (Event Id Res L K V O) → Option (State Id K V O)
  | s, [] => some s
  | s, e :: es =>
    match step cfg defaultBackoff s e with
    | none => none
    | some s' => run cfg defaultBackoff s' es

end Step

/-! ### the key of the memories (`inventory.ResourceMemories._build_key`) as a parameter

  `State.mem` above is one memory per object: what the code does since kopf 8c8cff5 (the key is the
  uid, or — for the rare objects without a uid — the surrogate identity kind/apiVersion/name/
  namespace/creationTimestamp, the same as `queueing.get_uid`). Before it the key was `uid or ''`:
  all objects without a uid had ONE memory (repaired finding C17-F5). `stepKeyed mk` is the same
  mechanism with the memories kept under `mk obj`: `recall` reads `memories[mk obj]`, `forget`
  deletes it, the new indexing state is stored there. With an injective `mk` it is `step`
  (`Kopf.C17.keyed_follows`), with a constant one it is the old code (`shared_memory_witness`). -/
structure KState (Id K V O M : Type) where
  ixs : Id → Index (Option K) V O
  mem : M → Id → Option HState              -- `memories._items[key].indexing_memory.indexing_state`

def KState.init {Id K V O M : Type} : KState Id K V O M := ⟨fun _ => Index.empty, fun _ _ => none⟩

/-- what the mechanism sees of the memories: each object through its key -/
def KState.view {Id K V O M : Type} (mk : O → M) (s : KState Id K V O M) : State Id K V O :=
  ⟨s.ixs, fun o => s.mem (mk o)⟩

section Keyed
variable {Id Res L K V O M : Type} [DecidableEq Id] [DecidableEq Res] [DecidableEq L]
  [DecidableEq K] [DecidableEq O] [DecidableEq M]

def stepKeyed (mk : O → M) (cfg : List (Indexer Id Res L)) (defaultBackoff : Nat)
    (s : KState Id K V O M) (e : Event Id Res L K V O) : Option (KState Id K V O M) :=
  match step cfg defaultBackoff (s.view mk) e with
  | none => none
  | some s' => some ⟨s'.ixs, upd s.mem (mk e.obj) (s'.mem e.obj)⟩

def runKeyed (mk : O → M) (cfg : List (Indexer Id Res L)) (defaultBackoff : Nat) :
    KState Id K V O M → List (Event Id Res L K V O) → Option (KState Id K V O M)
  | s, [] => some s
  | s, e :: es =>
    match stepKeyed mk cfg defaultBackoff s e with
    | none => none
    | some s' => runKeyed mk cfg defaultBackoff s' es

end Keyed

/-! ### reference specification (the documented rules, per index and per object) -/

section Ref
variable {Id Res L K V O : Type} [DecidableEq Id] [DecidableEq Res] [DecidableEq L]
  [DecidableEq K] [DecidableEq O]

/-- The value a mapping result gives for one key (`dict` semantics: the last pair wins). -/
def lastval {κ ν : Type} [DecidableEq κ] (k : κ) : List (κ × ν) → Option ν
  | [] => none
  | (k', v) :: r =>
    match lastval k r with
    | some x => some x
    | none => if k' = k then some v else none

/-- docs/indexing.rst as a table: what one call does to the object's entry in the index. -/
inductive Rule (K V : Type) where
  | set (m : List (Option K × V))        -- "merged into the index under the key(s) of the result"
  | keep                                 -- None result / ignored error: "existing values are preserved"
  | dropRetry (delay : Option Nat)       -- temporary: "remove … and exclude … for a specified duration"
  | dropForever                          -- permanent: "remove … and exclude … from future indexing"

/-- The rule for a call at time `now`, by result kind, `errors=` mode and the `retries=`/`timeout=`
    budget of the series that started at `h.started`. -/
def rule (c : Indexer Id Res L) (defaultBackoff : Nat) (now : Nat) (h : HState) : Script K V → Rule K V
  | .dict m => .set m
  | .scalar v => .set [(none, v)]
  | .none => .keep
  | .permErr => .dropForever
  | .tempErr d =>
    if c.lookahead h now (d.getD 0) then .dropForever else .dropRetry d
  | .otherErr =>
    (match c.errors with
     | none | some .ignored => .keep
     | some .permanent => .dropForever
     | some .temporary =>
       let b := c.backoffOr defaultBackoff
       if c.lookahead h now b then .dropForever else .dropRetry (some b))

/-- Reference state of one (index, object) pair: the object's latest contribution (`[]` = none)
    and its exclusion record. -/
structure RefSt (K V : Type) where
  contrib : List (Option K × V)
  excl : Option HState

def RefSt.init {K V : Type} : RefSt K V := ⟨[], none⟩

/-- One event, seen from one (index `c`, object `o`) pair. -/
def refStep (cfg : List (Indexer Id Res L)) (defaultBackoff : Nat) (c : Indexer Id Res L) (o : O)
    (r : RefSt K V) (e : Event Id Res L K V O) : RefSt K V :=
  if e.obj ≠ o then r                                          -- other objects: untouched
  else
    let excl0 := if e.deleted then none else r.excl            -- deletion forgets the exclusions
    if !(cfg.any (fun c' => decide (c'.res = e.res))) then { r with excl := excl0 }  -- kind not indexed at all
    else if e.deleted then { r with contrib := [], excl := none }      -- deleted: values removed
    else if !(c.selects e) then { r with contrib := [] }       -- filter mismatch: values removed
    else
      let h := HState.ofOpt e.t r.excl
      if !(h.awake e.t) then { r with contrib := [], excl := some h }  -- excluded: not even invoked
      else if c.exhausted h e.t then                           -- the budget is used up: permanent, no call
        { r with contrib := [], excl := some ⟨h.retries + 1, none, true, h.started⟩ }
      else match rule c defaultBackoff e.t h (e.script c.id) with
        | .set m => ⟨m, none⟩
        | .keep => { r with excl := none }
        | .dropRetry d => { r with contrib := [], excl := some ⟨h.retries + 1, d.map (e.t + ·), false, h.started⟩ }
        | .dropForever => { r with contrib := [], excl := some ⟨h.retries + 1, none, true, h.started⟩ }

def refRun (cfg : List (Indexer Id Res L)) (defaultBackoff : Nat) (c : Indexer Id Res L) (o : O) :
    RefSt K V → List (Event Id Res L K V O) → RefSt K V
  | r, [] => r
  | r, e :: es => refRun cfg defaultBackoff c o (refStep cfg defaultBackoff c o r e) es

/-- `groupBy`: the index the documented rules give — key `k` holds, for each object, the value its
    latest contribution has under `k`. -/
def groupBy (ref : O → List (Option K × V)) (k : Option K) (o : O) : Option V := lastval k (ref o)

end Ref


/-! ### statement-level vocabulary of the property theorems (`Kopf/Props/C17.lean`) -/

section Vocabulary
variable {K V O : Type} [DecidableEq K] [DecidableEq O]

/-- forward and reverse map agree: `k ∈ rev[o] ↔ o ∈ fwd[k]` (the reverse index says exactly where
    an object's values are) -/
def Index.Cons (ix : Index K V O) : Prop := ∀ k o, k ∈ ix.rkeys o ↔ (ix.val k o).isSome
/-- no empty `Store` is left in `Index.__items` ("collections are never empty") -/
def Index.StoreNe (ix : Index K V O) : Prop := ∀ k st, aget k ix.items = some st → st ≠ []
/-- no empty set is left in `Index.__reverse` -/
def Index.RevNe (ix : Index K V O) : Prop := ∀ o r, aget o ix.reverse = some r → r ≠ []
/-- representation invariant of "Python set as list": no duplicates -/
def Index.RevNodup (ix : Index K V O) : Prop := ∀ o r, aget o ix.reverse = some r → r.Nodup

/-- the consistency invariant of one `Index` object -/
structure Index.Inv (ix : Index K V O) : Prop where
  cons : ix.Cons
  storeNe : ix.StoreNe
  revNe : ix.RevNe
  revNodup : ix.RevNodup

/-- "is a Python dict of Python dicts plus a Python dict": keys are unique in `__items`, in every
    `Store.__items` and in `__reverse` (so the association lists denote dicts) -/
structure Index.ND (ix : Index K V O) : Prop where
  items : (ix.items.map Prod.fst).Nodup
  stores : ∀ k st, (k, st) ∈ ix.items → (st.map Prod.fst).Nodup
  reverse : (ix.reverse.map Prod.fst).Nodup

end Vocabulary

section Vocabulary2
variable {Id Res L K V O : Type} [DecidableEq Id] [DecidableEq Res] [DecidableEq L]
  [DecidableEq K] [DecidableEq O]

/-- every index of the operator satisfies the consistency invariant -/
def State.InvAll (s : State Id K V O) : Prop := ∀ i, (s.ixs i).Inv
/-- every index of the operator has unique keys -/
def State.NDAll (s : State Id K V O) : Prop := ∀ i, (s.ixs i).ND

/-- the retry record (`progression.HandlerState`) the code uses for handler `c` and this event's
    object: the remembered one, or a fresh one started now -/
def hOf (s : State Id K V O) (e : Event Id Res L K V O) (c : Indexer Id Res L) : HState :=
  hstateOf e.t (s.mem e.obj) c.id

/-- is the index function of `c` considered for a call in this event's cycle (selected by resource
    and filter, and `awakened`: not failed for good, not sleeping)? -/
def invoked (s : State Id K V O) (e : Event Id Res L K V O) (c : Indexer Id Res L) : Bool :=
  c.selects e && (hOf s e c).awake e.t

end Vocabulary2

end Kopf.C17
