/-
  C02 model, continued (white-box review, review/wb/C02) — three code paths of the anchored functions that
  `Kopf.Model.C02_Cycle` had no counterpart for. `cycle`, `cycleB`, `subPass`, `cycle2` are untouched (C03, C14, C15
  unfold them); everything here is built beside them. Core Lean only.

  1. SUB-HANDLERS BELOW THE FIRST LEVEL. `execution.invoke_handler` pushes the invoked handler's accumulator on the
     stack of ALL the accumulators of the handlers it is nested in (`subrefs_var := list(subrefs_var.get([])) + [subrefs]`),
     and `subhandling.execute` adds every key of its state to EVERY accumulator on the stack. The outcome of a parent
     therefore carries, besides the keys of its own sub-pass (`subPass.outcome.subrefs`), whatever the sub-handlers it
     invoked in this pass report themselves — the keys of THEIR sub-passes, all levels deep (`subPassN`, `execDeep`).
  2. A PARENT THAT FAILS AFTER ITS CHILDREN RAN in the same invocation (`await kopf.execute(...)`, then an exception):
     every `except` branch of `execute_handler_once` returns `Outcome(…, subrefs=subrefs)` — whatever the parent's own
     function ends with, its outcome references what the sub-passes of this invocation wrote (`parentOutcome`).
  3. THE RESUMED FILTER (/repo 6c4463d): `cause_handlers` is the registry's selection without the resuming handlers
     (`initial`) that have already reached a FINAL outcome for this object in this process (`memory.resumed_handlers`);
     the set grows by the resuming handlers whose outcome in the pass is final and is emptied when the cycle closes
     (`selectResumed`, `resumedAfter`). C14 owns the mechanism (`Kopf.C14`); here it is only what stands between the
     registry's selection and the `selected` that `cycle` is given: the property's "every SELECTED handler has finished".
-/
import Kopf.Model.C02_Cycle
namespace Kopf.C02

/-- `subhandling.execute` under a parent whose sub-handlers may be parents themselves: the same pass as `subPass`;
    the parent's accumulator ends up with the keys of this sub-state AND with what the sub-handlers invoked in this
    pass accumulated (their outcomes' `subrefs`). -/
def subPassN (cfg : Cfg) (P : Store) (now now1 : Tick) (exec : Id → Nat → Outcome) : SubResult :=
  let s := subPass cfg P now now1 exec
  { s with outcome := { s.outcome with
      subrefs := s.outcome.subrefs ++ s.invoked.flatMap (fun p => (exec p.1 p.2).subrefs) } }

/-- What `execute_handler_once` returns for a parent whose function ran `kopf.execute()` (sub-pass `s`) and then
    ended on its own: `own = none` — it returned normally; `own = some o` — it raised, `o` is what the error policy
    makes of that (C11's subject). While the children are unfinished `execute()` raises `HandlerChildrenRetry` out of
    the function, so its own ending never comes. The references are the accumulator's in every branch. -/
def parentOutcome (own : Option Outcome) (s : SubResult) : Outcome :=
  if s.outcome.final then
    match own with
    | none => s.outcome
    | some o => { o with subrefs := s.outcome.subrefs }
  else s.outcome

/-- What invoking handler `i` yields when sub-handlers nest `d` levels deep: `cfgOf i` is the sub-pass `i` runs
    (owned = selected = the sub-handlers it registers; none = a leaf), `leaf` what the functions themselves yield. -/
def execDeep (cfgOf : Id → Cfg) (P : Store) (now : Tick) (leaf : Id → Nat → Outcome) : Nat → Id → Nat → Outcome
  | 0 => leaf
  | d + 1 => fun i n =>
      if (cfgOf i).selected.isEmpty then leaf i n
      else (subPassN (cfgOf i) P now now (execDeep cfgOf P now leaf d)).outcome

/-- The records written or loaded anywhere below the invocation `(i, n)`: the keys of the sub-state of `i`'s own
    sub-pass, and — recursively — those below every sub-handler that pass invoked. -/
inductive Below (cfgOf : Id → Cfg) (P : Store) (now : Tick) (leaf : Id → Nat → Outcome) : Nat → Id → Nat → Id → Prop
  | here {d : Nat} {i : Id} {n : Nat} {x : Id} {h : HS}
      (hne : (cfgOf i).selected.isEmpty = false)
      (hst : (subPassN (cfgOf i) P now now (execDeep cfgOf P now leaf d)).st x = some h) :
      Below cfgOf P now leaf (d + 1) i n x
  | deeper {d : Nat} {i : Id} {n : Nat} {c : Id} {k : Nat} {x : Id}
      (hne : (cfgOf i).selected.isEmpty = false)
      (hinv : (c, k) ∈ (subPassN (cfgOf i) P now now (execDeep cfgOf P now leaf d)).invoked)
      (hb : Below cfgOf P now leaf d c k x) :
      Below cfgOf P now leaf (d + 1) i n x

/-! ### The resumed filter -/

/-- `[h for h in cause_handlers if not (h.initial and h.id in memory.resumed_handlers)]` -/
def selectResumed (raw : List Id) (initial : Id → Bool) (resumed : List Id) : List Id :=
  raw.filter (fun i => !(initial i && resumed.contains i))

/-- `memory.resumed_handlers` after a pass whose final outcomes are `finals` (`cycleFinalsB`) and whose closing
    decision is `closed` (`done or skip` ⇒ `.clear()`). -/
def resumedAfter (initial : Id → Bool) (resumed finals : List Id) (closed : Bool) : List Id :=
  if closed then [] else resumed ++ finals.filter (fun i => initial i)

/-- the set along the passes of one object in one process: `(finals, closed)` per pass -/
def resumedRun (initial : Id → Bool) : List Id → List (List Id × Bool) → List Id
  | r, [] => r
  | r, s :: rest => resumedRun initial (resumedAfter initial r s.1 s.2) rest

end Kopf.C02
