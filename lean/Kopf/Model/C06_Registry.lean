/-
  C06 model, part 2 — who requires the finalizer: `requires_finalizer` of the two registries
  (`kopf/_core/intents/registries.py`), the producers of the atoms `spawnReq` / `changeReq` of the
  decision block. Core Lean only.

      def requires_finalizer(self, cause, excluded=frozenset()) -> bool:
          for handler in self._handlers:                       # every REGISTRATION, in registration order
              if handler.id not in excluded:                   # (spawning: memory.forever_stopped)
                  if handler.requires_finalizer and [pre]match(handler=handler, cause=cause):
                      return True
          return False

  `self._handlers` holds one entry per registration: a function decorated twice (stacked decorators) is there
  twice under ONE id, each entry with its own filters. The loop does not de-duplicate them (handler SELECTION
  does, but only after matching): every registration decides for itself.
-/
namespace Kopf.C06

/-- One registration as the loop sees it. -/
structure Reg where
  id : String
  requires : Bool    -- `handler.requires_finalizer` (on.delete: `not optional`; daemon/timer: True; others: None)
  hit : Bool         -- `prematch(handler, cause)` (changing) / `match(handler, cause)` (spawning)
  deriving DecidableEq, Repr

/-- The loop of `requires_finalizer`. -/
def requiresLoop (excluded : List String) : List Reg → Bool
  | [] => false
  | r :: rs =>
    if !excluded.contains r.id then
      if r.requires && r.hit then true else requiresLoop excluded rs
    else requiresLoop excluded rs

/-- `_deduplicated`: the first registration of every id (what `get_resource_handlers` / `get_handlers` return;
kopf keys by (fn, id) — one function per id here). Used only to state what the loop must NOT do. -/
def dedupById : List Reg → List String → List Reg
  | [], _ => []
  | r :: rs, seen => if seen.contains r.id then dedupById rs seen else r :: dedupById rs (r.id :: seen)

end Kopf.C06
