/-
  C12 model, part 5 — `kopf._cogs.clients.patching.patch_obj`: the code BETWEEN the API client
  (`api.patch` → `api.request`, part 1) and the per-object throttler (`throttled()`, part 2) in a processing
  cycle (`application.apply` → `patch_and_check` → `patch_obj`). Core Lean only; built from parts 1, 2, 4.

  One `patch_obj` is up to four API calls, one after the other, each a full `api.patch` with its own retries:
      merge-patch of the object           (Content-Type application/merge-patch+json)
      merge-patch of the /status subresource
      JSON-patch of the object            (application/json-patch+json; `test` of the resourceVersion first)
      JSON-patch of the /status subresource
  and an error filter around them (patching.py):
      try:
          [merge body] [merge status]
          try: [json body]   except APIUnprocessableEntityError: return patched_body, remaining_patch
          try: [json status] except APIUnprocessableEntityError: return patched_body, remaining_patch
          return patched_body, None
      except APINotFoundError: return None, None
  i.e. an escalation of any of the calls ends `patch_obj` (the later calls are not made) and is
      * HTTP 404, whichever call:        'the object is gone' — not an error, nothing raised;
      * HTTP 422 of a JSON-patch call:   the resourceVersion `test` failed (newer changes exist) — not an
                                         error, the transformation functions are carried over to the next cycle;
      * everything else — in particular HTTP 422 of a MERGE-patch call (a schema / admission rejection:
        one of the 'other 4xx' of the property) — raised on, through `application.apply`, into `throttled()`.
  The filter is a parameter of the model (`catch_`) so that variants of it can be stated (`…_witness`).
-/
import Kopf.Model.C12_Process
namespace Kopf.C12

/-- which of the four requests of `patch_obj` a call is -/
inductive PKind where
  | mergeBody | mergeStatus | jsonBody | jsonStatus
  deriving DecidableEq, Repr, Inhabited

def PKind.isJson : PKind → Bool
  | .jsonBody | .jsonStatus => true
  | _ => false

/-- how `patch_obj` ends -/
inductive PEnd where
  | applied                 -- every call made was answered: `return patched_body, None`
  | gone                    -- `except APINotFoundError: return None, None`
  | postponed               -- `except APIUnprocessableEntityError: return patched_body, remaining_patch`
  | raised (c : ErrClass)   -- the escalation of the call leaves `patch_obj`
  deriving DecidableEq, Repr, Inhabited

/-- the `except` clauses of `patch_obj` as they apply to an escalation `c` of a call of kind `k` -/
def patchCatch (k : PKind) (c : ErrClass) : PEnd :=
  if c = .notFound then .gone
  else if c = .unprocessable ∧ k.isJson = true then .postponed
  else .raised c

/-- a variant of the filter that does not look at the kind of the call: every HTTP 422 is taken for a
    conflict of resource versions (one `except APIUnprocessableEntityError` around all four calls) -/
def patchCatchAny422 (_ : PKind) (c : ErrClass) : PEnd :=
  if c = .notFound then .gone
  else if c = .unprocessable then .postponed
  else .raised c

structure PRun where
  runs : List Run      -- the API calls made, in order, each with its attempts
  ending : PEnd
  fin : Int            -- when `patch_obj` returned / raised
  deriving DecidableEq, Repr, Inhabited

/-- `patch_obj` on the calls it has to make (kind, the fault script that call meets), starting at `t`:
    the next call starts when the previous one was answered; the first escalation ends it. -/
def patchObj (catch_ : PKind → ErrClass → PEnd) (bo : Backoffs) (enforce : Bool) :
    List (PKind × List Att) → Int → PRun
  | [], t => ⟨[], .applied, t⟩
  | (k, script) :: rest, t =>
    let r := request bo enforce script t
    match r.outcome with
    | .ok =>
      let p := patchObj catch_ bo enforce rest r.fin
      ⟨r :: p.runs, p.ending, p.fin⟩
    | .escalated c => ⟨[r], catch_ k c, r.fin⟩

/-- what the end of `patch_obj` is for `throttled()` around the cycle -/
def patchBody : PEnd → Body
  | .raised _ => .error true
  | _ => .success

/-- the block of a cycle whose API work is one `patch_obj` starting at `t1` -/
def patchCycleIn (catch_ : PKind → ErrClass → PEnd) (bo : Backoffs) (enforce : Bool)
    (calls : List (PKind × List Att)) (t1 : Int) (wake1 wake2 : Option Nat) : CycleIn :=
  let r := patchObj catch_ bo enforce calls t1
  ⟨patchBody r.ending, false, (r.fin - t1).toNat, wake1, wake2⟩

structure PassOutP where
  run : Option PRun     -- the `patch_obj`, if the cycle was allowed to run
  out : CycleOut        -- what `throttled()` made of it
  deriving Repr

/-- one processing cycle of an object that starts at `t`, its API work being one `patch_obj` -/
def processCycleP (catch_ : PKind → ErrClass → PEnd) (bo : Backoffs) (enforce : Bool) (cfg : Delays)
    (s : Throttler) (t : Int) (calls : List (PKind × List Att)) (wake1 wake2 : Option Nat) : PassOutP :=
  let p := phase1 s t wake1
  let t1 := t + p.1
  ⟨if p.2.activeUntil.isNone then some (patchObj catch_ bo enforce calls t1) else none,
   cycle cfg s t (patchCycleIn catch_ bo enforce calls t1 wake1 wake2)⟩

def processCyclesP (catch_ : PKind → ErrClass → PEnd) (bo : Backoffs) (enforce : Bool) (cfg : Delays) :
    Throttler → List (Int × List (PKind × List Att) × Option Nat × Option Nat) → List PassOutP
  | _, [] => []
  | s, (t, calls, w1, w2) :: rest =>
    let o := processCycleP catch_ bo enforce cfg s t calls w1 w2
    o :: processCyclesP catch_ bo enforce cfg o.out.st rest

/-- `FirstFailure calls t k c f`: made one after the other from `t`, the first call that is not answered
    is of kind `k`, escalates as `c`, at time `f` (all calls before it were answered). -/
inductive FirstFailure (bo : Backoffs) (enforce : Bool) :
    List (PKind × List Att) → Int → PKind → ErrClass → Int → Prop where
  | here (k : PKind) (script : List Att) (rest : List (PKind × List Att)) (t : Int) (c : ErrClass)
      (h : (request bo enforce script t).outcome = .escalated c) :
      FirstFailure bo enforce ((k, script) :: rest) t k c (request bo enforce script t).fin
  | later (k0 : PKind) (script : List Att) (rest : List (PKind × List Att)) (t : Int)
      (k : PKind) (c : ErrClass) (f : Int)
      (h : (request bo enforce script t).outcome = .ok)
      (hr : FirstFailure bo enforce rest (request bo enforce script t).fin k c f) :
      FirstFailure bo enforce ((k0, script) :: rest) t k c f

end Kopf.C12
