/-
  C14 model, third part — the CONTAINER of the per-object memories, `inventory.ResourceMemories`: ONE per operator
  process, shared by every object of every kind and namespace the operator serves.

  * `_build_key(raw_body)`: the uid if the object has one, else the surrogate
    `kind//apiVersion//name//namespace//creationTimestamp` (absent / empty parts as "-")            → `buildKey`
  * `recall(raw_body, …)`: `_items[key]` if known, else a new memory remembered under the key          → `Memories.get` + `C14.recall`
  * `forget(raw_body)`: `del _items[key]` (on the DELETED event)                                       → `Memories.put k none`
  * `process_resource_event` for SOME object of the operator: recall by the key, the pass, (forget)    → `stepAt` / `runAll`

  `runAll` is the whole operator process as far as resuming goes: the processed events of ALL its objects in the order
  they were processed, each with the view of the stored progress it carried. Nothing but the key connects an event
  with a memory; the theorems (Props/C14: `crowd_projection`, `completed_never_again_crowd`) say that what happens
  to the other keys never shows in an object's own history.

  The variant `runAllN` keeps, beside the items, an index "name → key of the latest incarnation" and drops the memory
  remembered earlier under the same name when a NEW key is remembered (`nameOf` says what a name is: seed C14h took
  (namespace, name), without the kind). Kept as the subject of the `…_witness` theorem.
  Core Lean only.
-/
import Kopf.Model.C14_Resume
namespace Kopf.C14
open Kopf

/-- What `_build_key` reads of an object. -/
structure Ident where
  uid : Option String
  kind : Option String
  apiVersion : Option String
  name : Option String
  ns : Option String
  created : Option String
  deriving DecidableEq, Repr

/-- `s or '-'` -/
def orDash : Option String → String
  | some s => if s == "" then "-" else s
  | none => "-"

/-- `'//'.join([s or '-' for s in [kind, apiVersion, name, namespace, creationTimestamp]])` -/
def surrogateKey (o : Ident) : String :=
  "//".intercalate [orDash o.kind, orDash o.apiVersion, orDash o.name, orDash o.ns, orDash o.created]

/-- `ResourceMemories._build_key` -/
def buildKey (o : Ident) : String :=
  match o.uid with
  | some u => if u == "" then surrogateKey o else u
  | none => surrogateKey o

/-- `ResourceMemories._items` -/
abbrev Memories := List (String × Mem)

/-- `_items.get(key)` -/
def Memories.get (M : Memories) (k : String) : Option Mem := List.lookup k M

/-- `_items[key] = memory` / `del _items[key]` -/
def Memories.put (M : Memories) (k : String) : Option Mem → Memories
  | none => M.filter (fun p => !(p.1 == k))
  | some m => (k, m) :: M.filter (fun p => !(p.1 == k))

/-- One processed event of one of the operator's objects: whose it is, the view of the stored progress it carries,
    and the event as the per-object model reads it. -/
structure Arrival where
  obj : Ident
  P : C02.Store
  e : Event

/-- One `process_resource_event` of the operator: the object's memory is looked up by its key, the per-object `step`
    runs on it, the memory is kept under the key (or forgotten after DELETED). `declsOf` = the handlers registered for
    the resource of the object remembered under the key. -/
def stepAt (declsOf : String → List Decl) (M : Memories) (a : Arrival) : Memories × List (C02.Id × Nat) :=
  let k := buildKey a.obj
  let r := step (declsOf k) (M.get k) a.P a.e
  (M.put k r.mem, r.invoked)

/-- The operator process: all processed events of all its objects, in the order of processing; the output names the
    key next to what was invoked. -/
def runAll (declsOf : String → List Decl) : Memories → List Arrival → List (String × List (C02.Id × Nat))
  | _, [] => []
  | M, a :: rest =>
      let r := stepAt declsOf M a
      (buildKey a.obj, r.2) :: runAll declsOf r.1 rest

/-- The events of the object remembered under `k`, with their views, in order. -/
def viewsOf (k : String) (as : List Arrival) : List (Event × C02.Store) :=
  (as.filter (fun a => buildKey a.obj == k)).map (fun a => (a.e, a.P))

/-- What was invoked for the object remembered under `k`, event by event. -/
def invokedOf (k : String) (out : List (String × List (C02.Id × Nat))) : List (List (C02.Id × Nat)) :=
  (out.filter (fun p => p.1 == k)).map (·.2)

/-! ### The variant with an index of names (seed C14h and its neighbours) -/

/-- The items plus `_names`: name → the key of the latest incarnation remembered under that name. -/
structure Indexed where
  items : Memories
  names : List (String × String)

/-- `_supersede(raw_body, key)`, called by `recall` when it remembers a NEW key: the memory remembered earlier under
    the same name with another key is dropped; the index points to the new key. A known key never comes here. -/
def Indexed.supersede (nameOf : Ident → Option String) (S : Indexed) (o : Ident) : Indexed :=
  let k := buildKey o
  match S.items.get k with
  | some _ => S
  | none =>
      match nameOf o with
      | none => S
      | some nm =>
          let items := match List.lookup nm S.names with
            | some stale => if stale == k then S.items else S.items.put stale none
            | none => S.items
          { items := items, names := (nm, k) :: S.names.filter (fun p => !(p.1 == nm)) }

/-- `forget` of the variant: the index entry goes with the memory if it points to this key. -/
def Indexed.forgetName (nameOf : Ident → Option String) (S : Indexed) (o : Ident) : Indexed :=
  match nameOf o with
  | none => S
  | some nm => if List.lookup nm S.names == some (buildKey o) then { S with names := S.names.filter (fun p => !(p.1 == nm)) } else S

def runAllN (nameOf : Ident → Option String) (declsOf : String → List Decl) :
    Indexed → List Arrival → List (String × List (C02.Id × Nat))
  | _, [] => []
  | S, a :: rest =>
      let k := buildKey a.obj
      let S1 := S.supersede nameOf a.obj
      -- (a memory dropped by `supersede` is not this object's: the key is looked up in what is left)
      let r := step (declsOf k) (S1.items.get k) a.P a.e
      let S2 : Indexed := { S1 with items := S1.items.put k r.mem }
      let S3 := if a.e.deleted then S2.forgetName nameOf a.obj else S2
      (k, r.invoked) :: runAllN nameOf declsOf S3 rest

/-- the name as seed C14h reads it: (namespace, name), whatever the kind -/
def nsName (o : Ident) : Option String :=
  match o.name with
  | some n => if n == "" then none else some (orDash o.ns ++ "/" ++ n)
  | none => none

end Kopf.C14
