/-
  C04 — model of the essence extraction:
    `DiffBaseStorage.build` (+ the overrides in Annotations/Status/Multi diff-base storages),
    `ProgressStorage.clear` (Annotations/Status/NoWriteStatus/Multi/Smart),
    `StorageKeyMarkingConvention._detect_marked_prefixes`,
    `StorageKeyFormingConvention.make_keys` (+ `make_edged_name`, `CollisionEvadingConvention.mark_key`),
    `StorageStanzaCleaner.remove_annotations / remove_empty_stanzas`, `dicts.cherrypick`.

  Since kopf 571b1b2 a handler's field (and a status storage's own field) hidden behind a non-mapping value is an
  absent field: `cherrypickSkip` (the guarded restoring loop of `build`) and `ignoreFields e [field]` /
  `ignoreFields e [field, touch]` (the guarded removals of StatusDiffBaseStorage.build / StatusProgressStorage.clear).
  The two implicit picks (`metadata.labels`, `metadata.annotations`) stay one unguarded `cherrypick`.

  Errors the code raises are part of the result (`Err`). Inputs the model does not describe
  (`metadata.annotations` present but not a mapping, malformed `ownerReferences`, a missing blake2b
  value in the passed-in hash table) answer `unmodelled` — never a default.
-/
import Kopf.Base.J
import Kopf.Base.Merge
namespace Kopf.C04
open Kopf Kopf.J

inductive Err where
  | typeError | keyError | valueError | unmodelled
  deriving DecidableEq, Repr

def ofDictErr : DictErr → Err
  | .typeError => .typeError
  | .keyError => .keyError
  | .valueError => .valueError

def liftD {α} : Except DictErr α → Except Err α
  | .ok a => .ok a
  | .error e => .error (ofDictErr e)

/-! ### naming conventions (conventions.py) -/

/-- `key.split('/', 1)` for a key that contains `/`; `none` when it does not. -/
def splitSlash : List Char → Option (List Char × List Char)
  | [] => none
  | c :: cs =>
      if c = '/' then some ([], cs)
      else match splitSlash cs with
        | some (p, n) => some (c :: p, n)
        | none => none

def knownMarkers : List String := ["kopf-managed"]
def knownPrefixes : List String := ["kopf.zalando.org"]
def lastApplied : String := "kubectl.kubernetes.io/last-applied-configuration"

/-- one iteration of `_detect_marked_prefixes`: the prefix this key marks, if any. -/
def markedPrefix? (key : String) : Option (List Char) :=
  match splitSlash key.toList with
  | none => none
  | some (p, n) =>
      if knownMarkers.any (fun m => m.toList == n) then some p
      else if knownPrefixes.any (fun kp => kp.toList == p) then some p
      else if knownPrefixes.any (fun kp => ('.' :: kp.toList).isSuffixOf p) then some p
      else none

def markedPrefixes (keys : List String) : List (List Char) := keys.filterMap markedPrefix?

/-- `annotation.startswith(f'{prefix}/')` -/
def underPrefix (p : List Char) (key : String) : Bool := (p ++ ['/']).isPrefixOf key.toList

/-- the `del annotations[annotation]` loop of `DiffBaseStorage.build`: which keys stay. -/
def keepAnnotation (prefixes : List (List Char)) (key : String) : Bool :=
  !(prefixes.any (fun p => underPrefix p key)) && key != lastApplied

/-- `make_safe_key`: `/`→`.`, `<`→`_`, `>`→`_`, `:`→`_` (the last since kopf f95b306). -/
def safeKey (s : List Char) : List Char :=
  s.map (fun c => if c = '/' then '.' else if c = '<' then '_' else if c = '>' then '_' else if c = ':' then '_' else c)

/-- Python `s[:n]` for a possibly negative `n`. -/
def pySliceTo (s : List Char) (n : Int) : List Char :=
  if n ≥ 0 then s.take n.toNat else s.take (s.length - (-n).toNat)

abbrev Hashes := List (String × String)

/-- `make_suffix(key)`: blake2b is passed in as a table. -/
def suffixOf (h : Hashes) (key : List Char) : Except Err (List Char) :=
  match h.find? (fun kv => kv.1.toList == key) with
  | some kv => .ok kv.2.toList
  | none => .error .unmodelled

/-- `_is_alnum` of `make_edged_name`: `c.isascii() and c.isalnum()` (`Char.isAlphanum` is ASCII-only). -/
def headAlnum : List Char → Bool
  | [] => false
  | c :: _ => c.isAlphanum

def lastAlnum (s : List Char) : Bool :=
  match s.getLast? with
  | none => false
  | some c => c.isAlphanum

/-- `make_edged_name(name, key=key, max_length=maxLen)` (kopf c2cffd8), statement by statement: a name
    that begins and ends with an ASCII alphanumeric is returned untouched; otherwise the empty name
    becomes `x`, a bad first / last character is replaced by `x`, and — unless the name already ends
    with the hash suffix of the id or of its safe form — it is cut to `max(1, max_length - len(suffix))`
    characters and the suffix of the ORIGINAL id is appended. -/
def edgedName (h : Hashes) (name key : List Char) (maxLen : Int) : Except Err (List Char) :=
  if headAlnum name && lastAlnum name then pure name else do
  let n0 := if name.isEmpty then ['x'] else name
  let n1 := if headAlnum n0 then n0 else 'x' :: n0.tail
  let n2 := if lastAlnum n1 then n1 else n1.dropLast ++ ['x']
  let suffix ← suffixOf h key
  let suffix2 ← suffixOf h (safeKey key)
  if suffix.isSuffixOf n2 || suffix2.isSuffixOf n2 then pure n2
  else pure (n2.take (max 1 (maxLen - (suffix.length : Int))).toNat ++ suffix)

def makeV2Key (h : Hashes) (prefix_ key : List Char) : Except Err (List Char) := do
  let suffix ← if key.length > 63 then suffixOf h key else pure []
  let keyLimit := 63 - suffix.length      -- Nat subtraction = max(0, …)
  let name ← edgedName h ((safeKey key).take keyLimit ++ suffix) key 63
  pure (prefix_ ++ ['/'] ++ name)

def makeV1Key (h : Hashes) (prefix_ key : List Char) : Except Err (List Char) := do
  let safe := safeKey key
  let pfx := prefix_ ++ ['/']
  let suffix ← if (safe.length : Int) ≤ 63 - (pfx.length : Int) then pure [] else suffixOf h safe
  let name ← edgedName h (pySliceTo safe (63 - (pfx.length : Int) - (suffix.length : Int)) ++ suffix) key
    (63 - (pfx.length : Int))
  pure (pfx ++ name)

/-- `make_keys(key)` after marking: V2 first, then V1 when enabled, when it can fit at all
    (`len(prefix + '/') + len(make_suffix('')) < 63`, kopf e916847) and when different. -/
def makeKeys (h : Hashes) (v1 : Bool) (prefix_ key : List Char) : Except Err (List String) := do
  let k2 ← makeV2Key h prefix_ key
  if v1 then
    let sfx0 ← suffixOf h []
    if prefix_.length + 1 + sfx0.length < 63 then
      let k1 ← makeV1Key h prefix_ key
      if k1 == k2 then pure [String.ofList k2] else pure [String.ofList k2, String.ofList k1]
    else pure [String.ofList k2]
  else pure [String.ofList k2]

/-- the condition of `CollisionEvadingConvention.mark_key`. -/
def anyDeployment : List J → Except Err Bool
  | [] => .ok false
  | .obj o :: rest =>
      match lookup "kind" o with
      | some k => if pyEq k (.str "Deployment") then .ok true else anyDeployment rest
      | none => .error .unmodelled       -- KeyError in the generator expression: not described
  | _ :: _ => .error .unmodelled

/-- `kind == 'ReplicaSet' and any(owner['kind'] == 'Deployment' for owner in owners)`. -/
def drsOf (kd : Option J) (oref : Option J) : Except Err Bool :=
  match kd with
  | some (.str "ReplicaSet") =>
      (match oref with
       | none => .ok false
       | some (.arr owners) => anyDeployment owners
       | some _ => .error .unmodelled)
  | _ => .ok false

/-- `owners = body.meta.get('ownerReferences', [])` is read first (a non-mapping `metadata` is a
    TypeError whatever the kind), then the kind decides. -/
def isDRS (body : J) : Except Err Bool :=
  match body.get? "metadata" with
  | some (.obj m) => drsOf (body.get? "kind") (lookup "ownerReferences" m)
  | none => drsOf (body.get? "kind") none
  | some _ => .error .typeError

def markKey (body : J) (key : List Char) : Except Err (List Char) := do
  if ← isDRS body then pure (key ++ "-ofDRS".toList) else pure key

/-- the annotation names an annotations storage (prefix, v1) uses for the record `key` on `body`:
    `make_keys(key, body=body)` = `mark_key` then V2/V1 forming. A function of its arguments only:
    the storage object carries no state from the objects it served before. -/
def keysFor (h : Hashes) (v1 : Bool) (prefix_ key : String) (body : J) : Except Err (List String) := do
  let k ← markKey body key.toList
  makeKeys h v1 prefix_.toList k

/-- one storage serving a sequence of bodies: the i-th answer. -/
def serveSeq (h : Hashes) (v1 : Bool) (prefix_ key : String) (bodies : List J) : List (Except Err (List String)) :=
  bodies.map (keysFor h v1 prefix_ key)

/-! ### the marker the storages write (`StorageKeyMarkingConvention._store_marker`) -/

/-- the prefix is `kopf.zalando.org` or a sub-domain of it (the two last rules of
    `_detect_marked_prefixes`): such a prefix is marked by every key under it. -/
def knownish (p : List Char) : Bool :=
  knownPrefixes.any (fun kp => kp.toList == p) || knownPrefixes.any (fun kp => ('.' :: kp.toList).isSuffixOf p)

/-- `prefix and not known` (kopf ef55390): the marker is skipped exactly for the prefixes that
    `_detect_marked_prefixes` recognises without it. -/
def writesMarker (prefix_ : String) : Bool := prefix_ != "" && !knownish prefix_.toList

def markerKey (prefix_ : String) : String := prefix_ ++ "/kopf-managed"

/-- `_store_marker(prefix, patch, body)` on the annotations of the body and of the patch being built:
    every `store`/`touch` of an annotations storage ends with it. -/
def storeMarker (prefix_ : String) (bodyAnn patchAnn : List (String × J)) : List (String × J) :=
  if writesMarker prefix_ && !(keys bodyAnn).contains (markerKey prefix_) && !(keys patchAnn).contains (markerKey prefix_)
  then insert (markerKey prefix_) (.str "yes") patchAnn
  else patchAnn

/-- the raw last-handled value `AnnotationsDiffBaseStorage.fetch` finds (before `json.loads`): the
    first of the keys formed for this body that is present and not null. -/
def fetchRaw (ks : List String) (anns : List (String × J)) : Option J :=
  ks.findSome? (fun k => match lookup k anns with
    | some .null => none
    | o => o)

/-! ### dict helpers -/

/-- `dicts.resolve(d, path)` without a default. -/
def resolveE : J → List String → Except Err J
  | j, [] => .ok j
  | .obj kvs, k :: ks =>
      match lookup k kvs with
      | some v => resolveE v ks
      | none => .error .keyError
  | _, _ :: _ => .error .typeError

/-- `dicts.cherrypick(src, dst, fields, picker=deepcopy)`. -/
def cherrypick (src : J) : J → List (List String) → Except Err J
  | dst, [] => .ok dst
  | dst, f :: fs =>
      match resolveE src f with
      | .ok v => do
          let dst' ← liftD (ensure dst f v)
          cherrypick src dst' fs
      | .error .keyError => cherrypick src dst fs
      | .error e => .error e

/-- the restoring loop of `DiffBaseStorage.build` since kopf 571b1b2:
      `for extra_field in extra_fields: try: dicts.cherrypick(src, dst, fields=[extra_field]) except TypeError: pass`
    — field by field; a field hidden behind a non-mapping value (of the body: `resolve` raises; of the essence
    so far: `ensure` raises, before it has written anything) is skipped like an absent one. -/
def cherrypickSkip (src : J) : J → List (List String) → Except Err J
  | dst, [] => .ok dst
  | dst, f :: fs =>
      match cherrypick src dst [f] with
      | .ok dst' => cherrypickSkip src dst' fs
      | .error .typeError => cherrypickSkip src dst fs       -- `except TypeError: pass`
      | .error e => .error e

/-- `essence.get('metadata', {}).get(name)` when `metadata` is a mapping. -/
def metaGet (e : J) (name : String) : Option J :=
  match e.get? "metadata" with
  | some (.obj m) => lookup name m
  | _ => none

def metaSet (e : J) (name : String) (v : J) : J :=
  match e with
  | .obj kvs =>
      match lookup "metadata" kvs with
      | some (.obj m) => .obj (insert "metadata" (.obj (insert name v m)) kvs)
      | _ => e
  | _ => e

def metaDel (e : J) (name : String) : J :=
  match e with
  | .obj kvs =>
      match lookup "metadata" kvs with
      | some (.obj m) => .obj (insert "metadata" (.obj (erase name m)) kvs)
      | _ => e
  | _ => e

def dropIfFalsy (e : J) (name : String) : J :=
  match e with
  | .obj kvs =>
      match lookup name kvs with
      | some v => if v.truthy then e else .obj (erase name kvs)
      | none => e
  | _ => e

def metaDropIfFalsy (e : J) (name : String) : J :=
  match metaGet e name with
  | some v => if v.truthy then e else metaDel e name
  | none => e

/-- `StorageStanzaCleaner.remove_empty_stanzas` (for an essence whose `metadata` is absent or a
    mapping — `metaOK`). -/
def removeEmptyStanzas (e : J) : J :=
  dropIfFalsy (dropIfFalsy (metaDropIfFalsy (metaDropIfFalsy e "annotations") "labels") "metadata") "status"

/-- `metadata` absent or a mapping; `metadata.annotations` absent or a mapping. -/
def metaOK (e : J) : Bool :=
  match e with
  | .obj kvs =>
      match lookup "metadata" kvs with
      | none => true
      | some (.obj m) =>
          (match lookup "annotations" m with
           | none => true
           | some (.obj _) => true
           | some _ => false)
      | some _ => false
  | _ => false

/-- keep only the annotations that satisfy `keep` (in place). -/
def filterAnnotations (keep : String → Bool) (e : J) : J :=
  match metaGet e "annotations" with
  | some (.obj anns) => metaSet e "annotations" (.obj (anns.filter (fun kv => keep kv.1)))
  | _ => e

/-- `StorageStanzaCleaner.remove_annotations(essence, keys)` -/
def removeAnnotations (keys : List String) (e : J) : J :=
  filterAnnotations (fun k => !keys.contains k) e

/-! ### DiffBaseStorage.build -/

def ignoreFields : J → List (List String) → Except Err J
  | e, [] => .ok e
  | e, f :: fs =>
      match remove e f with
      | .ok e' => ignoreFields e' fs
      | .error .typeError => ignoreFields e fs      -- `except TypeError: pass`
      | .error x => .error (ofDictErr x)

/-- `DiffBaseStorage.build(body, extra_fields)` of the base class (the two implicit picks of
    `metadata.labels` / `metadata.annotations` are ONE unguarded `dicts.cherrypick`; the handlers' fields are
    restored by the guarded loop `cherrypickSkip`). -/
def baseBuild (ignored extra : List (List String)) (body : J) : Except Err J :=
  match body with
  | .obj kvs => do
      let e0 := J.obj (erase "status" (erase "metadata" (erase "kind" (erase "apiVersion" kvs))))
      let e1 ← cherrypick body e0 [["metadata", "labels"], ["metadata", "annotations"]]
      if !metaOK e1 then throw .unmodelled
      let prefixes := match metaGet e1 "annotations" with
        | some (.obj anns) => markedPrefixes (keys anns)
        | _ => []
      let e2 := filterAnnotations (keepAnnotation prefixes) e1
      let e3 ← cherrypickSkip body e2 extra
      if !metaOK e3 then throw .unmodelled
      let e4 := removeEmptyStanzas e3
      ignoreFields e4 ignored
  | _ => .error .unmodelled

inductive DiffBaseLeaf where
  | annotations (prefix_ key : String) (v1 : Bool) (ignored : List (List String))
  | status (field : List String) (ignored : List (List String))

inductive DiffBaseCfg where
  | leaf (l : DiffBaseLeaf)
  | multi (ls : List DiffBaseLeaf)

def leafBuild (h : Hashes) (extra : List (List String)) (body : J) : DiffBaseLeaf → Except Err J
  | .annotations prefix_ key v1 ignored => do
      let e ← baseBuild ignored extra body
      let k ← markKey body key.toList
      let ks ← makeKeys h v1 prefix_.toList k
      if !metaOK e then throw .unmodelled
      pure (removeEmptyStanzas (removeAnnotations ks e))
  | .status field ignored => do
      let e ← baseBuild ignored extra body
      -- `try: dicts.remove(essence, self.field) except TypeError: pass` (kopf 571b1b2) — the very step of `ignoreFields`
      ignoreFields e [field]

/-- `body['metadata']['ownerReferences']` if `metadata` is a mapping that has it. -/
def ownerRefs (body : J) : Option J :=
  match body.get? "metadata" with
  | some (.obj m) => lookup "ownerReferences" m
  | _ => none

/-- `pseudo.get('metadata', {})` as bindings (the essence's `metadata` is a mapping or absent). -/
def metaKvs (kvs : List (String × J)) : List (String × J) :=
  match lookup "metadata" kvs with
  | some (.obj mm) => mm
  | _ => []

def withKind (body : J) (kvs : List (String × J)) : List (String × J) :=
  match body.get? "kind" with
  | some k => insert "kind" k kvs
  | none => kvs

def withOwners (body : J) (kvs : List (String × J)) : List (String × J) :=
  match ownerRefs body with
  | some o => insert "metadata" (.obj (insert "ownerReferences" o (metaKvs kvs))) kvs
  | none => kvs

/-- the `pseudo` body of `MultiDiffBaseStorage.build` (since kopf 55b75e2): the essence so far, plus
    the two fields of the real body that decide the annotation names (`kind`,
    `metadata.ownerReferences` — see `CollisionEvadingConvention.mark_key`). -/
def pseudoBody (body e : J) : J :=
  match e with
  | .obj kvs => .obj (withOwners body (withKind body kvs))
  | e => e

def multiBuild (h : Hashes) (extra : List (List String)) (body : J) : J → List DiffBaseLeaf → Except Err J
  | e, [] => .ok e
  | e, l :: ls => do
      let e' ← leafBuild h extra (pseudoBody body e) l
      multiBuild h extra body e' ls

def diffbaseBuild (h : Hashes) (extra : List (List String)) (body : J) : DiffBaseCfg → Except Err J
  | .leaf l => leafBuild h extra body l
  | .multi ls => do
      let e ← baseBuild [] extra body
      multiBuild h extra body e ls

/-! ### ProgressStorage.clear -/

inductive ProgressLeaf where
  | annotations (prefix_ : String)
  | status (field touch : List String)  -- (NoWrite)StatusProgressStorage: `field`, `touch_field`

/-- Multi/Smart are lists; a single storage is a one-element list. -/
abbrev ProgressCfg := List ProgressLeaf

/-- `dicts.remove(essence, self.field); dicts.remove(essence, self.touch_field)` (kopf dbb523b) — the variant BEFORE
    kopf 571b1b2 (a TypeError of either removal was raised); kept for the regression theorem
    `hidden_status_field_raised_witness`. -/
def remove2 (e : J) (field touch : List String) : Except DictErr J := do
  let e1 ← remove e field
  remove e1 touch

def clearLeaf (e : J) : ProgressLeaf → Except Err J
  | .annotations prefix_ =>
      if !metaOK e then .error .unmodelled else
      .ok (removeEmptyStanzas (filterAnnotations (fun k => !underPrefix prefix_.toList k) e))
  | .status field touch => do
      -- `for field in (self.field, self.touch_field): try: dicts.remove(essence, field) except TypeError: pass` (kopf 571b1b2)
      let e' ← ignoreFields e [field, touch]
      if !metaOK e' then throw .unmodelled
      pure (removeEmptyStanzas e')

def progressClear : J → ProgressCfg → Except Err J
  | e, [] => .ok e
  | e, l :: ls => do
      let e' ← clearLeaf e l
      progressClear e' ls

structure Cfg where
  diffbase : DiffBaseCfg
  progress : ProgressCfg
  hashes : Hashes

/-- what `_detect_causes` calls `new`: `progress_storage.clear(diffbase_storage.build(body, extra))`. -/
def essence (cfg : Cfg) (extra : List (List String)) (body : J) : Except Err J := do
  let e ← diffbaseBuild cfg.hashes extra body cfg.diffbase
  progressClear e cfg.progress

end Kopf.C04
