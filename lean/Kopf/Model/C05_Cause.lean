/-
  C05 model — `causes.detect_changing_cause`, the `ChangingRegistry.iter_handlers` gate and the
  `HANDLER_REASONS` gate of `process_changing_cause`. Core Lean only.
-/
namespace Kopf.C05

inductive Reason where
  | create | update | delete | resume | noop | free | gone
  deriving DecidableEq, Repr, Inhabited

/-- The six facts `detect_changing_cause` reads. -/
structure In where
  deleted : Bool       -- raw_event['type'] == 'DELETED'
  marked : Bool        -- metadata.deletionTimestamp is set
  blocked : Bool       -- the framework's finalizer is in metadata.finalizers
  oldAbsent : Bool     -- no last-handled essence stored (`old is None`)
  diffNonEmpty : Bool  -- `bool(diff)`
  initial : Bool       -- noticed by listing and not yet fully handled once
  deriving DecidableEq, Repr

/-- The produced cause, as far as handler selection reads it. -/
structure Cause where
  reason : Reason
  initial : Bool       -- `cause.initial` (forced to False for creation)
  marked : Bool        -- `cause.deleted` property = deletion is ongoing
  deriving DecidableEq, Repr

def detectReason (i : In) : Reason :=
  if i.deleted then .gone
  else if i.marked && !i.blocked then .free
  else if i.marked then .delete
  else if i.oldAbsent then .create
  else if !i.diffNonEmpty && i.initial then .resume
  else if !i.diffNonEmpty then .noop
  else .update

def detect (i : In) : Cause :=
  let r := detectReason i
  { reason := r, initial := if r = .create then false else i.initial, marked := i.marked }

/-- `causes.HANDLER_REASONS` -/
def handlerReasons : List Reason := [.create, .update, .delete, .resume]

/-- What the gate reads of a TOP-LEVEL changing handler (one built by a `kopf.on` decorator): for those,
    "no cause kind and not resuming" means `@kopf.on.field`. Used by the C14/C03 models, whose handler
    declarations are top-level only. The general shape (sub-handlers included) is `Shape` below; `gate`
    is `gateS` on `Handler.shape` (`gate_eq_shape` in Props). -/
structure Handler where
  reason : Option Reason   -- None for on.resume / on.field
  initial : Bool           -- on.resume
  deletedOptIn : Bool      -- on.resume(deleted=True)
  deriving DecidableEq, Repr

/-- `ChangingRegistry.iter_handlers` before `match()` (filters are C15), for top-level handlers. -/
def gate (h : Handler) (c : Cause) : Bool :=
  (h.reason == none || h.reason == some c.reason) &&
  !(h.initial && !c.initial) &&
  !(h.initial && c.marked && !h.deletedOptIn) &&
  !(h.reason == none && !h.initial && c.marked)      -- field handlers are for updates only (/repo 345a874)

/-- A top-level changing handler can be invoked in a cycle only if both gates let it through. -/
def invocable (h : Handler) (i : In) : Bool :=
  let c := detect i
  handlerReasons.contains c.reason && gate h c

/-! ### The gate as the code has it: every `ChangingHandler`, sub-handlers included -/

/-- What the gate reads of any changing handler.
    `needsChange` = `bool(handler.field_needs_change)`: true for `@kopf.on.update` / `@kopf.on.field`
    (and for the `@kopf.subhandler` / `kopf.register` sub-handlers of those, which inherit it), false/None
    for everything else, in particular for all sub-handlers of creation/deletion/resuming handlers and for
    those made by `kopf.execute(fns=...)`. -/
structure Shape where
  reason : Option Reason   -- None for on.resume / on.field / every sub-handler
  initial : Bool           -- on.resume
  deletedOptIn : Bool      -- on.resume(deleted=True)
  needsChange : Bool       -- on.update / on.field (+ inherited by their sub-handlers)
  deriving DecidableEq, Repr

/-- `ChangingRegistry.iter_handlers` before `match()` (filters are C15). -/
def gateS (h : Shape) (c : Cause) : Bool :=
  (h.reason == none || h.reason == some c.reason) &&
  !(h.initial && !c.initial) &&
  !(h.initial && c.marked && !h.deletedOptIn) &&
  -- field handlers are for updates only (/repo 345a874); sub-handlers (no change needed) are of their
  -- parent's kind and pass (/repo 17e5c42)
  !(h.reason == none && !h.initial && h.needsChange && c.marked)

/-- The gate as it was between /repo 345a874 and 17e5c42 (kept as the regression witness's subject):
    every reason-less non-resuming handler was skipped on a marked object — the sub-handlers too. -/
def gateOld (h : Shape) (c : Cause) : Bool :=
  (h.reason == none || h.reason == some c.reason) &&
  !(h.initial && !c.initial) &&
  !(h.initial && c.marked && !h.deletedOptIn) &&
  !(h.reason == none && !h.initial && c.marked)

/-- A changing handler can be invoked in a cycle only if both gates let it through. -/
def invocableS (h : Shape) (i : In) : Bool :=
  let c := detect i
  handlerReasons.contains c.reason && gateS h c

/-- The shape of a top-level handler: `field_needs_change` is set by on.update and on.field only. -/
def Handler.shape (h : Handler) : Shape :=
  { reason := h.reason, initial := h.initial, deletedOptIn := h.deletedOptIn,
    needsChange := h.reason == some .update || (h.reason == none && !h.initial) }

/-! ### Sub-handlers
  `subhandling.execute` runs inside the parent handler's invocation, with the parent's cause
  (`execution.cause_var`), and selects from its sub-registry with the same `iter_handlers`. -/

/-- What `kopf.execute(fns=...)` builds: `reason=None, initial=None, deleted=None, field_needs_change=None`. -/
def plainSub : Shape := { reason := none, initial := false, deletedOptIn := false, needsChange := false }

/-- What `@kopf.subhandler()` / `kopf.register()` build under parent `p`: the same, but
    `field_needs_change=parent_handler.field_needs_change`. -/
def subOf (p : Shape) : Shape :=
  { reason := none, initial := false, deletedOptIn := false, needsChange := p.needsChange }

/-- The handler shapes the decorators of `kopf.on` build (reason, initial, deleted opt-in, needs-change):
    on.create, on.update, on.delete, on.resume(deleted=False/True), on.field. -/
def decorated (h : Shape) : Bool :=
  h == ⟨some .create, false, false, false⟩ || h == ⟨some .update, false, false, true⟩ ||
  h == ⟨some .delete, false, false, false⟩ ||
  h == ⟨none, true, false, false⟩ || h == ⟨none, true, true, false⟩ ||
  h == ⟨none, false, false, true⟩

/-- What all constructible handlers have in common (decorated ones, and sub-handlers at any depth):
    only update-kind handlers need a change of their field — on.update, or reason-less non-resuming
    ones (on.field and the inheriting sub-handlers of on.update/on.field). -/
def wellFormed (h : Shape) : Bool :=
  !h.needsChange || h.reason == some .update || (h.reason == none && !h.initial)

/-- A sub-handler `s` of parent `p` can be invoked in a cycle only if the parent is invoked in that cycle
    and the gate lets `s` through for the same cause. -/
def subInvocable (p s : Shape) (i : In) : Bool :=
  invocableS p i && gateS s (detect i)

/-! ### Between detection and handling: `process_resource_causes`
  `process_resource_causes` calls `_detect_causes`, then dedicates the cycle to the framework's finalizer —
  `changing_cause = None`: no change handler runs — when the finalizer is to be added (required by a matching
  mandatory deletion handler, daemon or timer; absent; the object not marked) or removed (not required, present);
  otherwise (the view being consistent, the object pre-matching some handler) it calls
  `process_changing_cause`. `mustBlock` = `deletion_must_be_blocked`. -/

/-- The cycle only adds / removes the framework's finalizer. -/
def finalizerCycle (i : In) (mustBlock : Bool) : Bool :=
  (mustBlock && !i.blocked && !i.marked) || (!mustBlock && i.blocked)

/-- A changing handler can be invoked in a cycle of `process_resource_causes`. -/
def invocableRC (h : Shape) (i : In) (mustBlock : Bool) : Bool :=
  !finalizerCycle i mustBlock && invocableS h i

/-- … and a sub-handler `s` of parent `p`. -/
def subInvocableRC (p s : Shape) (i : In) (mustBlock : Bool) : Bool :=
  invocableRC p i mustBlock && gateS s (detect i)

end Kopf.C05
