/-
  C05 model — `causes.detect_changing_cause`, the `ChangingRegistry.iter_handlers` gate and the
  `HANDLER_REASONS` gate of `process_changing_cause`. Core Lean only.
-/
namespace Kopf.C05

inductive Reason where
  | create | update | delete | resume | noop | free | gone
  deriving DecidableEq, Repr, Inhabited

/-- The six facts `detect_changing_cause` reads. -/
structure In where
  deleted : Bool       -- raw_event['type'] == 'DELETED'
  marked : Bool        -- metadata.deletionTimestamp is set
  blocked : Bool       -- the framework's finalizer is in metadata.finalizers
  oldAbsent : Bool     -- no last-handled essence stored (`old is None`)
  diffNonEmpty : Bool  -- `bool(diff)`
  initial : Bool       -- noticed by listing and not yet fully handled once
  deriving DecidableEq, Repr

/-- The produced cause, as far as handler selection reads it. -/
structure Cause where
  reason : Reason
  initial : Bool       -- `cause.initial` (forced to False for creation)
  marked : Bool        -- `cause.deleted` property = deletion is ongoing
  deriving DecidableEq, Repr

def detectReason (i : In) : Reason :=
  if i.deleted then .gone
  else if i.marked && !i.blocked then .free
  else if i.marked then .delete
  else if i.oldAbsent then .create
  else if !i.diffNonEmpty && i.initial then .resume
  else if !i.diffNonEmpty then .noop
  else .update

def detect (i : In) : Cause :=
  let r := detectReason i
  { reason := r, initial := if r = .create then false else i.initial, marked := i.marked }

/-- `causes.HANDLER_REASONS` -/
def handlerReasons : List Reason := [.create, .update, .delete, .resume]

/-- What the gate reads of a changing handler. -/
structure Handler where
  reason : Option Reason   -- None for on.resume / on.field
  initial : Bool           -- on.resume
  deletedOptIn : Bool      -- on.resume(deleted=True)
  deriving DecidableEq, Repr

/-- `ChangingRegistry.iter_handlers` before `match()` (filters are C15). -/
def gate (h : Handler) (c : Cause) : Bool :=
  (h.reason == none || h.reason == some c.reason) &&
  !(h.initial && !c.initial) &&
  !(h.initial && c.marked && !h.deletedOptIn) &&
  !(h.reason == none && !h.initial && c.marked)      -- field handlers are for updates only (/repo 345a874)

/-- A changing handler can be invoked in a cycle only if both gates let it through. -/
def invocable (h : Handler) (i : In) : Bool :=
  let c := detect i
  handlerReasons.contains c.reason && gate h c

end Kopf.C05
