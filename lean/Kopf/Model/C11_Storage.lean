/-
  C11 model, part 2 — WHERE the progress record of a handler lives on the object and how it is read
  back: `kopf/_cogs/configs/progress.py`, `MultiProgressStorage` (the base of the default
  `SmartProgressStorage` = annotations read-write + the legacy status field read-only).

  * `fetch`: the storages are asked in their configured order, the record of the FIRST one that has it
    is returned whole (docs/configuration.rst: "the first found state will be used when reading, i.e.
    the first storage has precedence") — `multiFetch`;
  * `store`: every storage that writes gets the record (`NoWriteStatusProgressStorage.store` is a no-op:
    the place keeps whatever it holds — a leftover of an older release / of a previous configuration) —
    `multiStore`.

  `runPlaces fetch` is `run` (C11_Errors) with the record kept in such places and every cycle reading it
  through `fetch`; `mergedFetch` is the variant that combines the records of all places
  (`{**record, **content}` in the storages' order: the later, lower-priority place overrides).
  Core Lean only.
-/
import Kopf.Model.C11_Errors
namespace Kopf.C11

/-- `MultiProgressStorage.fetch` over the places' contents in the configured order. -/
def multiFetch : List (Option Stored) → Option Stored
  | [] => none
  | some s :: _ => some s
  | none :: rest => multiFetch rest

/-- `{**lo, **hi}` on stored records (absent fields are not stored: they do not override). -/
def Stored.over (lo hi : Stored) : Stored :=
  { started := match hi.started with | some v => some v | none => lo.started
    stopped := match hi.stopped with | some v => some v | none => lo.stopped
    delayed := match hi.delayed with | some v => some v | none => lo.delayed
    retries := match hi.retries with | some v => some v | none => lo.retries
    success := match hi.success with | some v => some v | none => lo.success
    failure := match hi.failure with | some v => some v | none => lo.failure }

/-- The variant: the record "completed" from all places, later places overriding earlier ones. -/
def mergedFetch (ps : List (Option Stored)) : Option Stored :=
  ps.foldl (fun acc p => match acc, p with
    | a, none => a
    | none, some c => some c
    | some a, some c => some (a.over c)) none

/-- `MultiProgressStorage.store`: a place is (writes?, content). -/
def multiStore (s : Stored) : List (Bool × Option Stored) → List (Bool × Option Stored)
  | [] => []
  | (w, p) :: rest => (w, if w then some s else p) :: multiStore s rest

def contents (ps : List (Bool × Option Stored)) : List (Option Stored) := ps.map (·.2)

/-- `State.from_storage(...).with_handlers(...)` through the reading rule `fetch`. -/
def readPlaces (fetch : List (Option Stored) → Option Stored) (ps : List (Bool × Option Stored)) (t : Int) : Rec :=
  match fetch (contents ps) with
  | some s => fromStorage s t
  | none => fromScratch t

/-- `run` with the record kept in places: every cycle reads through `fetch`, an executed cycle stores
    its record into every writing place; restarts keep the object as it is. -/
def runPlaces (fetch : List (Option Stored) → Option Stored) (env : Env) (l : Limits) :
    Int → List (Bool × Option Stored) → List Step → List Ev
  | _, _, [] => []
  | now, ps, .restart dn :: rest => .restarted (now + dn) :: runPlaces fetch env l (now + dn) ps rest
  | now, ps, .cycle dt wait x dur lag :: rest =>
      let t := now + dt
      let r := readPlaces fetch ps t
      if r.awakened t then
        let a := attemptAt env l (t + wait) r x dur lag
        .att a :: runPlaces fetch env l a.merged (multiStore (toStorage a.recAfter) ps) rest
      else
        .idle t r.finished :: runPlaces fetch env l t ps rest

end Kopf.C11
