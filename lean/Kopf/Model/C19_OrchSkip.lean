/-
  C19 model, part 7 — a VARIANT of `orchestration.orchestrator` (not the code as it is): the orchestrator
  that remembers for which insights it made its last pass and skips the wake-ups that bring nothing new.

      async with insights.revised:
          served = None
          while True:
              await insights.revised.wait()
              revised = snapshot(insights)         # watched/indexed/peering resources, namespaces
              if revised == served:
                  continue                         # `skip`: back into wait(), no adjust_tasks
              served = revised
              await adjust_tasks(...)

  It looks like an optimisation — the observers notify on EVERY event of every CRD and every namespace,
  and most of them change nothing — but `adjust_tasks` does not depend on the insights alone: it is the only
  place where a watcher that has exited on its own (`task.done()`, HTTP 404 while its CRD was away) is found
  and replaced. The variant exists to show (Props/C19 `skip_noop_revisions_witness`) that the code's
  unconditional pass after every wake-up is load-bearing: `any_revision_heals` is false of the variant.

  The state is the real orchestrator's (`Orch.State`) plus the remembered snapshot; the labels are the real
  ones plus `skip`. `acquire` (the start of a pass) is enabled only when the snapshot differs.
  Core Lean only.
-/
import Kopf.Model.C19_Orchestrator
namespace Kopf.C19.OrchSkip
open Kopf.C19.Ens

structure State where
  base : Orch.State
  last : Option Insights      -- `served`: the insights the last pass was made for
  deriving Repr

inductive Label where
  | obs (l : Orch.Label)      -- a label of the real protocol
  | skip                      -- woken, the snapshot equals the remembered one: straight back into `wait()`
  deriving Repr

def init : State := { base := Orch.init true, last := none }

def step (s : State) : Label → Option State
  | .skip =>
      if s.base.pc = .notified ∧ s.last = some s.base.ins then
        some { s with base := { s.base with pc := .waiting } }
      else none
  | .obs .acquire =>
      if s.last = some s.base.ins then none
      else (Orch.step s.base .acquire).map (fun b => { base := b, last := some s.base.ins })
  | .obs l => (Orch.step s.base l).map (fun b => { s with base := b })

def run (s : State) : List Label → Option State
  | [] => some s
  | l :: ls => match step s l with
      | some s' => run s' ls
      | none => none

/-- `n` times: an observer revises the insights to the same value `i`, the orchestrator wakes and skips -/
def rounds (i : Insights) : Nat → List Label
  | 0 => []
  | n + 1 => .obs (.revise i) :: .skip :: rounds i n

end Kopf.C19.OrchSkip
