/-
  C15 model — `references.Selector.check(resource)` (kopf/_cogs/structs/references.py): the
  "resource selector" criterion of a handler. The selector is taken *after* `__post_init__` has
  parsed the positional notation into fields (group, version, the five specific names, `any_name`,
  `fn`); the parsing itself is exercised by the differential tie only. Core Lean only.
  `Handler.selector = some (sel.check resource)` is what `registries._matches_resource` reads.
-/
namespace Kopf.C15

/-- `references.Resource`, as far as `Selector.check` reads it -/
structure Resource where
  group : String
  version : String
  plural : String
  kind : Option String
  singular : Option String
  shortcuts : List String
  categories : List String
  preferred : Bool

/-- `Selector.any_name`: a name of unknown type, or the `EVERYTHING` marker -/
inductive AnyName where
  | name (s : String)
  | everything
  deriving DecidableEq, Repr

structure Selector where
  group : Option String := none
  version : Option String := none
  kind : Option String := none
  plural : Option String := none
  singular : Option String := none
  shortcut : Option String := none
  category : Option String := none
  anyName : Option AnyName := none
  fn : Option (Resource → Bool) := none

-- the nine conjuncts of `check`, each over its own atoms (re-extracted from the AST)

structure OptAtoms where
  isNone : Bool     -- self.X is None
  holds : Bool      -- self.X == resource.X   /   self.X in resource.Xs
def optCore (a : OptAtoms) : Bool := a.isNone || a.holds

structure VersionAtoms where
  versionNone : Bool   -- self.version is None
  preferred : Bool     -- resource.preferred
  fnNone : Bool        -- self.fn is None
  versionEq : Bool     -- self.version == resource.version
def versionCore (a : VersionAtoms) : Bool :=
  (a.versionNone && (a.preferred || !a.fnNone)) || (!a.versionNone && a.versionEq)

structure AnyAtoms where
  anyNone : Bool       -- self.any_name is None
  eqKind : Bool        -- self.any_name == resource.kind
  eqPlural : Bool
  eqSingular : Bool
  inShortcuts : Bool   -- self.any_name in resource.shortcuts
  isEverything : Bool  -- self.any_name is Marker.EVERYTHING
  events : Bool        -- EVENTS.check(resource)
  eventsK8s : Bool     -- EVENTS_K8S.check(resource)
def anyCore (a : AnyAtoms) : Bool :=
  a.anyNone || a.eqKind || a.eqPlural || a.eqSingular || a.inShortcuts ||
    (a.isEverything && !a.events && !a.eventsK8s)

structure FnAtoms where
  fnNone : Bool
  result : Bool        -- self.fn(resource)
  events : Bool
  eventsK8s : Bool
def fnCore (a : FnAtoms) : Bool := a.fnNone || (a.result && !a.events && !a.eventsK8s)

structure CheckAtoms where
  group : Bool
  version : Bool
  kind : Bool
  plural : Bool
  singular : Bool
  category : Bool
  shortcut : Bool
  anyName : Bool
  fn : Bool
def checkCore (a : CheckAtoms) : Bool :=
  a.group && a.version && a.kind && a.plural && a.singular && a.category && a.shortcut && a.anyName && a.fn

def optEq (x : Option String) (y : String) : OptAtoms :=
  { isNone := x.isNone, holds := match x with | some s => s == y | none => false }
/-- `self.X == resource.X` where the resource's field may be `None` -/
def optEqOpt (x : Option String) (y : Option String) : OptAtoms :=
  { isNone := x.isNone, holds := match x, y with | some s, some t => s == t | _, _ => false }
def optIn (x : Option String) (ys : List String) : OptAtoms :=
  { isNone := x.isNone, holds := match x with | some s => ys.contains s | none => false }

/-- `check` with the two event exclusions passed in (they are `check`s of two fixed selectors) -/
def Selector.checkWith (events eventsK8s : Bool) (s : Selector) (r : Resource) : Bool :=
  let nm : Option String := match s.anyName with | some (.name n) => some n | _ => none
  checkCore
    { group := optCore (optEq s.group r.group)
      version := versionCore { versionNone := s.version.isNone, preferred := r.preferred, fnNone := s.fn.isNone,
                               versionEq := match s.version with | some v => v == r.version | none => false }
      kind := optCore (optEqOpt s.kind r.kind)
      plural := optCore (optEq s.plural r.plural)
      singular := optCore (optEqOpt s.singular r.singular)
      category := optCore (optIn s.category r.categories)
      shortcut := optCore (optIn s.shortcut r.shortcuts)
      anyName := anyCore
        { anyNone := s.anyName.isNone
          eqKind := (optEqOpt nm r.kind).holds
          eqPlural := (optEq nm r.plural).holds
          eqSingular := (optEqOpt nm r.singular).holds
          inShortcuts := (optIn nm r.shortcuts).holds
          isEverything := match s.anyName with | some .everything => true | _ => false
          events := events, eventsK8s := eventsK8s }
      fn := fnCore { fnNone := s.fn.isNone, result := match s.fn with | some f => f r | none => false,
                     events := events, eventsK8s := eventsK8s } }

/-- `EVENTS = Selector('v1', 'events')`, `EVENTS_K8S = Selector('events.k8s.io', 'events')` -/
def eventsSel : Selector := { group := some "", version := some "v1", anyName := some (.name "events") }
def eventsK8sSel : Selector := { group := some "events.k8s.io", anyName := some (.name "events") }

/-- neither of the two fixed selectors is a catch-all or a callable: their own checks never reach
    the exclusion sub-expressions (Python short-circuits), so any value may be passed there -/
def isEvents (r : Resource) : Bool := eventsSel.checkWith false false r
def isEventsK8s (r : Resource) : Bool := eventsK8sSel.checkWith false false r

/-- `Selector.check(resource)` -/
def Selector.check (s : Selector) (r : Resource) : Bool := s.checkWith (isEvents r) (isEventsK8s r) r

/-- `Selector.is_specific`: the specification names a resource (vs. a category, EVERYTHING, a callable) -/
def Selector.isSpecific (s : Selector) : Bool :=
  s.kind.isSome || s.shortcut.isSome || s.plural.isSome || s.singular.isSome ||
    (match s.anyName with | some (.name _) => true | _ => false)

/-- `Selector.select(resources)`: which of the cluster's resources are WATCHED for the specification -- the
    resources that pass `check`; for a specification that names a resource the core v1 ones hide the others
    ("pods" vs. pods.metrics.k8s.io). Handlers are NOT selected through this (`_matches_resource` asks `check`
    alone): `selector_served_gap_witness`, finding C15-F11. -/
def Selector.select (s : Selector) (rs : List Resource) : List Resource :=
  let result := rs.filter s.check
  let v1only := result.filter (fun r => r.group == "")
  if s.isSpecific && !v1only.isEmpty then v1only else result

-- ---------------------------------------------------------------------------------------------
-- the resource criterion over a HISTORY of discoveries (observation.revise_resources re-discovers
-- the served resources whenever a CRD changes: the same endpoint comes back with other categories,
-- short names, kind/singular, `preferred` flag)

/-- what `Resource.__eq__` / `__hash__` compare: the API endpoint (group, version, plural) -- NOT the
    categories, short names, kind, singular or the `preferred` flag, which `check` reads as well -/
def Resource.endpoint (r : Resource) : String × String × String := (r.group, r.version, r.plural)

/-- one selector instance (it lives as long as the registry) asked about the resource of every
    event, in order: the code computes `check` afresh each time (`_matches_resource`, `has_handlers`,
    `get_resource_handlers`, `select` all go through `Selector.check`, which keeps no state) -/
def Selector.route (s : Selector) (hist : List Resource) : List Bool := hist.map s.check

/-- VARIANT (not the code; seed C15g): the outcome of `check` remembered per resource, i.e. per
    `Resource.__eq__` = per endpoint. `cache` is the dict, newest entry first. -/
def Selector.routeMemoFrom (s : Selector) (cache : List ((String × String × String) × Bool)) :
    List Resource → List Bool
  | [] => []
  | r :: rest =>
    match cache.lookup r.endpoint with
    | some b => b :: s.routeMemoFrom cache rest
    | none => s.check r :: s.routeMemoFrom ((r.endpoint, s.check r) :: cache) rest

def Selector.routeMemo (s : Selector) (hist : List Resource) : List Bool := s.routeMemoFrom [] hist

end Kopf.C15
